//go:build verif

// Package fuzz holds the coverage-guided stage of C09 and C11: Go native fuzz targets whose bodies are the same
// monitors the sharded checks use (no panic; error contract; assertion nil exactly when the error is not). They are
// run by the driver in the thorough tier with a fixed execution budget (-fuzztime=<N>x), never by wall-clock time.
package fuzz

import (
	"bytes"
	"encoding/base64"
	"encoding/xml"
	"fmt"
	mrand "math/rand"
	"net/http"
	"os"
	"path/filepath"
	"runtime/debug"
	"strings"
	"testing"

	"github.com/beevik/etree"
	"github.com/crewjam/saml"
	"github.com/crewjam/saml/samlsp"
	"github.com/crewjam/saml/xmlenc"

	"verif/internal/fx"
	"verif/internal/refenc"
	"verif/internal/so"
)

var (
	sps   []*saml.ServiceProvider
	world *so.IDPWorld
)

func setup() {
	if sps != nil {
		return
	}
	so.Quiet()
	fx.SetNow(fx.Epoch)
	fx.ResetTolerances()
	for _, t := range so.Trusts {
		sps = append(sps, so.NewSP(t.Name, fx.K("sp_rsa2048")))
	}
	idpInit := so.NewSP("meta-one-signing", fx.K("sp_rsa2048"))
	idpInit.AllowIDPInitiated = true
	sps = append(sps, idpInit)
	world = so.NewIDPWorld()
	world.Registry[so.SPMeta] = sps[0].Metadata()
	world.Session = &saml.Session{ID: "s", NameID: "u@example.com", UserName: "u", Index: "i", CreateTime: fx.Now(), ExpireTime: fx.Now().Add(3600e9)}
}

// guard runs f and turns a panic into a test failure that names the innermost library frame.
func guard(t *testing.T, what string, f func()) {
	t.Helper()
	defer func() {
		if r := recover(); r != nil {
			st := string(debug.Stack())
			frame := ""
			for _, l := range strings.Split(st, "\n") {
				if strings.Contains(l, "github.com/crewjam/saml") && !strings.Contains(l, "/verif/") {
					frame = strings.TrimSpace(l)
					break
				}
			}
			t.Fatalf("PANIC in %s: %v at %s", what, r, frame)
		}
	}()
	f()
}

func contract(t *testing.T, what string, a *saml.Assertion, err error) {
	t.Helper()
	switch {
	case err == nil && a == nil:
		t.Fatalf("CONTRACT %s: nil assertion and nil error", what)
	case err != nil && a != nil:
		t.Fatalf("CONTRACT %s: assertion and error both set", what)
	case err != nil:
		ire, ok := err.(*saml.InvalidResponseError)
		if !ok || ire == nil {
			t.Fatalf("CONTRACT %s: error is %T, not *InvalidResponseError", what, err)
		}
		if err.Error() != "Authentication failed" {
			t.Fatalf("CONTRACT %s: Error() = %q", what, err.Error())
		}
	}
}

// seeds: the repository's fixtures plus messages the signing oracle produces (signed, encrypted, artifact-wrapped).
func seedDocs(f *testing.F, globs ...string) {
	for _, g := range globs {
		ms, _ := filepath.Glob(g)
		for _, m := range ms {
			if b, err := os.ReadFile(m); err == nil && len(b) < 64<<10 {
				f.Add(b)
			}
		}
	}
}

func oracleResponses() [][]byte {
	setup()
	o := so.New(mrand.New(mrand.NewSource(1)))
	s1 := fx.K("idp_s1")
	var out [][]byte
	for layout := 0; layout < 3; layout++ {
		for _, enc := range []bool{false, true} {
			o.Reset()
			ael := o.Assertion(so.AssertionSpec{RequestID: "req-1"}).Element()
			if layout >= 1 {
				ael, _ = o.Sign(ael, s1, "")
			}
			if enc {
				ael, _ = o.Encrypt(ael, fx.K("sp_rsa2048"), "", "", "")
			}
			r := so.ResponseEl(o.Response("req-1", fx.Now()), ael)
			if layout != 1 {
				r, _ = o.Sign(r, s1, "")
			}
			out = append(out, so.Bytes(r))
		}
	}
	return out
}

func FuzzSPResponse(f *testing.F) {
	setup()
	seedDocs(f, "/repo/testdata/*response*", "/repo/testdata/*Response*", "/repo/testdata/*assertion*")
	for _, b := range oracleResponses() {
		f.Add(b)
	}
	cur := so.MustURL(so.SPACS)
	f.Fuzz(func(t *testing.T, data []byte) {
		if len(data) > 256<<10 {
			return
		}
		for i, sp := range sps {
			var a *saml.Assertion
			var err error
			guard(t, fmt.Sprintf("ParseXMLResponse[trust %d]", i), func() { a, err = sp.ParseXMLResponse(data, []string{"req-1"}, cur) })
			contract(t, "ParseXMLResponse", a, err)
		}
		var a *saml.Assertion
		var err error
		guard(t, "ParseResponse(POST)", func() { a, err = so.DeliverPOST(sps[0], data, []string{"req-1"}, cur) })
		contract(t, "ParseResponse(POST)", a, err)
	})
}

func FuzzSPArtifactResponse(f *testing.F) {
	setup()
	seedDocs(f, "/repo/testdata/*Artifact*", "/repo/testdata/*artifact*")
	o := so.New(mrand.New(mrand.NewSource(2)))
	for _, b := range oracleResponses() {
		if inner, err := so.Parse(b); err == nil {
			f.Add(so.Bytes(so.SOAP(o.ArtifactResponseEl("art-1", fx.Now(), inner))))
		}
	}
	cur := so.MustURL(so.SPACS)
	f.Fuzz(func(t *testing.T, data []byte) {
		if len(data) > 256<<10 {
			return
		}
		var a *saml.Assertion
		var err error
		guard(t, "ParseXMLArtifactResponse", func() { a, err = sps[0].ParseXMLArtifactResponse(data, []string{"req-1"}, "art-1", cur) })
		contract(t, "ParseXMLArtifactResponse", a, err)
		// the same bytes as the body an artifact resolver returns over HTTP
		guard(t, "ParseResponse(SAMLart)", func() {
			a, err = so.DeliverArtifactHTTP(sps[0], []string{"req-1"}, cur, func(string, *http.Request, []byte) (*http.Response, error) { return so.OK200(data) })
		})
		contract(t, "ParseResponse(SAMLart)", a, err)
	})
}

func FuzzSPLogoutResponse(f *testing.F) {
	setup()
	seedDocs(f, "/repo/testdata/*Logout*", "/repo/testdata/*logout*")
	o := so.New(mrand.New(mrand.NewSource(3)))
	lr := &saml.LogoutResponse{ID: "id-lr", InResponseTo: "id-req", Version: "2.0", IssueInstant: fx.Now(), Destination: so.SPSLO,
		Issuer: &saml.Issuer{Value: so.IDPEntity}, Status: saml.Status{StatusCode: saml.StatusCode{Value: saml.StatusSuccess}}}
	if el, err := o.Sign(lr.Element(), fx.K("idp_s1"), ""); err == nil {
		f.Add(so.Bytes(el))
	}
	f.Add(so.Bytes(lr.Element()))
	f.Fuzz(func(t *testing.T, data []byte) {
		if len(data) > 256<<10 {
			return
		}
		b64 := base64.StdEncoding.EncodeToString(data)
		defl := base64.StdEncoding.EncodeToString(so.Deflate(data))
		for i, sp := range sps[:7] {
			guard(t, fmt.Sprintf("ValidateLogoutResponseForm[trust %d]", i), func() { _ = sp.ValidateLogoutResponseForm(b64) })
			guard(t, fmt.Sprintf("ValidateLogoutResponseRedirect[trust %d]", i), func() { _ = sp.ValidateLogoutResponseRedirect(defl) })
		}
		// the raw bytes as the parameter value itself (hostile base64 / deflate framing)
		guard(t, "ValidateLogoutResponseForm(raw)", func() { _ = sps[0].ValidateLogoutResponseForm(string(data)) })
		guard(t, "ValidateLogoutResponseRedirect(raw)", func() { _ = sps[0].ValidateLogoutResponseRedirect(string(data)) })
	})
}

func FuzzIdPRequest(f *testing.F) {
	setup()
	seedDocs(f, "/repo/testdata/*_request*", "/repo/testdata/*Request*", "/repo/testdata/*request*")
	fm := string(saml.TransientNameIDFormat)
	ar := saml.AuthnRequest{ID: "id-1", Version: "2.0", IssueInstant: fx.Now(), Destination: so.IDPSSO, Issuer: &saml.Issuer{Value: so.SPMeta}, NameIDPolicy: &saml.NameIDPolicy{Format: &fm}}
	f.Add(so.Bytes(ar.Element()))
	f.Fuzz(func(t *testing.T, data []byte) {
		if len(data) > 256<<10 {
			return
		}
		for _, post := range []bool{true, false} {
			var hr *http.Request
			if post {
				hr = so.SSORequestPOST(so.IDPSSO, data, "relay")
			} else {
				hr = so.SSORequestGET(so.IDPSSO, data, "relay")
			}
			guard(t, fmt.Sprintf("NewIdpAuthnRequest+Validate(post=%v)", post), func() {
				req, err := saml.NewIdpAuthnRequest(world.IDP, hr)
				if err == nil {
					if verr := req.Validate(); verr == nil {
						// a validated request is answered: the whole response path must hold up as well
						rec := &nullWriter{h: http.Header{}}
						world.IDP.ServeSSO(rec, hr)
					}
				}
			})
		}
	})
}

type nullWriter struct{ h http.Header }

func (n *nullWriter) Header() http.Header         { return n.h }
func (n *nullWriter) WriteHeader(int)             {}
func (n *nullWriter) Write(b []byte) (int, error) { return len(b), nil }

func FuzzMetadata(f *testing.F) {
	setup()
	seedDocs(f, "/repo/testdata/*metadata*", "/repo/testdata/*Metadata*", "/repo/samlsp/testdata/*.xml", "/repo/samlidp/testdata/*.xml")
	if b, err := xml.Marshal(sps[0].Metadata()); err == nil {
		f.Add(b)
	}
	if b, err := xml.Marshal(world.IDP.Metadata()); err == nil {
		f.Add(b)
	}
	f.Fuzz(func(t *testing.T, data []byte) {
		if len(data) > 256<<10 {
			return
		}
		guard(t, "xml.Unmarshal(EntityDescriptor)", func() {
			var md saml.EntityDescriptor
			if xml.Unmarshal(data, &md) == nil {
				// what parses must serialise and parse again
				if b, err := xml.Marshal(&md); err == nil {
					var again saml.EntityDescriptor
					_ = xml.Unmarshal(b, &again)
				}
			}
		})
		guard(t, "xml.Unmarshal(EntitiesDescriptor)", func() {
			var mds saml.EntitiesDescriptor
			_ = xml.Unmarshal(data, &mds)
		})
		guard(t, "samlsp.ParseMetadata", func() { _, _ = samlsp.ParseMetadata(data) })
	})
}

func FuzzXMLEncDecrypt(f *testing.F) {
	setup()
	seedDocs(f, "/repo/xmlenc/testdata/*.xml", "/repo/xmlenc/*.xml")
	rnd := mrand.New(mrand.NewSource(4))
	for _, alg := range []string{refenc.AES128CBC, refenc.AES256CBC, refenc.AES128GCM, refenc.TDESCBC} {
		if ed, _, err := refenc.Encrypt(alg, refenc.OAEPMGF1P, refenc.DigestSHA1, fx.K("sp_rsa2048").Cert, nil, []byte("<a>plaintext</a>"), rnd, true); err == nil {
			f.Add(so.Bytes(ed))
		}
	}
	keys := []any{fx.K("sp_rsa2048").RSA(), fx.K("sp2_rsa2048").RSA(), make([]byte, 16), make([]byte, 24), make([]byte, 32), []byte{1}, nil, "key", (*struct{})(nil)}
	f.Fuzz(func(t *testing.T, data []byte) {
		if len(data) > 128<<10 {
			return
		}
		doc := etree.NewDocument()
		if err := doc.ReadFromBytes(data); err != nil || doc.Root() == nil {
			return
		}
		for i, k := range keys {
			guard(t, fmt.Sprintf("xmlenc.Decrypt[key %d]", i), func() {
				pt, err := xmlenc.Decrypt(k, doc.Root())
				if err != nil && pt != nil && len(pt) > 0 {
					t.Fatalf("CONTRACT xmlenc.Decrypt: %d bytes of plaintext together with error %v", len(pt), err)
				}
			})
		}
		_ = bytes.MinRead
	})
}
