package main

import (
	"fmt"
	"os"
	"path/filepath"
	"strconv"

	"verif/internal/core"
	"verif/internal/fx"
	_ "verif/props"
)

func usage() {
	fmt.Fprintln(os.Stderr, "usage: vcheck drive <ID> <tier> | worker <ID> <tier> <seed> <shard> <nshards> | genkeys | list")
	os.Exit(2)
}

func main() {
	if len(os.Args) < 2 {
		usage()
	}
	root := fx.Root()
	switch os.Args[1] {
	case "genkeys":
		if err := fx.GenKeys(); err != nil {
			fmt.Fprintln(os.Stderr, err)
			os.Exit(1)
		}
	case "manifest":
		if err := core.WriteManifest(root, core.HookCommits); err != nil {
			fmt.Fprintln(os.Stderr, err)
			os.Exit(1)
		}
	case "list":
		for _, id := range core.SpecIDs() {
			fmt.Println(id)
		}
	case "drive":
		if len(os.Args) < 4 {
			usage()
		}
		seed := int64(1)
		if v := os.Getenv("VERIF_SEED"); v != "" {
			if s, err := strconv.ParseInt(v, 10, 64); err == nil {
				seed = s
			}
		}
		exe, _ := os.Executable()
		raceExe := filepath.Join(filepath.Dir(exe), "vcheck.race")
		os.Exit(core.Drive(os.Args[2], os.Args[3], seed, root, exe, raceExe))
	case "worker":
		if len(os.Args) < 7 {
			usage()
		}
		id, tier := os.Args[2], os.Args[3]
		seed, _ := strconv.ParseInt(os.Args[4], 10, 64)
		shard, _ := strconv.Atoi(os.Args[5])
		n, _ := strconv.Atoi(os.Args[6])
		run := core.Lookup(id)
		if run == nil {
			fmt.Fprintln(os.Stderr, "unknown property", id)
			os.Exit(2)
		}
		c := core.NewCtx(id, tier, seed, shard, n, root)
		run(c)
		if err := c.Finish(); err != nil {
			fmt.Fprintln(os.Stderr, err)
			os.Exit(3)
		}
	default:
		usage()
	}
}
