#!/bin/bash
# runall.sh [tier] [ids...] : run checks sequentially, one summary line each
cd "$(dirname "$0")/.."
TIER="${1:-quick}"; shift
IDS="$@"; [ -z "$IDS" ] && IDS="$(bin/vcheck list)"
for id in $IDS; do
  s=$(date +%s)
  out="$(./check.sh $id $TIER 2>&1)"; rc=$?
  echo "$id rc=$rc $(( $(date +%s)-s ))s $(echo "$out" | grep -cE '^VIOLATION') violations; $(echo "$out" | grep -E '^(BROKEN|VIOLATION)' | head -2 | tr '\n' ' ' | cut -c1-200)"
done
