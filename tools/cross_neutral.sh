#!/bin/bash
# cross_neutral.sh : apply every neutral patch under /tmp/w5-C*/NEUTRAL and run the quick checks of every property that
# exercises the files it touches (except its own, which try_neutral.sh already ran). Prints only alarms.
cd "$(dirname "$0")/.."
for P in ${NEUTRAL_GLOB:-/tmp/w5-C*/NEUTRAL/*/patch.diff}; do
  own=$(echo $P | sed 's#.*/w[0-9]-\(C[0-9]*\)/.*#\1#')
  files=$(grep '^+++ b/' $P | sed 's#+++ b/##' | tr '\n' ' ')
  ids=""
  case "$files" in *service_provider.go*|*schema.go*|*util.go*) ids="$ids C01 C02 C03 C04 C08 C12 C13 C18 C07";; esac
  case "$files" in *identity_provider.go*) ids="$ids C05 C06 C07 C08 C14";; esac
  case "$files" in *xmlenc/*) ids="$ids C10 C11 C07 C08";; esac
  case "$files" in *samlsp/*) ids="$ids C16 C17 C13";; esac
  case "$files" in *samlidp/*) ids="$ids C19 C20 C14";; esac
  case "$files" in *metadata.go*|*time.go*|*duration.go*) ids="$ids C14 C15 C05 C02";; esac
  case "$files" in *flate.go*) ids="$ids C18 C05";; esac
  ids=$(echo $ids | tr ' ' '\n' | sort -u | grep -v "^$own$" | tr '\n' ' ')
  [ -z "$ids" ] && continue
  out=$(tools/try_patch.sh $P $ids 2>&1 | grep -v "^KNOWN")
  if echo "$out" | grep -q "exit=[12]"; then echo "== $P [$files]"; echo "$out" | grep -A2 "exit=[12]" | cut -c1-300; fi
done
echo cross-done
