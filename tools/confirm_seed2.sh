#!/bin/bash
# confirm_seed2.sh <worktree> <ID> <A|B> <name> : verify a round-2 sub-agent mutation stored as MUTATION/<A|B>/{patch.diff,*_test.go.txt,NOTES.md}
set -u
WT="$1"; ID="$2"; SUB="$3"; NAME="$4"
export GOFLAGS=-mod=mod GOPROXY=off GOSUMDB=off GOTOOLCHAIN=local
cd "$WT" || exit 9
M="$WT/MUTATION/$SUB"; P="$M/patch.diff"
[ -s "$P" ] || { echo "no patch.diff in $M"; exit 8; }
git checkout -q -- . ; git clean -fdq -e MUTATION >/dev/null 2>&1
git apply "$P" || { echo "patch does not apply to HEAD"; exit 7; }
PKGSALL=$(go list ./... | grep -v /MUTATION)
go build $PKGSALL || { echo "does not build"; git apply -R "$P"; exit 6; }
SUITE=$(go test -vet=off -count=1 $PKGSALL 2>&1 | grep -v "no test files"); echo "$SUITE" | tail -4
echo "$SUITE" | grep -q "^FAIL\|^---" && SUITE_OK=no || SUITE_OK=yes
# place demos
DEMOS=""
for f in "$M"/*_test.go.txt "$M"/*_test.go; do
  [ -f "$f" ] || continue
  pkg=$(grep -m1 '^package ' "$f" | awk '{print $2}' | sed 's/_test$//')
  case "$pkg" in saml) dir=. ;; samlsp) dir=samlsp ;; samlidp) dir=samlidp ;; xmlenc) dir=xmlenc ;; *) dir=. ;; esac
  base=$(basename "$f" .txt); cp "$f" "$dir/zz_$base"; DEMOS="$DEMOS $dir/zz_$base"
done
echo "demo files:$DEMOS"
PKGS=$(for d in $DEMOS; do echo ./$(dirname $d); done | sort -u)
RACE=""; grep -qi "go test -race\|-race" "$M/NOTES.md" 2>/dev/null && [ "$ID" = "C20" ] && RACE="-race"
go test $RACE -vet=off -count=1 ${RUNPAT:+-run $RUNPAT} $PKGS > /tmp/demo-with-$$.txt 2>&1; WITH=$?
git apply -R "$P"; go test $RACE -vet=off -count=1 ${RUNPAT:+-run $RUNPAT} $PKGS > /tmp/demo-without-$$.txt 2>&1; WITHOUT=$?
echo "suite_green_with_change=$SUITE_OK demo_with_change_exit=$WITH demo_without_change_exit=$WITHOUT"
[ $WITHOUT -ne 0 ] && tail -5 /tmp/demo-without-$$.txt
D=/verif/seeded/$NAME; mkdir -p $D; cp "$P" $D/patch.diff; for d in $DEMOS; do cp $d $D/$(echo $d | sed 's|^\./||; s|/|_|g; s|zz_||'); done; cp "$M/NOTES.md" $D/NOTES.md 2>/dev/null
for d in $DEMOS; do rm -f $d; done
cd /verif; OUT=$(tools/try_patch.sh $D/patch.diff $ID 2>&1); echo "$OUT" | cut -c1-300
python3 - "$D" "$ID" "$SUITE_OK" "$WITH" "$WITHOUT" "$(echo "$OUT" | head -1)" "$DEMOS" <<'PY'
import json,sys,os
d,pid,suite,w,wo,res,demos=sys.argv[1:8]
notes=open(d+'/NOTES.md').read() if os.path.exists(d+'/NOTES.md') else ''
json.dump({"breaks":pid,"origin":"independent sub-agent, round ${ROUND:-2} (given the property text, a scratch worktree and the list of ideas already used)","demo_files":demos.split(),"confirmed":{"suite_green_with_change":suite,"demo_exit_with_change":int(w),"demo_exit_without_change":int(wo)},"ran":"tools/confirm_seed2.sh; tools/try_patch.sh "+d+"/patch.diff "+pid,"check_result":res,"what_and_needs":notes[:1500]},open(d+'/meta.json','w'),indent=1)
PY
rm -f /tmp/demo-with-$$.txt /tmp/demo-without-$$.txt
