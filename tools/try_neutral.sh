#!/bin/bash
# try_neutral.sh <worktree> <ID> [more IDs...] : apply each NEUTRAL/{A,B,C}/patch.diff of a worktree to /repo, run the quick
# check(s), undo. A neutral change keeps the property true: any VIOLATION here is a false alarm of the check.
WT="$1"; shift
cd "$(dirname "$0")/.."
for S in A B C; do
  P="$WT/NEUTRAL/$S/patch.diff"; [ -s "$P" ] || { echo "$S: no patch"; continue; }
  echo "== $(basename $WT) $S"
  tools/try_patch.sh "$P" "$@" 2>&1 | grep -v "^KNOWN" | cut -c1-330 | head -8
done
