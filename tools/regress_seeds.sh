#!/bin/bash
# regress_seeds.sh [pattern] : apply every seeded change whose directory name matches the pattern (default: all), run the
# quick check named in its meta.json ("breaks"), and report the ones that are NOT detected (exit 0).
cd "$(dirname "$0")/.."
PAT="${1:-.}"
miss=0; n=0
for d in seeded/*/; do
  name=$(basename $d); echo "$name" | grep -qE "$PAT" || continue
  [ -s $d/patch.diff ] || continue
  id=$(python3 -c "import json,sys;print(json.load(open('$d/meta.json')).get('breaks','')[:3])" 2>/dev/null)
  [ -n "$id" ] || continue
  if grep -q '"detected_by": "NOT detected' $d/meta.json 2>/dev/null; then echo "documented as semantically neutral (not expected to be detected): $name"; continue; fi
  out=$(tools/try_patch.sh $d/patch.diff $id 2>&1 | head -1)
  n=$((n+1))
  case "$out" in *"exit=1"*) ;; *) echo "NOT DETECTED: $name -> $out"; miss=$((miss+1));; esac
done
echo "seeds run: $n, not detected: $miss"
