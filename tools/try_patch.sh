#!/bin/bash
# try_patch.sh <patch.diff> <ID> [<ID>...] : apply a seeded change to /repo, run the quick checks, undo it.
# Prints one line per check: "<ID> exit=<n> first-violation-line". /repo is always restored (git checkout -- .).
set -u
P="$(readlink -f "$1")"; shift
cd /verif
if ! git -C /repo diff --quiet; then echo "/repo has uncommitted changes; refusing"; exit 9; fi
restore() { git -C /repo checkout -- . ; git -C /repo clean -fdq -- . 2>/dev/null; }
trap restore EXIT
git -C /repo apply "$P" || { echo "patch does not apply"; exit 8; }
for ID in "$@"; do
  out="$(VERIF_SEED=${VERIF_SEED:-1} ./check.sh "$ID" "${TIER:-quick}" 2>&1)"; rc=$?
  echo "$ID exit=$rc $(echo "$out" | grep -m1 -E '^(VIOLATION|BROKEN)' )"
  echo "$out" | grep -E 'violation key' | head -${SHOW:-3} | cut -c1-220
done
