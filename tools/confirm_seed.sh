#!/bin/bash
# confirm_seed.sh <worktree> <ID> <name> : verify a sub-agent's mutation (suite green with change, demo red with / green without),
# store it under /verif/seeded/<name>/ and run the property's quick check against it.
set -u
WT="$1"; ID="$2"; NAME="$3"
export GOFLAGS=-mod=mod GOPROXY=off GOSUMDB=off GOTOOLCHAIN=local
cd "$WT" || exit 9
P="$WT/MUTATION/patch.diff"
[ -s "$P" ] || { echo "no patch.diff"; exit 8; }
# demo test files = untracked *_test.go files outside MUTATION
DEMOS=$(git status --porcelain | awk '$1=="??"{print $2}' | grep '_test.go$' | grep -v '^MUTATION/')
echo "demo files: $DEMOS"
git checkout -q -- . ; git apply "$P" || { echo "patch does not apply to HEAD"; exit 7; }
mkdir -p /tmp/demo-aside-$$; for d in $DEMOS; do mkdir -p /tmp/demo-aside-$$/$(dirname $d); mv $d /tmp/demo-aside-$$/$d; done
go build $(go list ./... | grep -v /MUTATION) || { echo "does not build"; exit 6; }
SUITE=$(go test -vet=off -count=1 $(go list ./... | grep -v /MUTATION) 2>&1 | grep -v "no test files"); echo "$SUITE" | tail -4
echo "$SUITE" | grep -q "^FAIL\|^---" && SUITE_OK=no || SUITE_OK=yes
for d in $DEMOS; do mv /tmp/demo-aside-$$/$d $d; done; rm -rf /tmp/demo-aside-$$
PKGS=$(for d in $DEMOS; do echo ./$(dirname $d); done | sort -u)
go test -vet=off -count=1 $PKGS > /tmp/demo-with-$$.txt 2>&1; WITH=$?
git apply -R "$P"; go test -vet=off -count=1 $PKGS > /tmp/demo-without-$$.txt 2>&1; WITHOUT=$?; git apply "$P"
echo "suite_green_with_change=$SUITE_OK demo_with_change_exit=$WITH demo_without_change_exit=$WITHOUT"
D=/verif/seeded/$NAME; mkdir -p $D; cp "$P" $D/patch.diff; for d in $DEMOS; do cp $d $D/$(echo $d | tr '/' '_'); done; cp MUTATION/NOTES.md $D/NOTES.md 2>/dev/null
cd /verif; OUT=$(tools/try_patch.sh $D/patch.diff $ID 2>&1); echo "$OUT" | cut -c1-300
python3 - "$D" "$ID" "$SUITE_OK" "$WITH" "$WITHOUT" "$(echo "$OUT" | head -1)" "$DEMOS" <<'PY'
import json,sys
d,pid,suite,w,wo,res,demos=sys.argv[1:8]
notes=open(d+'/NOTES.md').read() if __import__('os').path.exists(d+'/NOTES.md') else ''
json.dump({"breaks":pid,"origin":"independent sub-agent (given only the property text and a scratch worktree)","demo_files":demos.split(),"confirmed":{"suite_green_with_change":suite,"demo_exit_with_change":int(w),"demo_exit_without_change":int(wo)},"ran":"tools/confirm_seed.sh; tools/try_patch.sh "+d+"/patch.diff "+pid,"check_result":res,"what_and_needs":notes[:1500]},open(d+'/meta.json','w'),indent=1)
PY
rm -f /tmp/demo-with-$$.txt /tmp/demo-without-$$.txt
