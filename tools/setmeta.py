#!/usr/bin/env python3
# setmeta.py <seeded-dir> key=value ... : patch fields of a seeded meta.json
import json,sys
d=sys.argv[1]; m=json.load(open(d+'/meta.json'))
for kv in sys.argv[2:]:
    k,v=kv.split('=',1); m[k]=v
json.dump(m,open(d+'/meta.json','w'),indent=1)
