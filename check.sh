#!/bin/bash
# check.sh <ID> <quick|thorough> : rebuild the monitors against /repo's working tree (hooks on) and run one property.
set -u
cd "$(dirname "$0")"
export GOFLAGS=-mod=mod GOPROXY=off GOSUMDB=off GOTOOLCHAIN=local
export VERIF_ROOT="$PWD"
ID="${1:?property id}"; TIER="${2:-quick}"
mkdir -p bin work evidence replays
build() {
  ( flock 9
    cp -f /repo/go.sum go.sum 2>/dev/null
    MODFLAG=""
    if [ -n "${VERIF_REPO:-}" ] && [ "$VERIF_REPO" != "/repo" ]; then
      # background sweeps only (vp run --with-repo): build against a snapshot of /repo so that seeded changes applied to
      # /repo meanwhile cannot leak into the sweep. Registered commands never set VERIF_REPO and always build from /repo.
      sed "s#=> /repo#=> $VERIF_REPO#" go.mod > work/go.alt.mod; cp -f go.sum work/go.alt.sum
      MODFLAG="-modfile=work/go.alt.mod"
    fi
    go build $MODFLAG -tags verif -o bin/vcheck.new ./cmd/vcheck && mv -f bin/vcheck.new bin/vcheck || exit 3
    if [ "$ID" = "C20" ] || [ "${VERIF_BUILD_RACE:-0}" = "1" ]; then
      go build $MODFLAG -race -tags verif -o bin/vcheck.race.new ./cmd/vcheck && mv -f bin/vcheck.race.new bin/vcheck.race || exit 3
    fi
  ) 9>bin/.lock
}
if [ -n "${VERIF_REPO:-}" ] && [ "$VERIF_REPO" != "/repo" ]; then export VERIF_MODFLAG="-modfile=work/go.alt.mod"; fi
if ! build >work/build-$ID.log 2>&1; then
  cat work/build-$ID.log
  echo "BROKEN: build of monitors against /repo failed"
  exit 2
fi
exec bin/vcheck drive "$ID" "$TIER"
