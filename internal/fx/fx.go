// Package fx holds shared fixtures: the committed key pool, the virtual clock, recording random readers.
package fx

import (
	"crypto"
	"crypto/ecdsa"
	"crypto/elliptic"
	"crypto/rand"
	"crypto/rsa"
	"crypto/x509"
	"crypto/x509/pkix"
	"encoding/base64"
	"encoding/pem"
	"fmt"
	"io"
	"math/big"
	mrand "math/rand"
	"os"
	"path/filepath"
	"strconv"
	"sync"
	"time"

	"github.com/crewjam/saml"
	"github.com/golang-jwt/jwt/v4"
	dsig "github.com/russellhaering/goxmldsig"
)

// KeyPair is one entry of the key pool.
type KeyPair struct {
	Name string
	Key  crypto.Signer
	Cert *x509.Certificate
}

func (k *KeyPair) RSA() *rsa.PrivateKey  { r, _ := k.Key.(*rsa.PrivateKey); return r }
func (k *KeyPair) EC() *ecdsa.PrivateKey { r, _ := k.Key.(*ecdsa.PrivateKey); return r }
func (k *KeyPair) CertB64() string       { return base64.StdEncoding.EncodeToString(k.Cert.Raw) }
func (k *KeyPair) IsRSA() bool           { return k.RSA() != nil }

var (
	poolOnce sync.Once
	pool     map[string]*KeyPair
	poolErr  error
)

// Names of the committed key pool.
var PoolSpec = []struct {
	Name string
	Kind string // rsa1024 rsa2048 rsa3072 rsa4096 p256 p384 p521
	CN   string
}{
	{"idp_s1", "rsa2048", "idp-signing-1"},
	{"idp_s2", "rsa2048", "idp-signing-2"},
	{"idp_e", "rsa2048", "idp-encryption"},
	{"idp_ec", "p256", "idp-ec"},
	{"att_x", "rsa2048", "attacker"},
	{"att_xp", "rsa2048", "idp-signing-1"}, // certificate copies S1's subject and serial
	{"sp_rsa1024", "rsa1024", "sp-1024"},
	{"sp_rsa2048", "rsa2048", "sp-2048"},
	{"sp_rsa3072", "rsa3072", "sp-3072"},
	{"sp_rsa4096", "rsa4096", "sp-4096"},
	{"sp_p256", "p256", "sp-p256"},
	{"sp_p384", "p384", "sp-p384"},
	{"sp_p521", "p521", "sp-p521"},
	{"sp2_rsa2048", "rsa2048", "sp2-2048"},
	{"sp3_rsa2048", "rsa2048", "sp3-2048"},
}

func Root() string {
	if r := os.Getenv("VERIF_ROOT"); r != "" {
		return r
	}
	return "/verif"
}

func keyDir() string { return filepath.Join(Root(), "fixtures", "keys") }

// GenKeys creates the key pool on disk (run once; results are committed).
func GenKeys() error {
	if err := os.MkdirAll(keyDir(), 0o755); err != nil {
		return err
	}
	for _, s := range PoolSpec {
		kp := filepath.Join(keyDir(), s.Name+".key")
		if _, err := os.Stat(kp); err == nil {
			continue
		}
		var key crypto.Signer
		var err error
		switch s.Kind {
		case "rsa1024":
			key, err = rsa.GenerateKey(rand.Reader, 1024)
		case "rsa2048":
			key, err = rsa.GenerateKey(rand.Reader, 2048)
		case "rsa3072":
			key, err = rsa.GenerateKey(rand.Reader, 3072)
		case "rsa4096":
			key, err = rsa.GenerateKey(rand.Reader, 4096)
		case "p256":
			key, err = ecdsa.GenerateKey(elliptic.P256(), rand.Reader)
		case "p384":
			key, err = ecdsa.GenerateKey(elliptic.P384(), rand.Reader)
		case "p521":
			key, err = ecdsa.GenerateKey(elliptic.P521(), rand.Reader)
		}
		if err != nil {
			return err
		}
		serial := big.NewInt(int64(1000 + len(s.Name)*7 + int(s.Name[len(s.Name)-1])))
		if s.Name == "att_xp" || s.Name == "idp_s1" {
			serial = big.NewInt(424242)
		}
		tmpl := &x509.Certificate{
			SerialNumber:          serial,
			Subject:               pkix.Name{CommonName: s.CN, Organization: []string{"verif"}},
			NotBefore:             time.Date(2000, 1, 1, 0, 0, 0, 0, time.UTC),
			NotAfter:              time.Date(2100, 1, 1, 0, 0, 0, 0, time.UTC),
			KeyUsage:              x509.KeyUsageDigitalSignature | x509.KeyUsageKeyEncipherment,
			BasicConstraintsValid: true,
		}
		der, err := x509.CreateCertificate(rand.Reader, tmpl, tmpl, key.Public(), key)
		if err != nil {
			return err
		}
		kb, err := x509.MarshalPKCS8PrivateKey(key)
		if err != nil {
			return err
		}
		if err := os.WriteFile(kp, pem.EncodeToMemory(&pem.Block{Type: "PRIVATE KEY", Bytes: kb}), 0o644); err != nil {
			return err
		}
		if err := os.WriteFile(filepath.Join(keyDir(), s.Name+".crt"), pem.EncodeToMemory(&pem.Block{Type: "CERTIFICATE", Bytes: der}), 0o644); err != nil {
			return err
		}
	}
	return nil
}

func loadPool() {
	pool = map[string]*KeyPair{}
	for _, s := range PoolSpec {
		kb, err := os.ReadFile(filepath.Join(keyDir(), s.Name+".key"))
		if err != nil {
			poolErr = err
			return
		}
		cb, err := os.ReadFile(filepath.Join(keyDir(), s.Name+".crt"))
		if err != nil {
			poolErr = err
			return
		}
		kblk, _ := pem.Decode(kb)
		cblk, _ := pem.Decode(cb)
		k, err := x509.ParsePKCS8PrivateKey(kblk.Bytes)
		if err != nil {
			poolErr = err
			return
		}
		c, err := x509.ParseCertificate(cblk.Bytes)
		if err != nil {
			poolErr = err
			return
		}
		pool[s.Name] = &KeyPair{Name: s.Name, Key: k.(crypto.Signer), Cert: c}
	}
}

// K returns a key pair of the pool by name (panics when the pool is unusable: harness error).
func K(name string) *KeyPair {
	poolOnce.Do(loadPool)
	if poolErr != nil {
		panic(fmt.Sprintf("key pool: %v", poolErr))
	}
	k := pool[name]
	if k == nil {
		panic("no such key " + name)
	}
	return k
}

// ---- virtual clock ----

// Epoch is the base instant of the virtual clock used by most checks.
var Epoch = time.Date(2024, 3, 10, 12, 0, 0, 0, time.UTC)

var now = Epoch

// SetNow moves the library clock, the dsig clock and the jwt clock together.
// Zone, when set, is the location in which the library clock reports its instants (same instants, other wall-clock
// fields). Workers get it from VERIF_CLOCK_ZONE ("-08:00", "+05:30").
var Zone *time.Location

func init() {
	if z := os.Getenv("VERIF_CLOCK_ZONE"); len(z) == 6 {
		h, _ := strconv.Atoi(z[1:3])
		m, _ := strconv.Atoi(z[4:6])
		off := h*3600 + m*60
		if z[0] == '-' {
			off = -off
		}
		Zone = time.FixedZone("verif"+z, off)
	}
}

func SetNow(t time.Time) {
	if Zone != nil {
		t = t.In(Zone)
	}
	now = t
	saml.TimeNow = func() time.Time { return now }
	saml.Clock = dsig.NewFakeClockAt(now)
	jwt.TimeFunc = func() time.Time { return now }
}

func Now() time.Time { return now }

// SetTolerances sets the public tolerance variables.
func SetTolerances(maxIssueDelay, maxClockSkew time.Duration) {
	saml.MaxIssueDelay = maxIssueDelay
	saml.MaxClockSkew = maxClockSkew
}

func ResetTolerances() { SetTolerances(90*time.Second, 180*time.Second) }

// ---- recording random reader ----

// RecReader is a deterministic random source that records every range it serves.
type RecReader struct {
	mu     sync.Mutex
	src    *mrand.Rand
	Served [][]byte // each Read call's bytes (since last Reset)
	Total  int
	Fail   bool // when set, Read returns an error
	// MaxChunk > 0 makes every Read a short read of at most MaxChunk bytes (io.Reader allows that; callers that need
	// a full buffer have to use io.ReadFull)
	MaxChunk int
}

func NewRecReader(seed int64) *RecReader {
	return &RecReader{src: mrand.New(mrand.NewSource(seed))}
}

func (r *RecReader) Read(p []byte) (int, error) {
	r.mu.Lock()
	defer r.mu.Unlock()
	if r.Fail {
		return 0, io.ErrUnexpectedEOF
	}
	if r.MaxChunk > 0 && len(p) > r.MaxChunk {
		p = p[:r.MaxChunk]
	}
	for i := range p {
		p[i] = byte(r.src.Intn(256))
	}
	cp := append([]byte(nil), p...)
	r.Served = append(r.Served, cp)
	r.Total += len(p)
	return len(p), nil
}

func (r *RecReader) Reset() {
	r.mu.Lock()
	r.Served = nil
	r.Total = 0
	r.mu.Unlock()
}

// Stream returns the concatenation of everything served since Reset.
func (r *RecReader) Stream() []byte {
	r.mu.Lock()
	defer r.mu.Unlock()
	var out []byte
	for _, s := range r.Served {
		out = append(out, s...)
	}
	return out
}

// ---- nasty strings shared by several generators ----

// XMLStrings are strings over XML 1.0 Char exercising escaping, white space and look-alikes.
var XMLStrings = []string{
	"plain", "", " ", "  lead", "trail  ", " both ", "a b", "tab\there", "nl\nhere", "\n", "\t",
	"<", ">", "&", "\"", "'", "<a>", "</saml:NameID>", "a&amp;b", "&lt;", "&#x41;", "&#13;", "]]>", "<![CDATA[x]]>",
	"<!--c-->", "-->", "<?pi?>", "a\"b'c", "x=\"y\"", "é", "日本語", "\u0085", " ", " ", "�", "😀", "\U0001F600\U00010000",
	"a b", "%41", "+", "a+b c", "{{.}}", "${x}", "\\", "/", "ü@example.com", "O'Neil & Sons <ltd>",
}

// CRStrings contain carriage returns (XML Char, but normalised by parsers).
var CRStrings = []string{"a\rb", "a\r\nb", "\r", "end\r"}

// CertVariant issues a fresh self-signed certificate for kp's key with a modified template (CA flag, validity, subject...)
// and returns its DER in base64. Used for certificates that belong to a known key but are unusual in some respect.
func CertVariant(kp *KeyPair, mod func(t *x509.Certificate)) string {
	signer, ok := kp.Key.(crypto.Signer)
	if !ok {
		panic("fx: key is not a signer")
	}
	tmpl := &x509.Certificate{
		SerialNumber:          big.NewInt(777001),
		Subject:               pkix.Name{CommonName: "variant of " + kp.Name, Organization: []string{"verif"}},
		NotBefore:             time.Date(2000, 1, 1, 0, 0, 0, 0, time.UTC),
		NotAfter:              time.Date(2100, 1, 1, 0, 0, 0, 0, time.UTC),
		KeyUsage:              x509.KeyUsageDigitalSignature | x509.KeyUsageKeyEncipherment,
		BasicConstraintsValid: true,
	}
	mod(tmpl)
	der, err := x509.CreateCertificate(rand.Reader, tmpl, tmpl, signer.Public(), signer)
	if err != nil {
		panic(err)
	}
	return base64.StdEncoding.EncodeToString(der)
}

// VariantPair is base's private key under another self-signed certificate (see CertVariant).
func VariantPair(base *KeyPair, name string, mod func(t *x509.Certificate)) *KeyPair {
	der, err := base64.StdEncoding.DecodeString(CertVariant(base, mod))
	if err != nil {
		panic(err)
	}
	cert, err := x509.ParseCertificate(der)
	if err != nil {
		panic(err)
	}
	return &KeyPair{Name: name, Key: base.Key, Cert: cert}
}
