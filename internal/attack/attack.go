// Package attack is a transformation grammar over genuinely signed SAML messages: signature wrapping, element
// moves/copies, ID and Reference edits, Signature and KeyInfo games, comment / CDATA / namespace injection, attacker
// re-signing, re-encryption to the SP certificate and partial removal. Every operation is performed by a party that
// lacks the IdP keys (it only has attacker keys and public material).
package attack

import (
	"bytes"
	"crypto/rsa"
	"encoding/base64"
	"fmt"
	"math/big"
	mrand "math/rand"
	"strings"

	"github.com/beevik/etree"

	"verif/internal/fx"
	"verif/internal/refenc"
	"verif/internal/so"
)

const nsDsig = "http://www.w3.org/2000/09/xmldsig#"

// Ctx carries the attacker's means.
type Ctx struct {
	Rng *mrand.Rand
	O   *so.Oracle
	// MakeEvil turns a copy of a genuine element (Assertion, Response or LogoutResponse) into one with attacker-chosen
	// identity content that is otherwise valid. It must change the identity-bearing content.
	MakeEvil func(el *etree.Element)
	SPCert   *fx.KeyPair // public certificate of the SP (for re-encryption)
	Genuine  *fx.KeyPair // only its *certificate* is used (public)
	seq      int
}

func (a *Ctx) id(p string) string {
	a.seq++
	return fmt.Sprintf("%s%d-%06x", p, a.seq, a.Rng.Intn(1<<24))
}

func isSig(e *etree.Element) bool { return e.Tag == "Signature" }

func sigChild(e *etree.Element) *etree.Element {
	for _, c := range e.ChildElements() {
		if isSig(c) {
			return c
		}
	}
	return nil
}

// signedEls returns elements that have a Signature child, outermost first.
func signedEls(root *etree.Element) []*etree.Element {
	var out []*etree.Element
	var walk func(e *etree.Element)
	walk = func(e *etree.Element) {
		if sigChild(e) != nil {
			out = append(out, e)
		}
		for _, c := range e.ChildElements() {
			if !isSig(c) {
				walk(c)
			}
		}
	}
	walk(root)
	return out
}

// targets are the elements an attacker wants to impersonate: assertions and the root.
func targets(root *etree.Element) []*etree.Element {
	out := []*etree.Element{root}
	for _, e := range root.FindElements("//Assertion") {
		out = append(out, e)
	}
	return out
}

func stripSig(e *etree.Element) {
	for _, c := range e.ChildElements() {
		if isSig(c) {
			e.RemoveChild(c)
		}
	}
}

func pick[T any](r *mrand.Rand, l []T) T { return l[r.Intn(len(l))] }

// evilCopy makes an unsigned evil twin of e.
func (a *Ctx) evilCopy(e *etree.Element, keepID bool) *etree.Element {
	c := e.Copy()
	stripSig(c)
	for _, inner := range c.FindElements("//Signature") {
		if inner.Parent() != nil {
			inner.Parent().RemoveChild(inner)
		}
	}
	a.MakeEvil(c)
	if !keepID {
		c.CreateAttr("ID", a.id("id-evil"))
	}
	return c
}

func containerFor(parentOf *etree.Element, kind int) *etree.Element {
	names := []string{"samlp:Extensions", "saml:Advice", "samlp:StatusDetail", "ds:Object", "saml:SubjectConfirmationData", "Wrapper"}
	w := etree.NewElement(names[kind%len(names)])
	if strings.HasPrefix(names[kind%len(names)], "ds:") {
		w.CreateAttr("xmlns:ds", nsDsig)
	}
	return w
}

func replaceEl(old, new *etree.Element) {
	p := old.Parent()
	if p == nil {
		return
	}
	i := old.Index()
	p.RemoveChildAt(i)
	p.InsertChildAt(i, new)
}

// Op is one transformation; it returns the (possibly new) root and a description, or "" when not applicable.
type Op struct {
	Name string
	F    func(a *Ctx, root *etree.Element) (*etree.Element, string)
}

// Ops is the grammar.
var Ops = []Op{
	{"xsw-sibling", func(a *Ctx, root *etree.Element) (*etree.Element, string) {
		// evil twin placed before/after the genuine signed element
		s := signedEls(root)
		if len(s) == 0 {
			return root, ""
		}
		e := pick(a.Rng, s)
		if e.Parent() == nil { // root itself signed: wrap both into a new root of the same kind
			evil := a.evilCopy(e, a.Rng.Intn(2) == 0)
			for _, c := range evil.ChildElements() { // evil root keeps only non-assertion children + the genuine root somewhere
				_ = c
			}
			box := containerFor(evil, a.Rng.Intn(6))
			box.AddChild(e.Copy())
			evil.InsertChildAt(a.Rng.Intn(len(evil.Child)+1), box)
			return evil, "xsw-root-wrapped-in-evil-root"
		}
		keep := a.Rng.Intn(2) == 0
		evil := a.evilCopy(e, keep)
		before := a.Rng.Intn(2) == 0
		i := e.Index()
		if !before {
			i++
		}
		e.Parent().InsertChildAt(i, evil)
		return root, fmt.Sprintf("xsw-sibling %s before=%v sameID=%v", e.Tag, before, keep)
	}},
	{"xsw-evil-wraps-genuine", func(a *Ctx, root *etree.Element) (*etree.Element, string) {
		// evil twin takes the genuine element's place; the genuine one is moved inside it
		s := signedEls(root)
		if len(s) == 0 {
			return root, ""
		}
		e := pick(a.Rng, s)
		keep := a.Rng.Intn(2) == 0
		evil := a.evilCopy(e, keep)
		kind := a.Rng.Intn(7)
		g := e.Copy()
		if kind == 6 {
			evil.InsertChildAt(a.Rng.Intn(len(evil.Child)+1), g)
		} else {
			box := containerFor(evil, kind)
			box.AddChild(g)
			evil.InsertChildAt(a.Rng.Intn(len(evil.Child)+1), box)
		}
		copySig := a.Rng.Intn(2) == 0
		if copySig {
			if sg := sigChild(e); sg != nil {
				evil.InsertChildAt(min(1, len(evil.Child)), sg.Copy())
			}
		}
		if e.Parent() == nil {
			return evil, fmt.Sprintf("xsw-evil-root-wraps-genuine kind=%d sameID=%v copySig=%v", kind, keep, copySig)
		}
		replaceEl(e, evil)
		return root, fmt.Sprintf("xsw-evil-wraps-genuine %s kind=%d sameID=%v copySig=%v", e.Tag, kind, keep, copySig)
	}},
	{"xsw-genuine-wraps-evil", func(a *Ctx, root *etree.Element) (*etree.Element, string) {
		// evil twin hidden inside the genuine element's Signature (not covered by the enveloped transform) or elsewhere inside
		s := signedEls(root)
		if len(s) == 0 {
			return root, ""
		}
		e := pick(a.Rng, s)
		evil := a.evilCopy(e, a.Rng.Intn(2) == 0)
		sg := sigChild(e)
		where := a.Rng.Intn(3)
		switch where {
		case 0:
			obj := etree.NewElement("ds:Object")
			obj.CreateAttr("xmlns:ds", nsDsig)
			obj.AddChild(evil)
			sg.AddChild(obj)
		case 1:
			sg.InsertChildAt(0, evil)
		case 2:
			e.InsertChildAt(a.Rng.Intn(len(e.Child)+1), evil)
		}
		return root, fmt.Sprintf("xsw-genuine-wraps-evil %s where=%d", e.Tag, where)
	}},
	{"evil-with-moved-signature", func(a *Ctx, root *etree.Element) (*etree.Element, string) {
		// the genuine Signature element is moved/copied onto an evil twin; the genuine content stays around (or not)
		s := signedEls(root)
		if len(s) == 0 {
			return root, ""
		}
		e := pick(a.Rng, s)
		evil := a.evilCopy(e, true)
		sg := sigChild(e).Copy()
		evil.InsertChildAt(min(1, len(evil.Child)), sg)
		mode := a.Rng.Intn(3)
		if e.Parent() == nil {
			return evil, "evil-root-with-genuine-signature"
		}
		switch mode {
		case 0:
			replaceEl(e, evil)
		case 1:
			e.Parent().InsertChildAt(e.Index(), evil)
		case 2:
			stripSig(e)
			e.Parent().InsertChildAt(e.Index()+1, evil)
		}
		return root, fmt.Sprintf("evil-with-moved-signature %s mode=%d", e.Tag, mode)
	}},
	{"replace-by-unsigned-evil", func(a *Ctx, root *etree.Element) (*etree.Element, string) {
		t := pick(a.Rng, targets(root))
		evil := a.evilCopy(t, a.Rng.Intn(2) == 0)
		if t.Parent() == nil {
			return evil, "replace-root-by-unsigned-evil"
		}
		replaceEl(t, evil)
		return root, "replace-by-unsigned-evil " + t.Tag
	}},
	{"edit-after-signing", func(a *Ctx, root *etree.Element) (*etree.Element, string) {
		s := signedEls(root)
		if len(s) == 0 {
			return root, ""
		}
		e := pick(a.Rng, s)
		sg := sigChild(e)
		e.RemoveChild(sg)
		a.MakeEvil(e)
		e.InsertChildAt(min(1, len(e.Child)), sg)
		return root, "edit-after-signing " + e.Tag
	}},
	{"id-games", func(a *Ctx, root *etree.Element) (*etree.Element, string) {
		s := signedEls(root)
		if len(s) == 0 {
			return root, ""
		}
		e := pick(a.Rng, s)
		mode := a.Rng.Intn(5)
		switch mode {
		case 0: // rename ID attribute
			v := e.SelectAttrValue("ID", "")
			e.RemoveAttr("ID")
			e.CreateAttr(pick(a.Rng, []string{"Id", "id", "iD", "xml:id"}), v)
		case 1: // duplicate ID on another element
			for _, o := range root.FindElements("//*") {
				if o != e && o.SelectAttr("ID") != nil {
					o.CreateAttr("ID", e.SelectAttrValue("ID", ""))
					break
				}
			}
		case 2: // Reference URI edits
			if ref := sigChild(e).FindElement(".//Reference"); ref != nil {
				switch a.Rng.Intn(3) {
				case 0:
					ref.CreateAttr("URI", "")
				case 1:
					ref.RemoveAttr("URI")
				case 2:
					ref.CreateAttr("URI", "#id-other")
				}
			}
		case 3: // second Reference
			if ref := sigChild(e).FindElement(".//Reference"); ref != nil {
				r2 := ref.Copy()
				r2.CreateAttr("URI", "#id-other")
				ref.Parent().InsertChildAt(ref.Index()+a.Rng.Intn(2), r2)
			}
		case 4: // change the ID value on the element only
			e.CreateAttr("ID", a.id("id-x"))
		}
		return root, fmt.Sprintf("id-games %s mode=%d", e.Tag, mode)
	}},
	{"signature-games", func(a *Ctx, root *etree.Element) (*etree.Element, string) {
		s := signedEls(root)
		if len(s) == 0 {
			return root, ""
		}
		e := pick(a.Rng, s)
		sg := sigChild(e)
		mode := a.Rng.Intn(7)
		switch mode {
		case 0:
			e.RemoveChild(sg)
		case 1:
			sg.Child = nil
		case 2:
			e.InsertChildAt(sg.Index(), sg.Copy())
		case 3: // move to last position
			e.RemoveChild(sg)
			e.AddChild(sg)
		case 4: // move the signature to the parent / root
			if e.Parent() != nil {
				e.RemoveChild(sg)
				e.Parent().InsertChildAt(0, sg)
			}
		case 5: // SignatureValue garbage
			if sv := sg.FindElement("./SignatureValue"); sv != nil {
				b := make([]byte, 256)
				a.Rng.Read(b)
				sv.SetText(base64.StdEncoding.EncodeToString(b))
			}
		case 6: // DigestValue of something else
			if dv := sg.FindElement(".//DigestValue"); dv != nil {
				b := make([]byte, 32)
				a.Rng.Read(b)
				dv.SetText(base64.StdEncoding.EncodeToString(b))
			}
		}
		return root, fmt.Sprintf("signature-games %s mode=%d", e.Tag, mode)
	}},
	{"keyinfo-games", func(a *Ctx, root *etree.Element) (*etree.Element, string) {
		s := signedEls(root)
		if len(s) == 0 {
			return root, ""
		}
		e := pick(a.Rng, s)
		sg := sigChild(e)
		ki := sg.FindElement("./KeyInfo")
		mode := a.Rng.Intn(7)
		att := fx.K("att_x")
		switch mode {
		case 0:
			if ki != nil {
				sg.RemoveChild(ki)
			}
		case 1: // attacker certificate instead
			if x := sg.FindElement(".//X509Certificate"); x != nil {
				x.SetText(att.CertB64())
			}
		case 2: // two certificates, attacker first
			if x := sg.FindElement(".//X509Certificate"); x != nil {
				n := x.Copy()
				n.SetText(att.CertB64())
				x.Parent().InsertChildAt(x.Index(), n)
			}
		case 3: // two certificates, attacker second
			if x := sg.FindElement(".//X509Certificate"); x != nil {
				n := x.Copy()
				n.SetText(att.CertB64())
				x.Parent().AddChild(n)
			}
		case 4: // RSAKeyValue only (attacker's key)
			if ki != nil {
				ki.Child = nil
				kv := ki.CreateElement("ds:KeyValue").CreateElement("ds:RSAKeyValue")
				pub := att.Key.Public().(*rsa.PublicKey)
				kv.CreateElement("ds:Modulus").SetText(base64.StdEncoding.EncodeToString(pub.N.Bytes()))
				kv.CreateElement("ds:Exponent").SetText(base64.StdEncoding.EncodeToString(big.NewInt(int64(pub.E)).Bytes()))
			}
		case 5: // white space / line breaks inside the certificate text
			if x := sg.FindElement(".//X509Certificate"); x != nil {
				t := x.Text()
				x.SetText("\n" + t[:len(t)/2] + "\n  " + t[len(t)/2:] + "\n")
			}
		case 6: // lookalike certificate (same subject and serial as the genuine one)
			if x := sg.FindElement(".//X509Certificate"); x != nil {
				x.SetText(fx.K("att_xp").CertB64())
			}
		}
		return root, fmt.Sprintf("keyinfo-games %s mode=%d", e.Tag, mode)
	}},
	{"attacker-resign", func(a *Ctx, root *etree.Element) (*etree.Element, string) {
		// evil twin signed by an attacker key, embedding the attacker, the lookalike or the genuine certificate
		t := pick(a.Rng, targets(root))
		evil := a.evilCopy(t, a.Rng.Intn(2) == 0)
		kp := fx.K(pick(a.Rng, []string{"att_x", "att_xp"}))
		cert := kp.Cert.Raw
		mode := a.Rng.Intn(5)
		certs := [][]byte{cert}
		switch mode {
		case 2:
			certs = [][]byte{a.Genuine.Cert.Raw}
		case 3: // a "chain": the attacker's certificate first, the genuine one after it
			certs = [][]byte{cert, a.Genuine.Cert.Raw}
		case 4: // the genuine certificate first, the attacker's after it
			certs = [][]byte{a.Genuine.Cert.Raw, cert}
		}
		signed, err := a.O.SignWithCerts(evil, kp, "", certs...)
		if err != nil {
			return root, ""
		}
		// the oracle logged this under the attacker's key name, which is never trusted
		place := a.Rng.Intn(3)
		if t.Parent() == nil {
			return signed, fmt.Sprintf("attacker-resign-root key=%s certmode=%d", kp.Name, mode)
		}
		switch place {
		case 0:
			replaceEl(t, signed)
		case 1:
			t.Parent().InsertChildAt(t.Index(), signed)
		case 2:
			t.Parent().InsertChildAt(t.Index()+1, signed)
		}
		return root, fmt.Sprintf("attacker-resign %s key=%s certmode=%d place=%d", t.Tag, kp.Name, mode, place)
	}},
	{"comment-injection", func(a *Ctx, root *etree.Element) (*etree.Element, string) {
		cands := root.FindElements("//NameID")
		cands = append(cands, root.FindElements("//Audience")...)
		cands = append(cands, root.FindElements("//AttributeValue")...)
		cands = append(cands, root.FindElements("//Issuer")...)
		cands = append(cands, root.FindElements("//DigestValue")...)
		cands = append(cands, root.FindElements("//SignatureValue")...)
		cands = append(cands, root.FindElements("//StatusCode")...)
		if len(cands) == 0 {
			return root, ""
		}
		e := pick(a.Rng, cands)
		t := e.Text()
		cut := 0
		if len(t) > 0 {
			cut = a.Rng.Intn(len(t) + 1)
		}
		e.SetText("")
		e.Child = nil
		mode := a.Rng.Intn(5)
		switch mode {
		case 0:
			e.CreateText(t[:cut])
			e.CreateComment("x")
			e.CreateText(t[cut:])
		case 1:
			e.CreateText(t[:cut])
			e.CreateComment("x")
			e.CreateText(".evil.example")
		case 2:
			e.CreateCData(t[:cut])
			e.CreateText(t[cut:])
		case 3:
			e.CreateText(t[:cut])
			e.CreateProcInst("pi", "x")
			e.CreateText(t[cut:])
		case 4:
			e.CreateText("evil")
			e.CreateComment(t)
		}
		return root, fmt.Sprintf("comment-injection %s mode=%d", e.Tag, mode)
	}},
	{"namespace-games", func(a *Ctx, root *etree.Element) (*etree.Element, string) {
		t := pick(a.Rng, targets(root))
		mode := a.Rng.Intn(6)
		switch mode {
		case 0: // evil twin whose prefix is re-bound to a foreign namespace
			evil := a.evilCopy(t, false)
			if evil.Space != "" {
				evil.CreateAttr("xmlns:"+evil.Space, "urn:evil:namespace")
			}
			if t.Parent() != nil {
				t.Parent().InsertChildAt(t.Index(), evil)
			}
		case 1: // evil twin without prefix under a default namespace equal to the right namespace
			evil := a.evilCopy(t, false)
			ns := t.NamespaceURI()
			for _, e := range append(evil.FindElements("//*"), evil) {
				if e.Space == evil.Space {
					e.Space = ""
				}
			}
			evil.CreateAttr("xmlns", ns)
			if t.Parent() != nil {
				t.Parent().InsertChildAt(t.Index(), evil)
			} else {
				return evil, "namespace-games root default-ns"
			}
		case 2: // look-alike Signature element in no / foreign namespace added before the real one
			if sg := sigChild(t); sg != nil {
				fake := sg.Copy()
				fake.Space = "fake"
				fake.CreateAttr("xmlns:fake", "urn:not:dsig")
				t.InsertChildAt(sg.Index(), fake)
			}
		case 3: // the genuine element's own prefix re-declared on the element (breaks c14n or not)
			if t.Space != "" {
				t.CreateAttr("xmlns:"+t.Space, t.NamespaceURI())
			}
		case 4: // re-bind the ds prefix on the Signature element to something else
			if sg := sigChild(t); sg != nil && sg.Space != "" {
				sg.CreateAttr("xmlns:"+sg.Space, "urn:not:dsig")
			}
		case 5: // evil twin under a new prefix bound to the correct namespace
			evil := a.evilCopy(t, false)
			ns := t.NamespaceURI()
			old := evil.Space
			for _, e := range append(evil.FindElements("//*"), evil) {
				if e.Space == old {
					e.Space = "q"
				}
			}
			evil.CreateAttr("xmlns:q", ns)
			if t.Parent() != nil {
				t.Parent().InsertChildAt(t.Index(), evil)
			} else {
				return evil, "namespace-games root new-prefix"
			}
		}
		return root, fmt.Sprintf("namespace-games %s mode=%d", t.Tag, mode)
	}},
	{"reencrypt", func(a *Ctx, root *etree.Element) (*etree.Element, string) {
		as := root.FindElements("//Assertion")
		if len(as) == 0 || a.SPCert == nil {
			return root, ""
		}
		t := pick(a.Rng, as)
		mode := a.Rng.Intn(4)
		var payload *etree.Element
		switch mode {
		case 0, 1: // unsigned evil assertion, encrypted
			payload = a.evilCopy(t, mode == 0)
		case 2: // attacker-signed evil assertion, encrypted
			evil := a.evilCopy(t, false)
			s, err := a.O.SignWithCert(evil, fx.K("att_x"), "", a.Genuine.Cert.Raw)
			if err != nil {
				return root, ""
			}
			payload = s
		case 3: // genuine assertion edited then encrypted
			payload = t.Copy()
			sg := sigChild(payload)
			if sg != nil {
				payload.RemoveChild(sg)
			}
			a.MakeEvil(payload)
			if sg != nil {
				payload.InsertChildAt(1, sg)
			}
		}
		alg := pick(a.Rng, []string{refenc.AES128CBC, refenc.AES256CBC, refenc.AES128GCM})
		plain := so.Bytes(payload)
		spliced := ""
		if a.Rng.Intn(3) == 0 { // round-trip-unstable construct inside the plaintext, where only the SP's post-decryption check can see it
			plain, spliced = Splice(a.Rng, plain)
		}
		ed, _, err := refenc.Encrypt(alg, refenc.OAEPMGF1P, refenc.DigestSHA1, a.SPCert.Cert, nil, plain, a.Rng, a.Rng.Intn(2) == 0)
		if err != nil {
			return root, ""
		}
		ea := etree.NewElement("saml:EncryptedAssertion")
		ea.CreateAttr("xmlns:saml", so.NSAssertion)
		ea.AddChild(ed)
		if a.Rng.Intn(3) == 0 { // EncryptedKey as sibling of EncryptedData
			if ek := ed.FindElement("./KeyInfo/EncryptedKey"); ek != nil {
				ek.Parent().RemoveChild(ek)
				ea.AddChild(ek)
			}
		}
		place := a.Rng.Intn(3)
		if t.Parent() == nil {
			return root, ""
		}
		switch place {
		case 0:
			replaceEl(t, ea)
		case 1:
			t.Parent().InsertChildAt(t.Index(), ea)
		case 2:
			t.Parent().InsertChildAt(t.Index()+1, ea)
		}
		return root, fmt.Sprintf("reencrypt mode=%d alg=%s place=%d %s", mode, alg[strings.LastIndex(alg, "#")+1:], place, spliced)
	}},
	{"partial-removal", func(a *Ctx, root *etree.Element) (*etree.Element, string) {
		var cands []*etree.Element
		for _, p := range []string{"//Signature", "//Assertion", "//EncryptedAssertion", "//Status", "//Issuer", "//Subject", "//Conditions", "//KeyInfo", "//Reference", "//SignedInfo", "//Transforms"} {
			cands = append(cands, root.FindElements(p)...)
		}
		if len(cands) == 0 {
			return root, ""
		}
		var names []string
		for k := 1 + a.Rng.Intn(2); k > 0; k-- {
			e := pick(a.Rng, cands)
			if e.Parent() != nil {
				e.Parent().RemoveChild(e)
				names = append(names, e.Tag)
			}
		}
		return root, "partial-removal " + strings.Join(names, ",")
	}},
	{"duplicate-genuine", func(a *Ctx, root *etree.Element) (*etree.Element, string) {
		s := signedEls(root)
		if len(s) == 0 {
			return root, ""
		}
		e := pick(a.Rng, s)
		if e.Parent() == nil {
			return root, ""
		}
		e.Parent().InsertChildAt(e.Index(), e.Copy())
		return root, "duplicate-genuine " + e.Tag
	}},
	{"transform-games", func(a *Ctx, root *etree.Element) (*etree.Element, string) {
		s := signedEls(root)
		if len(s) == 0 {
			return root, ""
		}
		e := pick(a.Rng, s)
		sg := sigChild(e)
		mode := a.Rng.Intn(4)
		switch mode {
		case 0: // drop the enveloped-signature transform
			for _, t := range sg.FindElements(".//Transform") {
				if strings.Contains(t.SelectAttrValue("Algorithm", ""), "enveloped") {
					t.Parent().RemoveChild(t)
				}
			}
		case 1: // unknown transform
			if ts := sg.FindElement(".//Transforms"); ts != nil {
				ts.CreateElement("ds:Transform").CreateAttr("Algorithm", "http://www.w3.org/TR/1999/REC-xpath-19991116")
			}
		case 2: // weaker/other canonicalization method label
			if cm := sg.FindElement(".//CanonicalizationMethod"); cm != nil {
				cm.CreateAttr("Algorithm", "http://www.w3.org/TR/2001/REC-xml-c14n-20010315")
			}
		case 3: // signature method label changed
			if sm := sg.FindElement(".//SignatureMethod"); sm != nil {
				sm.CreateAttr("Algorithm", pick(a.Rng, []string{so.RSASHA1, so.RSASHA512, "http://www.w3.org/2000/09/xmldsig#hmac-sha1", ""}))
			}
		}
		return root, fmt.Sprintf("transform-games %s mode=%d", e.Tag, mode)
	}},
}

// Apply runs n random operations on a parsed copy of doc and returns the serialised result and the op descriptions.
func Apply(a *Ctx, doc []byte, n int) ([]byte, []string) {
	root, err := so.Parse(doc)
	if err != nil {
		return doc, []string{"unparseable-base"}
	}
	var descs []string
	for i := 0; i < n; i++ {
		op := Ops[a.Rng.Intn(len(Ops))]
		var d string
		root, d = op.F(a, root)
		if d != "" {
			descs = append(descs, d)
		}
	}
	return so.Bytes(root), descs
}

// ApplyOp runs one named operation.
func ApplyOp(a *Ctx, doc []byte, opIndex int) ([]byte, string) {
	root, err := so.Parse(doc)
	if err != nil {
		return doc, ""
	}
	root, d := Ops[opIndex].F(a, root)
	return so.Bytes(root), d
}

// Splices are round-trip-unstable or parser-differential constructs inserted at byte level.
var Splices = [][]byte{
	[]byte("<x::y/>"), []byte("<z :a=\"1\"/>"), []byte("<z a:=\"1\"/>"), []byte("<!--><!--->"), []byte("<![CDATA[<]]>"), []byte("<z xmlns:q=\"u\" q::r=\"1\"/>"),
	[]byte("<?xml version=\"1.0\"?>"), []byte("<!DOCTYPE x [<!ENTITY e \"v\">]>"), []byte("&#x0;"), []byte("&amp;#60;"), []byte("<z xmlns:xml=\"urn:x\"/>"), []byte("<z xmlns=\"\"/>"),
}

// Splice inserts an unstable construct after a random '>' of the document.
func Splice(r *mrand.Rand, doc []byte) ([]byte, string) {
	var pos []int
	for i, b := range doc {
		if b == '>' {
			pos = append(pos, i+1)
		}
	}
	if len(pos) == 0 {
		return doc, ""
	}
	p := pos[r.Intn(len(pos))]
	s := Splices[r.Intn(len(Splices))]
	out := append(append(append([]byte(nil), doc[:p]...), s...), doc[p:]...)
	return out, "splice " + string(bytes.TrimSpace(s))
}
