package sched

import (
	"bytes"
	"net/http"
)

// StrictWriter is an http.ResponseWriter that records protocol misuse.
type StrictWriter struct {
	H            http.Header
	Code         int
	Body         bytes.Buffer
	HeaderCalls  int // explicit WriteHeader calls
	Implicit     bool
	Finished     bool
	WritesAfter  int
	SuperfluousW int
	headerSent   http.Header
}

func NewStrictWriter() *StrictWriter { return &StrictWriter{H: http.Header{}} }

func (w *StrictWriter) Header() http.Header { return w.H }

func (w *StrictWriter) WriteHeader(code int) {
	if w.Finished {
		w.WritesAfter++
		return
	}
	w.HeaderCalls++
	if w.Code != 0 {
		w.SuperfluousW++
		return
	}
	w.Code = code
	w.headerSent = w.H.Clone()
}

func (w *StrictWriter) Write(b []byte) (int, error) {
	if w.Finished {
		w.WritesAfter++
		return len(b), nil
	}
	if w.Code == 0 {
		w.Implicit = true
		w.Code = http.StatusOK
		w.headerSent = w.H.Clone()
	}
	w.Body.Write(b)
	return len(b), nil
}

// Finish marks the handler as returned.
func (w *StrictWriter) Finish() {
	if w.Code == 0 {
		w.Code = http.StatusOK
		w.Implicit = true
		w.headerSent = w.H.Clone()
	}
	w.Finished = true
}

// SentHeader is the header map as it was when the status line was written.
func (w *StrictWriter) SentHeader() http.Header {
	if w.headerSent == nil {
		return w.H
	}
	return w.headerSent
}
