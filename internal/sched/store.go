// Package sched holds the Store instruments used for the bundled IdP server: a snapshot-capable map store, and a
// wrapper that records operations, injects faults at chosen operations, or gates operations for controlled scheduling.
package sched

import (
	"encoding/json"
	"errors"
	"sort"
	"strings"
	"sync"
	"sync/atomic"

	"github.com/crewjam/saml/samlidp"
)

// MapStore is an independent in-memory Store (JSON values, like MemoryStore) with snapshot/restore.
type MapStore struct {
	mu   sync.Mutex
	data map[string]string
}

func NewMapStore() *MapStore { return &MapStore{data: map[string]string{}} }

func (s *MapStore) Get(key string, value interface{}) error {
	s.mu.Lock()
	v, ok := s.data[key]
	s.mu.Unlock()
	if !ok {
		return samlidp.ErrNotFound
	}
	return json.Unmarshal([]byte(v), value)
}

func (s *MapStore) Put(key string, value interface{}) error {
	b, err := json.Marshal(value)
	if err != nil {
		return err
	}
	s.mu.Lock()
	s.data[key] = string(b)
	s.mu.Unlock()
	return nil
}

func (s *MapStore) Delete(key string) error {
	s.mu.Lock()
	delete(s.data, key)
	s.mu.Unlock()
	return nil
}

func (s *MapStore) List(prefix string) ([]string, error) {
	s.mu.Lock()
	defer s.mu.Unlock()
	out := []string{}
	for k := range s.data {
		if strings.HasPrefix(k, prefix) {
			out = append(out, strings.TrimPrefix(k, prefix))
		}
	}
	sort.Strings(out)
	return out, nil
}

// Raw returns the stored JSON of a key.
func (s *MapStore) Raw(key string) (string, bool) {
	s.mu.Lock()
	defer s.mu.Unlock()
	v, ok := s.data[key]
	return v, ok
}

func (s *MapStore) Snapshot() map[string]string {
	s.mu.Lock()
	defer s.mu.Unlock()
	cp := make(map[string]string, len(s.data))
	for k, v := range s.data {
		cp[k] = v
	}
	return cp
}

func (s *MapStore) Restore(snap map[string]string) {
	s.mu.Lock()
	defer s.mu.Unlock()
	s.data = make(map[string]string, len(snap))
	for k, v := range snap {
		s.data[k] = v
	}
}

// Op is one recorded store operation.
type Op struct {
	Seq     int64
	Kind    string // get put delete list
	Key     string
	Err     string
	Applied bool // false when a fault was injected instead of performing it
}

// ErrIO is the injected I/O error.
var ErrIO = errors.New("injected store I/O error")

// Wrapper records and can fault operations of an inner Store.
type Wrapper struct {
	Inner samlidp.Store
	mu    sync.Mutex
	Ops   []Op
	seq   atomic.Int64
	// FaultAt: fail the n-th (1-based) operation since the last Arm with FaultErr, without applying it. 0 = none.
	FaultAt  int
	FaultErr error
	count    int
	// Hook, when set, is called at the entry of every operation (used for gating / yields in C20)
	Hook func(kind, key string)
}

func NewWrapper(inner samlidp.Store) *Wrapper { return &Wrapper{Inner: inner} }

// Arm resets the per-request operation counter and sets the fault position.
func (w *Wrapper) Arm(faultAt int, err error) {
	w.mu.Lock()
	w.count = 0
	w.FaultAt = faultAt
	w.FaultErr = err
	w.mu.Unlock()
}

// Count returns how many operations ran since the last Arm.
func (w *Wrapper) Count() int {
	w.mu.Lock()
	defer w.mu.Unlock()
	return w.count
}

func (w *Wrapper) ResetLog() {
	w.mu.Lock()
	w.Ops = nil
	w.mu.Unlock()
}

func (w *Wrapper) enter(kind, key string) (fault error) {
	if w.Hook != nil {
		w.Hook(kind, key)
	}
	w.mu.Lock()
	defer w.mu.Unlock()
	w.count++
	if w.FaultAt != 0 && w.count == w.FaultAt {
		return w.FaultErr
	}
	return nil
}

func (w *Wrapper) log(kind, key string, err error, applied bool) {
	w.mu.Lock()
	defer w.mu.Unlock()
	if len(w.Ops) > 5000 {
		return
	}
	e := ""
	if err != nil {
		e = err.Error()
	}
	w.Ops = append(w.Ops, Op{Seq: w.seq.Add(1), Kind: kind, Key: key, Err: e, Applied: applied})
}

func (w *Wrapper) Get(key string, value interface{}) error {
	if f := w.enter("get", key); f != nil {
		w.log("get", key, f, false)
		return f
	}
	err := w.Inner.Get(key, value)
	w.log("get", key, err, true)
	return err
}

func (w *Wrapper) Put(key string, value interface{}) error {
	if f := w.enter("put", key); f != nil {
		w.log("put", key, f, false)
		return f
	}
	err := w.Inner.Put(key, value)
	w.log("put", key, err, true)
	return err
}

func (w *Wrapper) Delete(key string) error {
	if f := w.enter("delete", key); f != nil {
		w.log("delete", key, f, false)
		return f
	}
	err := w.Inner.Delete(key)
	w.log("delete", key, err, true)
	return err
}

func (w *Wrapper) List(prefix string) ([]string, error) {
	if f := w.enter("list", prefix); f != nil {
		w.log("list", prefix, f, false)
		return nil, f
	}
	l, err := w.Inner.List(prefix)
	w.log("list", prefix, err, true)
	return l, err
}
