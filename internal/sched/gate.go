package sched

import (
	"bytes"
	"fmt"
	"regexp"
	"runtime"
	"strconv"
	"strings"
	"sync"
	"time"
)

// Gid returns the current goroutine id (parsed from the stack header).
func Gid() int64 {
	var buf [64]byte
	n := runtime.Stack(buf[:], false)
	f := bytes.Fields(buf[:n])
	if len(f) < 2 {
		return -1
	}
	id, _ := strconv.ParseInt(string(f[1]), 10, 64)
	return id
}

var goroutineHdr = regexp.MustCompile(`(?m)^goroutine (\d+) \[([^\]]+)\]:$`)

// States returns the wait reason of every goroutine ("running", "chan receive", "sync.RWMutex.RLock", ...), and the dump.
func States() (map[int64]string, string) {
	buf := make([]byte, 1<<20)
	for {
		n := runtime.Stack(buf, true)
		if n < len(buf) {
			buf = buf[:n]
			break
		}
		buf = make([]byte, 2*len(buf))
	}
	out := map[int64]string{}
	for _, m := range goroutineHdr.FindAllSubmatch(buf, -1) {
		id, _ := strconv.ParseInt(string(m[1]), 10, 64)
		st := string(m[2])
		if i := strings.IndexByte(st, ','); i > 0 { // "chan receive, 2 minutes"
			st = st[:i]
		}
		out[id] = st
	}
	return out, string(buf)
}

// Quiescent reports whether no goroutine of the process could make progress on its own: every goroutine other than the
// caller is parked in a wait that only another goroutine can end (locks, channels, conds, wait groups) or is one of the
// runtime's idle helpers. Sleeping, runnable, running goroutines and goroutines in system calls or network waits are
// progress that may still come.
func Quiescent(states map[int64]string, self int64) bool {
	for id, st := range states {
		if id == self {
			continue
		}
		switch {
		case isLockWait(st), strings.HasPrefix(st, "chan "), strings.HasPrefix(st, "select"), strings.HasPrefix(st, "sync."):
		case strings.Contains(st, "idle"), strings.HasPrefix(st, "GC "), st == "finalizer wait", st == "force gc (idle)", st == "debug call", st == "cleanup wait":
		default:
			return false
		}
	}
	return true
}

func isLockWait(st string) bool {
	return st == "sync.RWMutex.RLock" || st == "sync.RWMutex.Lock" || st == "sync.Mutex.Lock" || st == "semacquire"
}

// Gate parks registered goroutines at every store operation until the scheduler releases them.
type Gate struct {
	mu      sync.Mutex
	tracked map[int64]*gateG
}

type gateG struct {
	name     string
	release  chan struct{}
	parkedAt string // "kind key" while parked, "" otherwise
	done     bool
	ops      int
}

func NewGate() *Gate { return &Gate{tracked: map[int64]*gateG{}} }

// Hook is installed as Wrapper.Hook.
func (g *Gate) Hook(kind, key string) {
	id := Gid()
	g.mu.Lock()
	t := g.tracked[id]
	if t == nil {
		g.mu.Unlock()
		return
	}
	t.parkedAt = kind + " " + key
	t.ops++
	ch := t.release
	g.mu.Unlock()
	<-ch
}

// Go starts f as a tracked request goroutine.
func (g *Gate) Go(name string, f func()) {
	started := make(chan struct{})
	go func() {
		id := Gid()
		t := &gateG{name: name, release: make(chan struct{}, 1)}
		g.mu.Lock()
		g.tracked[id] = t
		g.mu.Unlock()
		close(started)
		defer func() {
			g.mu.Lock()
			t.done = true
			t.parkedAt = ""
			g.mu.Unlock()
		}()
		f()
	}()
	<-started
}

// Outcome of a controlled run.
type Outcome struct {
	Deadlock     bool
	Inconclusive string
	Schedule     []string // which goroutine was released at which operation
	Dump         string
	Blocked      map[string]string
	Completed    int
}

// Run drives all tracked goroutines to completion. pick chooses among the names of parked goroutines.
func (g *Gate) Run(pick func(parked []string) int, watchdog time.Duration) Outcome {
	var out Outcome
	deadline := time.Now().Add(watchdog)
	for {
		// wait for quiescence: every unfinished tracked goroutine is parked at the gate or blocked on a lock
		var parked []int64
		var lockBlocked, other, unfinished int
		var states map[int64]string
		var dump string
		stable := 0
		for {
			states, dump = States()
			parked = parked[:0]
			lockBlocked, other, unfinished = 0, 0, 0
			g.mu.Lock()
			for id, t := range g.tracked {
				if t.done {
					continue
				}
				unfinished++
				switch {
				case t.parkedAt != "" && states[id] == "chan receive":
					parked = append(parked, id)
				case isLockWait(states[id]):
					lockBlocked++
				default:
					other++
				}
			}
			g.mu.Unlock()
			if unfinished == 0 {
				out.Completed = len(g.tracked)
				return out
			}
			if other == 0 {
				stable++
				if stable >= 3 { // seen unchanged three probes in a row
					break
				}
			} else {
				stable = 0
			}
			if time.Now().After(deadline) {
				out.Inconclusive = fmt.Sprintf("watchdog: %d goroutines neither parked nor lock-blocked nor finished", other)
				out.Dump = dump
				return out
			}
			time.Sleep(200 * time.Microsecond)
		}
		if len(parked) == 0 {
			// nothing can be released any more and every unfinished request goroutine waits for a lock only they could release
			out.Deadlock = true
			out.Dump = dump
			out.Blocked = map[string]string{}
			g.mu.Lock()
			for id, t := range g.tracked {
				if !t.done {
					out.Blocked[t.name] = states[id]
				}
			}
			g.mu.Unlock()
			return out
		}
		// deterministic order of candidates: by name
		g.mu.Lock()
		names := make([]string, len(parked))
		for i, id := range parked {
			names[i] = g.tracked[id].name
		}
		// sort parked by name
		for i := 0; i < len(parked); i++ {
			for j := i + 1; j < len(parked); j++ {
				if names[j] < names[i] {
					names[i], names[j] = names[j], names[i]
					parked[i], parked[j] = parked[j], parked[i]
				}
			}
		}
		k := pick(names)
		if k < 0 || k >= len(parked) {
			k = 0
		}
		t := g.tracked[parked[k]]
		out.Schedule = append(out.Schedule, t.name+"@"+t.parkedAt)
		t.parkedAt = ""
		g.mu.Unlock()
		t.release <- struct{}{}
	}
}
