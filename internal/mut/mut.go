// Package mut holds generic structure-aware and byte-level mutators for XML messages.
package mut

import (
	"bytes"
	"fmt"
	mrand "math/rand"
	"strings"

	"github.com/beevik/etree"
)

func all(root *etree.Element) []*etree.Element {
	l := root.FindElements("//*")
	return append(l, root)
}

func isAncestor(a, b *etree.Element) bool {
	for p := b; p != nil; p = p.Parent() {
		if p == a {
			return true
		}
	}
	return false
}

var garble = []string{"", " ", "x", "0", "-1", "true", "2.0", "1.1", "é", "urn:x", "http://x", "javascript:alert(1)", "9999-99-99T99:99:99Z", "2024-03-10T12:00:00Z", "#", "&", "<", "id-1", strings.Repeat("A", 70000),
	// characters that mean something to path / template / format / PEM / base64 / URI handling code
	"'", "\"", "it's", "#it's", "a'b\"c", "[", "]", "a[1]", "x[@y='z']", "*", "//", "..", "../..", "{{.}}", "%s%n%d", "${x}", "$(x)", "\\", "a\tb", "a\nb",
	"-----BEGIN CERTIFICATE-----", "-----BEGIN CERTIFICATE-----\nMIIB", "-----BEGIN CERTIFICATE-----MIIB-----END CERTIFICATE-----", "-----END CERTIFICATE----------BEGIN CERTIFICATE-----", "-----BEGIN CERTIFICATE-----\n-----END CERTIFICATE-----",
	"====", "A", "AA==", "A===", "QUJD", " QUJD ", "QUJD\nQUJD", "#_0", "#", "cid:x", "urn:", "http://", "http://[::1", "%zz", "%00", "\u202e", "\ufeff", "0x10", "1e9", "+1", "01", "-0", "NaN"}

// Dictionary returns the hostile string dictionary (without the very long entry).
func Dictionary() []string {
	var out []string
	for _, g := range garble {
		if len(g) < 1000 {
			out = append(out, g)
		}
	}
	return out
}

// vocab lists elements a message may legally carry but the generated ones usually do not, with the elements they belong under.
var vocab = []struct {
	tag   string
	hosts []string
	attrs []string
	text  bool
}{
	{"ds:RetrievalMethod", []string{"KeyInfo"}, []string{"URI", "Type"}, false},
	{"ds:KeyName", []string{"KeyInfo"}, nil, true},
	{"ds:X509Certificate", []string{"X509Data"}, nil, true},
	{"ds:X509Data", []string{"KeyInfo"}, nil, false},
	{"ds:KeyInfo", []string{"EncryptedData", "EncryptedKey", "Signature", "SubjectConfirmationData"}, []string{"Id"}, false},
	{"xenc:EncryptedKey", []string{"EncryptedAssertion", "KeyInfo", "EncryptedData"}, []string{"Id", "Recipient"}, false},
	{"xenc:CipherData", []string{"EncryptedKey", "EncryptedData"}, nil, false},
	{"xenc:CipherValue", []string{"CipherData"}, nil, true},
	{"xenc:CipherReference", []string{"CipherData"}, []string{"URI"}, false},
	{"xenc:ReferenceList", []string{"EncryptedKey"}, nil, false},
	{"xenc:DataReference", []string{"ReferenceList", "EncryptedKey"}, []string{"URI"}, false},
	{"xenc:CarriedKeyName", []string{"EncryptedKey"}, nil, true},
	{"xenc:EncryptionMethod", []string{"EncryptedKey", "EncryptedData"}, []string{"Algorithm"}, false},
	{"ds:DigestMethod", []string{"EncryptionMethod", "Reference"}, []string{"Algorithm"}, false},
	{"xenc:OAEPparams", []string{"EncryptionMethod"}, nil, true},
	{"ds:Object", []string{"Signature"}, []string{"Id"}, false},
	{"ds:Reference", []string{"SignedInfo"}, []string{"URI", "Type"}, false},
	{"ds:Transform", []string{"Transforms"}, []string{"Algorithm"}, false},
	{"ec:InclusiveNamespaces", []string{"Transform", "CanonicalizationMethod"}, []string{"PrefixList", "xmlns:ec"}, false},
	{"samlp:Extensions", []string{"Response", "ArtifactResponse", "LogoutResponse", "AuthnRequest"}, nil, false},
	{"samlp:StatusMessage", []string{"Status"}, nil, true},
	{"samlp:StatusDetail", []string{"Status"}, nil, false},
	{"samlp:StatusCode", []string{"StatusCode"}, []string{"Value"}, false},
	{"saml:Advice", []string{"Assertion"}, nil, false},
	{"saml:AssertionIDRef", []string{"Advice", "Evidence"}, nil, true},
	{"saml:AssertionURIRef", []string{"Advice"}, nil, true},
	{"saml:EncryptedID", []string{"Subject", "SubjectConfirmation"}, nil, false},
	{"saml:BaseID", []string{"Subject"}, []string{"NameQualifier", "xsi:type"}, false},
	{"saml:OneTimeUse", []string{"Conditions"}, nil, false},
	{"saml:ProxyRestriction", []string{"Conditions"}, []string{"Count"}, false},
	{"saml:AuthzDecisionStatement", []string{"Assertion"}, []string{"Resource", "Decision"}, false},
	{"saml:EncryptedAttribute", []string{"AttributeStatement"}, nil, false},
	{"saml:SubjectLocality", []string{"AuthnStatement"}, []string{"Address", "DNSName"}, false},
	{"saml:AuthenticatingAuthority", []string{"AuthnContext"}, nil, true},
	{"saml:AuthnContextDeclRef", []string{"AuthnContext"}, nil, true},
	{"saml:SubjectConfirmationData", []string{"SubjectConfirmation"}, []string{"NotBefore", "NotOnOrAfter", "Recipient", "InResponseTo", "Address"}, false},
	{"saml:NameID", []string{"SubjectConfirmation", "Subject"}, []string{"Format", "NameQualifier", "SPNameQualifier", "SPProvidedID"}, true},
}

// Struct applies one random structural mutation in place and describes it.
func Struct(r *mrand.Rand, root *etree.Element) string {
	els := all(root)
	pick := func() *etree.Element { return els[r.Intn(len(els))] }
	switch r.Intn(20) {
	case 16, 17: // insert an element of the SAML / XML-DSig / XML-Enc vocabulary that the document did not have, with hostile attribute values
		v := vocab[r.Intn(len(vocab))]
		var hosts []*etree.Element
		for _, e := range els {
			for _, h := range v.hosts {
				if e.Tag == h {
					hosts = append(hosts, e)
				}
			}
		}
		if len(hosts) == 0 {
			hosts = []*etree.Element{pick()}
		}
		h := hosts[r.Intn(len(hosts))]
		n := etree.NewElement(v.tag)
		for _, a := range v.attrs {
			n.CreateAttr(a, garble[r.Intn(len(garble)-1)])
		}
		if v.text {
			n.SetText(garble[r.Intn(len(garble)-1)])
		}
		if r.Intn(2) == 0 {
			h.InsertChildAt(0, n)
		} else {
			h.AddChild(n)
		}
		return "vocab:" + v.tag + "->" + h.Tag
	case 18, 19: // garble the attribute or text of a security-relevant node
		var cands []*etree.Element
		for _, e := range els {
			switch e.Tag {
			case "X509Certificate", "CipherValue", "DigestValue", "SignatureValue", "Reference", "RetrievalMethod", "EncryptedKey", "EncryptedData", "EncryptionMethod", "DigestMethod", "SignatureMethod", "CanonicalizationMethod", "Transform", "KeyName", "NameID", "Audience", "StatusCode", "AuthnContextClassRef", "DataReference":
				cands = append(cands, e)
			}
		}
		if len(cands) == 0 {
			return "noop"
		}
		e := cands[r.Intn(len(cands))]
		g := garble[r.Intn(len(garble)-1)]
		if len(e.Attr) > 0 && r.Intn(2) == 0 {
			i := r.Intn(len(e.Attr))
			e.Attr[i].Value = g
			return "target-attr:" + e.Tag + "@" + e.Attr[i].Key + "=" + short(g)
		}
		if len(e.ChildElements()) == 0 {
			e.SetText(g)
			return "target-text:" + e.Tag + "=" + short(g)
		}
		e.CreateAttr([]string{"Id", "URI", "Algorithm", "Type"}[r.Intn(4)], g)
		return "target-addattr:" + e.Tag + "=" + short(g)
	case 0, 1: // delete element
		e := pick()
		if e != root && e.Parent() != nil {
			e.Parent().RemoveChild(e)
			return "del:" + e.Tag
		}
	case 2: // duplicate element in place
		e := pick()
		if e != root && e.Parent() != nil {
			e.Parent().InsertChildAt(e.Index(), e.Copy())
			return "dup:" + e.Tag
		}
	case 3: // swap siblings
		e := pick()
		if p := e.Parent(); p != nil {
			ch := p.ChildElements()
			if len(ch) > 1 {
				o := ch[r.Intn(len(ch))]
				if o != e {
					i, j := e.Index(), o.Index()
					p.Child[i], p.Child[j] = p.Child[j], p.Child[i]
					return "swap:" + e.Tag + "," + o.Tag
				}
			}
		}
	case 4: // move element under another
		e, t := pick(), pick()
		if e != root && e.Parent() != nil && !isAncestor(e, t) {
			e.Parent().RemoveChild(e)
			t.AddChild(e)
			return "move:" + e.Tag + "->" + t.Tag
		}
	case 5, 6: // delete attribute
		e := pick()
		if len(e.Attr) > 0 {
			a := e.Attr[r.Intn(len(e.Attr))]
			e.RemoveAttr(a.FullKey())
			return "delattr:" + e.Tag + "@" + a.Key
		}
	case 7, 8: // garble attribute
		e := pick()
		if len(e.Attr) > 0 {
			i := r.Intn(len(e.Attr))
			g := garble[r.Intn(len(garble))]
			e.Attr[i].Value = g
			return "attr:" + e.Tag + "@" + e.Attr[i].Key + "=" + short(g)
		}
	case 9: // truncate / replace text
		e := pick()
		t := e.Text()
		switch r.Intn(3) {
		case 0:
			e.SetText("")
		case 1:
			e.SetText(t[:r.Intn(len(t)+1)])
		case 2:
			e.SetText(garble[r.Intn(len(garble))])
		}
		return "text:" + e.Tag
	case 10: // remove all children
		e := pick()
		e.Child = nil
		return "empty:" + e.Tag
	case 11: // rename tag / prefix
		e := pick()
		switch r.Intn(4) {
		case 0:
			e.Space = ""
		case 1:
			e.Space = "zz"
		case 2:
			e.Tag += "X"
		case 3:
			e.Tag = "Response"
		}
		return "rename:" + e.FullTag()
	case 12: // comment / cdata / PI inside
		e := pick()
		switch r.Intn(3) {
		case 0:
			e.CreateComment("c")
		case 1:
			e.CreateCData("cd")
		case 2:
			e.CreateProcInst("pi", "x")
		}
		return "node:" + e.Tag
	case 13: // add unknown attribute / duplicate-ish attribute
		e := pick()
		e.CreateAttr([]string{"ID", "Id", "id", "xmlns", "xmlns:saml", "xsi:type", "Destination"}[r.Intn(7)], garble[r.Intn(len(garble)-1)])
		return "addattr:" + e.Tag
	case 14: // wide fan-out
		e := pick()
		n := 500 + r.Intn(3000)
		for i := 0; i < n; i++ {
			e.CreateElement(e.FullTag())
		}
		return fmt.Sprintf("wide:%s x%d", e.Tag, n)
	case 15: // nest element inside copies of itself
		e := pick()
		if e != root && e.Parent() != nil {
			p := e.Parent()
			idx := e.Index()
			p.RemoveChildAt(idx)
			cur := e
			depth := 10 + r.Intn(300)
			for i := 0; i < depth; i++ {
				w := etree.NewElement(e.FullTag())
				for _, a := range e.Attr {
					w.CreateAttr(a.FullKey(), a.Value)
				}
				w.AddChild(cur)
				cur = w
			}
			p.InsertChildAt(idx, cur)
			return fmt.Sprintf("nest:%s x%d", e.Tag, depth)
		}
	}
	return "noop"
}

func short(s string) string {
	if len(s) > 12 {
		return s[:12] + "~"
	}
	return s
}

// Rootless and degenerate documents.
var Degenerate = [][]byte{
	nil, []byte(""), []byte(" "), []byte("\n\t"), []byte("<!-- only a comment -->"), []byte("<?xml version=\"1.0\"?>"), []byte("<?xml version=\"1.0\"?><!-- c -->"), []byte("<?pi x?>"),
	[]byte("\xef\xbb\xbf"), []byte("\xef\xbb\xbf<a/>"), []byte("<"), []byte("<a"), []byte("<a>"), []byte("</a>"), []byte("<a/><b/>"), []byte("text only"), []byte("<a/>"), []byte("<Response/>"),
	[]byte("<samlp:Response/>"), []byte("<samlp:Response xmlns:samlp=\"urn:oasis:names:tc:SAML:2.0:protocol\"/>"), []byte("<samlp:LogoutResponse xmlns:samlp=\"urn:oasis:names:tc:SAML:2.0:protocol\"/>"),
	[]byte("<Envelope xmlns=\"http://schemas.xmlsoap.org/soap/envelope/\"/>"), []byte("<Envelope xmlns=\"http://schemas.xmlsoap.org/soap/envelope/\"><Body/></Envelope>"),
	[]byte("<!DOCTYPE a [<!ENTITY e \"x\">]><a>&e;</a>"), []byte("<!DOCTYPE a SYSTEM \"http://x/\"><a/>"), []byte("<a>&undefined;</a>"), []byte("<a b=\"1\" b=\"2\"/>"), []byte("<a xmlns:x=\"\"><x:b/></a>"),
	[]byte("\x00"), []byte("<a>\x00</a>"), []byte("<a>\xff\xfe</a>"), []byte("<\xc3\x28/>"), []byte("<a b='\xed\xa0\x80'/>"), []byte("<a>]]></a>"), []byte("<a><![CDATA[x]]></a>"), []byte("<a><![CDATA[x</a>"),
	[]byte("<x::y/>"), []byte("<x: y=\"1\"/>"), []byte("<a :b=\"1\"/>"), []byte("<a x:=\"1\"/>"), []byte("<a xmlns:x=\"u\"><x:b x::c=\"1\"/></a>"), []byte("<!-- a --><!-- b --><a/><!-- c -->"),
}

// Depths are the nesting depths used by the deep-nesting mutations (encoding/xml refuses beyond 10000).
var Depths = []int{100, 2000, 10500}

// Bytes applies one byte-level mutation.
func Bytes(r *mrand.Rand, b []byte) ([]byte, string) {
	if len(b) == 0 {
		return b, "noop"
	}
	switch r.Intn(12) {
	case 0:
		n := r.Intn(len(b))
		return append([]byte(nil), b[:n]...), fmt.Sprintf("truncate@%d", n)
	case 1:
		o := append([]byte(nil), b...)
		for k := 1 + r.Intn(4); k > 0; k-- {
			o[r.Intn(len(o))] ^= byte(1 << r.Intn(8))
		}
		return o, "bitflip"
	case 2:
		return append([]byte("\xef\xbb\xbf"), b...), "bom"
	case 3:
		i := r.Intn(len(b))
		o := append(append(append([]byte(nil), b[:i]...), 0xff, 0xfe, 0xc3, 0x28), b[i:]...)
		return o, "invalid-utf8"
	case 4:
		return append([]byte("<!DOCTYPE r [<!ENTITY e \"expanded\"><!ENTITY f \"&e;&e;&e;&e;&e;&e;&e;&e;\">]>"), b...), "doctype"
	case 5: // entity reference into some text
		i := bytes.IndexByte(b, '>')
		if i > 0 && i+1 < len(b) {
			return append(append(append([]byte(nil), b[:i+1]...), []byte("&f;&#x0;&#xD800;&bogus;")...), b[i+1:]...), "entityref"
		}
	case 6: // delete a random slice
		i := r.Intn(len(b))
		j := i + r.Intn(len(b)-i)
		return append(append([]byte(nil), b[:i]...), b[j:]...), "cut"
	case 7: // duplicate a random slice
		i := r.Intn(len(b))
		j := i + r.Intn(min(len(b)-i, 2000))
		return append(append(append([]byte(nil), b[:j]...), b[i:j]...), b[j:]...), "repeat"
	case 8: // deep nesting wrapper
		d := Depths[r.Intn(len(Depths))]
		return append(append(bytes.Repeat([]byte("<w>"), d), b...), bytes.Repeat([]byte("</w>"), d)...), fmt.Sprintf("deepwrap%d", d)
	case 9: // deep nesting inside first element
		i := bytes.IndexByte(b, '>')
		if i > 0 && b[i-1] != '/' {
			d := Depths[r.Intn(len(Depths))]
			ins := append(bytes.Repeat([]byte("<w>"), d), bytes.Repeat([]byte("</w>"), d)...)
			return append(append(append([]byte(nil), b[:i+1]...), ins...), b[i+1:]...), fmt.Sprintf("deepinside%d", d)
		}
	case 10: // huge attribute on root
		i := bytes.IndexAny(b, " >")
		if i > 0 {
			ins := []byte(" huge=\"" + strings.Repeat("A", 1<<20) + "\"")
			return append(append(append([]byte(nil), b[:i]...), ins...), b[i:]...), "hugeattr"
		}
	case 11: // round-trip-unstable constructs
		i := bytes.IndexByte(b, '>')
		if i > 0 && i+1 < len(b) {
			ins := [][]byte{[]byte("<x::y/>"), []byte("<z :a=\"1\"/>"), []byte("<z a:=\"1\"/>"), []byte("<!--><!--->"), []byte("<![CDATA[<]]>x"), []byte("<z xmlns:q=\"u\" q::r=\"1\"/>")}[r.Intn(6)]
			return append(append(append([]byte(nil), b[:i+1]...), ins...), b[i+1:]...), "unstable"
		}
	}
	return b, "noop"
}
