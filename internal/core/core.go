// Package core is the shared runtime of the monitors: per-shard context, counters,
// distinct-case accounting, violation records, journal for crash attribution.
package core

import (
	"encoding/binary"
	"encoding/json"
	"fmt"
	"hash/fnv"
	"math/rand"
	"os"
	"path/filepath"
	"runtime/debug"
	"runtime/metrics"
	"sort"
	"strings"
	"sync"
	"syscall"
	"time"
)

// Violation is one observed refutation of an oracle clause.
type Violation struct {
	Key    string `json:"key"`    // finding key: clause + failing class (matched against known_findings.json)
	Msg    string `json:"msg"`    // human readable
	Replay string `json:"replay"` // path of the replay file
}

// Result is what one worker shard reports.
type Result struct {
	Prop         string              `json:"prop"`
	Shard        int                 `json:"shard"`
	Evaluations  int64               `json:"evaluations"`
	Counters     map[string]int64    `json:"counters"`
	Observed     map[string][]string `json:"observed"`
	Samples      []json.RawMessage   `json:"samples"`
	Violations   []Violation         `json:"violations"`
	Inconclusive map[string]int64    `json:"inconclusive"`
	Notes        []string            `json:"notes"`
	WallS        float64             `json:"wall_s"`
	Completed    bool                `json:"completed"`
}

// Ctx is handed to every property runner.
type Ctx struct {
	Prop    string
	Tier    string
	Seed    int64
	Shard   int
	NShards int
	Rng     *rand.Rand
	WorkDir string // /verif/work/<prop>
	Root    string // /verif

	mu        sync.Mutex
	res       Result
	distinct  map[uint64]struct{}
	observed  map[string]map[string]struct{}
	violKeys  map[string]int
	journal   *os.File
	start     time.Time
	maxSample int
}

func NewCtx(prop, tier string, seed int64, shard, nshards int, root string) *Ctx {
	c := &Ctx{Prop: prop, Tier: tier, Seed: seed, Shard: shard, NShards: nshards, Root: root}
	c.Rng = rand.New(rand.NewSource(seed*1000003 + int64(shard)*7919 + 17))
	c.WorkDir = filepath.Join(root, "work", prop)
	_ = os.MkdirAll(c.WorkDir, 0o755)
	c.distinct = map[uint64]struct{}{}
	c.observed = map[string]map[string]struct{}{}
	c.violKeys = map[string]int{}
	c.res = Result{Prop: prop, Shard: shard, Counters: map[string]int64{}, Inconclusive: map[string]int64{}}
	c.start = time.Now()
	c.maxSample = 6
	j, err := os.OpenFile(c.JournalPath(), os.O_CREATE|os.O_RDWR|os.O_TRUNC, 0o644)
	if err == nil {
		c.journal = j
	}
	return c
}

func (c *Ctx) Quick() bool    { return c.Tier != "thorough" }
func (c *Ctx) Thorough() bool { return c.Tier == "thorough" }

// Pick returns q in the quick tier and t in the thorough tier.
func (c *Ctx) Pick(q, t int) int {
	if c.Thorough() {
		return t
	}
	return q
}

// Mine reports whether case index i belongs to this shard.
func (c *Ctx) Mine(i int) bool { return i%c.NShards == c.Shard }

func (c *Ctx) JournalPath() string {
	return filepath.Join(c.WorkDir, fmt.Sprintf("journal-%d.txt", c.Shard))
}
func (c *Ctx) ResultPath() string {
	return filepath.Join(c.WorkDir, fmt.Sprintf("result-%d.json", c.Shard))
}
func (c *Ctx) HashPath() string {
	return filepath.Join(c.WorkDir, fmt.Sprintf("distinct-%d.bin", c.Shard))
}

// Journal records the case about to be executed so that a process-fatal error can be attributed.
func (c *Ctx) Journal(desc string) {
	if c.journal == nil {
		return
	}
	_ = c.journal.Truncate(0)
	_, _ = c.journal.WriteAt([]byte(desc), 0)
}

func (c *Ctx) Eval()          { c.mu.Lock(); c.res.Evaluations++; c.mu.Unlock() }
func (c *Ctx) EvalN(n int64)  { c.mu.Lock(); c.res.Evaluations += n; c.mu.Unlock() }
func (c *Ctx) Count(k string) { c.mu.Lock(); c.res.Counters[k]++; c.mu.Unlock() }
func (c *Ctx) CountN(k string, n int64) {
	c.mu.Lock()
	c.res.Counters[k] += n
	c.mu.Unlock()
}
func (c *Ctx) Max(k string, v int64) {
	c.mu.Lock()
	if v > c.res.Counters[k] {
		c.res.Counters[k] = v
	}
	c.mu.Unlock()
}

// Nontrivial registers a case descriptor that reached the monitored stage.
func (c *Ctx) Nontrivial(desc string) {
	h := fnv.New64a()
	_, _ = h.Write([]byte(desc))
	c.mu.Lock()
	c.distinct[h.Sum64()] = struct{}{}
	c.mu.Unlock()
}

// Observe records a member of a small named set of distinct outcomes / states seen.
func (c *Ctx) Observe(set, v string) {
	c.mu.Lock()
	m := c.observed[set]
	if m == nil {
		m = map[string]struct{}{}
		c.observed[set] = m
	}
	if len(m) < 400 {
		m[v] = struct{}{}
	}
	c.mu.Unlock()
}

func (c *Ctx) Sample(v any) {
	c.mu.Lock()
	defer c.mu.Unlock()
	if len(c.res.Samples) >= c.maxSample {
		return
	}
	b, err := json.Marshal(v)
	if err == nil {
		c.res.Samples = append(c.res.Samples, b)
	}
}

// SampleEvery keeps v as a sample if fewer than the cap were kept and the rng says so.
func (c *Ctx) SampleSome(v any) {
	c.mu.Lock()
	n := len(c.res.Samples)
	c.mu.Unlock()
	if n < c.maxSample && (n == 0 || c.Rng.Intn(50) == 0) {
		c.Sample(v)
	}
}

func (c *Ctx) Inconclusive(reason string) {
	c.mu.Lock()
	c.res.Inconclusive[reason]++
	c.mu.Unlock()
}

func (c *Ctx) Note(format string, a ...any) {
	c.mu.Lock()
	if len(c.res.Notes) < 40 {
		c.res.Notes = append(c.res.Notes, fmt.Sprintf(format, a...))
	}
	c.mu.Unlock()
}

// Violation records a refutation. At most 3 replay files are written per key.
func (c *Ctx) Violation(key, msg string, replay any) {
	c.mu.Lock()
	defer c.mu.Unlock()
	c.violKeys[key]++
	n := c.violKeys[key]
	c.res.Counters["violations_total"]++
	if n > 3 {
		return
	}
	dir := filepath.Join(c.Root, "replays", c.Prop)
	_ = os.MkdirAll(dir, 0o755)
	h := fnv.New32a()
	_, _ = h.Write([]byte(key))
	name := fmt.Sprintf("%s-%08x-s%d-%d.json", sanitize(key), h.Sum32(), c.Shard, n)
	p := filepath.Join(dir, name)
	b, _ := json.MarshalIndent(map[string]any{"property": c.Prop, "key": key, "msg": msg, "seed": c.Seed, "tier": c.Tier, "shard": c.Shard, "nshards": c.NShards, "case": replay}, "", " ")
	_ = os.WriteFile(p, b, 0o644)
	if len(msg) > 600 {
		msg = msg[:600] + "..."
	}
	c.res.Violations = append(c.res.Violations, Violation{Key: key, Msg: msg, Replay: p})
}

func sanitize(s string) string {
	var b strings.Builder
	for _, r := range s {
		switch {
		case r >= 'a' && r <= 'z', r >= 'A' && r <= 'Z', r >= '0' && r <= '9', r == '-', r == '_', r == '.':
			b.WriteRune(r)
		default:
			b.WriteByte('_')
		}
		if b.Len() > 60 {
			break
		}
	}
	return b.String()
}

// Finish writes the shard result.
func (c *Ctx) Finish() error {
	c.mu.Lock()
	defer c.mu.Unlock()
	c.res.Completed = true
	c.res.WallS = time.Since(c.start).Seconds()
	c.res.Observed = map[string][]string{}
	for k, m := range c.observed {
		var l []string
		for v := range m {
			l = append(l, v)
		}
		sort.Strings(l)
		c.res.Observed[k] = l
	}
	hs := make([]byte, 0, 8*len(c.distinct))
	for h := range c.distinct {
		hs = binary.LittleEndian.AppendUint64(hs, h)
	}
	if err := os.WriteFile(c.HashPath(), hs, 0o644); err != nil {
		return err
	}
	b, err := json.Marshal(&c.res)
	if err != nil {
		return err
	}
	if c.journal != nil {
		_ = c.journal.Truncate(0)
		c.journal.Close()
	}
	return os.WriteFile(c.ResultPath(), b, 0o644)
}

// Guard runs f and converts a panic into (panicked=true, value, innermost library frame, stack).
func Guard(f func()) (panicked bool, val any, frame string, stack string) {
	defer func() {
		if r := recover(); r != nil {
			panicked = true
			val = r
			stack = string(debug.Stack())
			frame = InnermostLibFrame(stack)
		}
	}()
	f()
	return
}

// InnermostLibFrame finds the first github.com/crewjam/saml frame below the panic in a stack dump.
func InnermostLibFrame(stack string) string {
	lines := strings.Split(stack, "\n")
	seenPanic := false
	for _, l := range lines {
		if strings.HasPrefix(l, "panic(") {
			seenPanic = true
			continue
		}
		if !seenPanic {
			continue
		}
		if strings.HasPrefix(l, "github.com/crewjam/saml") {
			if i := strings.LastIndex(l, "("); i > 0 {
				l = l[:i]
			}
			return strings.TrimPrefix(l, "github.com/crewjam/")
		}
	}
	// fall back: first library frame anywhere
	for _, l := range lines {
		if strings.HasPrefix(l, "github.com/crewjam/saml") {
			if i := strings.LastIndex(l, "("); i > 0 {
				l = l[:i]
			}
			return strings.TrimPrefix(l, "github.com/crewjam/")
		}
	}
	return "unknown"
}

// Runner is a property check body for one shard.
type Runner func(c *Ctx)

var registry = map[string]Runner{}

func Register(id string, r Runner) { registry[id] = r }
func Lookup(id string) Runner      { return registry[id] }
func IDs() []string {
	var l []string
	for k := range registry {
		l = append(l, k)
	}
	sort.Strings(l)
	return l
}

// ---- resource sentinel ----

var allocSample = []metrics.Sample{{Name: "/gc/heap/allocs:bytes"}}

func heapAllocs() uint64 {
	metrics.Read(allocSample)
	if allocSample[0].Value.Kind() == metrics.KindUint64 {
		return allocSample[0].Value.Uint64()
	}
	return 0
}

func cpuTime() time.Duration {
	var ru syscall.Rusage
	if syscall.Getrusage(syscall.RUSAGE_SELF, &ru) != nil {
		return 0
	}
	return time.Duration(ru.Utime.Nano() + ru.Stime.Nano())
}

// Measure runs f under the panic guard and reports process CPU time and heap bytes allocated during the call.
// HeapAllocs is the cumulative number of heap bytes allocated by this process so far.
func HeapAllocs() uint64 { return heapAllocs() }

func Measure(f func()) (panicked bool, val any, frame string, cpu time.Duration, alloc uint64) {
	a0, c0 := heapAllocs(), cpuTime()
	panicked, val, frame, _ = Guard(f)
	cpu = cpuTime() - c0
	alloc = heapAllocs() - a0
	return
}
