package core

import (
	"bufio"
	"encoding/binary"
	"encoding/json"
	"fmt"
	"os"
	"os/exec"
	"path/filepath"
	"sort"
	"strconv"
	"strings"
	"sync"
	"syscall"
	"time"
)

// Spec describes a property check to the driver.
type Spec struct {
	ID          string
	Level       string // MANIFEST/EVIDENCE level category
	Rule        string // how cases are generated and what makes one non-trivial / distinct
	Assumptions []string
	FloorQuick  int64 // minimum distinct_nontrivial below which the run is "monitor observed nothing"
	FloorThor   int64
	Shards      int  // worker processes (default 16)
	Race        bool // workers must be the -race binary
	TimeoutQ    time.Duration
	TimeoutT    time.Duration
	Exhaustive  bool
	Run         Runner
	// MANIFEST texts
	LevelText string // what assurance the check gives
	LevelNote string // trusted base
	Technique string
	DesignRef string
	// Post is an optional hook run in the driver after shards were merged (e.g. race-log parsing).
	Post func(d *DriveState)
	// Env returns extra environment variables for a worker shard.
	Env func(shard int, work string) []string
}

var specs = map[string]*Spec{}

func RegisterSpec(s *Spec) {
	specs[s.ID] = s
	registry[s.ID] = s.Run
}
func LookupSpec(id string) *Spec { return specs[id] }
func SpecIDs() []string {
	var l []string
	for k := range specs {
		l = append(l, k)
	}
	sort.Strings(l)
	return l
}

type KnownFinding struct {
	Status   string `json:"status"` // known | fixed
	Property string `json:"property"`
	Key      string `json:"key"`
	What     string `json:"what"`
	Commit   string `json:"commit,omitempty"`
}

type knownFile struct {
	Findings []KnownFinding `json:"findings"`
}

func loadKnown(root string) []KnownFinding {
	b, err := os.ReadFile(filepath.Join(root, "known_findings.json"))
	if err != nil {
		return nil
	}
	var k knownFile
	if json.Unmarshal(b, &k) != nil {
		return nil
	}
	return k.Findings
}

func matchKnown(kf []KnownFinding, prop, key string) *KnownFinding {
	for i := range kf {
		f := &kf[i]
		if f.Status != "known" || f.Property != prop {
			continue
		}
		if f.Key == key {
			return f
		}
		if strings.HasSuffix(f.Key, "*") && strings.HasPrefix(key, strings.TrimSuffix(f.Key, "*")) {
			return f
		}
	}
	return nil
}

// DriveState is the merged state the driver works on.
type DriveState struct {
	Spec         *Spec
	Root         string
	Tier         string
	Seed         int64
	WorkDir      string
	Evaluations  int64
	Distinct     map[uint64]struct{}
	Counters     map[string]int64
	Observed     map[string]map[string]struct{}
	Samples      []json.RawMessage
	Violations   []Violation
	Inconclusive map[string]int64
	Notes        []string
	Broken       []string // reasons that make the run "broken" (exit 2)
}

func (d *DriveState) AddViolation(key, msg string, replay any) {
	dir := filepath.Join(d.Root, "replays", d.Spec.ID)
	_ = os.MkdirAll(dir, 0o755)
	p := filepath.Join(dir, fmt.Sprintf("%s-drv-%d.json", sanitize(key), len(d.Violations)))
	b, _ := json.MarshalIndent(map[string]any{"property": d.Spec.ID, "key": key, "msg": msg, "seed": d.Seed, "tier": d.Tier, "case": replay}, "", " ")
	_ = os.WriteFile(p, b, 0o644)
	if len(msg) > 600 {
		msg = msg[:600] + "..."
	}
	d.Violations = append(d.Violations, Violation{Key: key, Msg: msg, Replay: p})
}

// Drive runs all shards of a property as child processes and aggregates. Returns the process exit code.
func Drive(id, tier string, seed int64, root, exe, raceExe string) int {
	spec := specs[id]
	if spec == nil {
		fmt.Fprintf(os.Stderr, "unknown property %s\n", id)
		return 2
	}
	start := time.Now()
	n := spec.Shards
	if n <= 0 {
		n = 16
	}
	if v := os.Getenv("VERIF_SHARDS"); v != "" {
		if k, err := strconv.Atoi(v); err == nil && k > 0 {
			n = k
		}
	}
	work := filepath.Join(root, "work", id)
	_ = os.RemoveAll(work)
	_ = os.MkdirAll(work, 0o755)
	_ = os.RemoveAll(filepath.Join(root, "replays", id))
	timeout := spec.TimeoutQ
	if tier == "thorough" {
		timeout = spec.TimeoutT
	}
	if timeout == 0 {
		timeout = 20 * time.Minute
		if tier == "thorough" {
			timeout = 3 * time.Hour
		}
	}
	bin := exe
	if spec.Race {
		bin = raceExe
	}

	type shardOutcome struct {
		exitErr  error
		timedOut bool
	}
	outcomes := make([]shardOutcome, n)
	var wg sync.WaitGroup
	for i := 0; i < n; i++ {
		wg.Add(1)
		go func(i int) {
			defer wg.Done()
			logf, _ := os.Create(filepath.Join(work, fmt.Sprintf("out-%d.log", i)))
			defer logf.Close()
			cmd := exec.Command(bin, "worker", id, tier, strconv.FormatInt(seed, 10), strconv.Itoa(i), strconv.Itoa(n))
			cmd.Stdout = logf
			cmd.Stderr = logf
			cmd.Dir = root
			// the library clock of every second worker reports its instants in a non-UTC zone: which zone a time.Time
			// carries must never matter to the library (nor to the monitors)
			cmd.Env = append(os.Environ(), "VERIF_ROOT="+root, "VERIF_CLOCK_ZONE="+[]string{"", "-08:00", "", "+05:30"}[i%4])
			if spec.Env != nil {
				cmd.Env = append(cmd.Env, spec.Env(i, work)...)
			}
			if err := cmd.Start(); err != nil {
				outcomes[i].exitErr = err
				return
			}
			done := make(chan error, 1)
			go func() { done <- cmd.Wait() }()
			select {
			case err := <-done:
				outcomes[i].exitErr = err
			case <-time.After(timeout):
				outcomes[i].timedOut = true
				_ = cmd.Process.Signal(syscall.SIGQUIT)
				select {
				case <-done:
				case <-time.After(10 * time.Second):
					_ = cmd.Process.Kill()
					<-done
				}
			}
		}(i)
	}
	wg.Wait()

	d := &DriveState{Spec: spec, Root: root, Tier: tier, Seed: seed, WorkDir: work,
		Distinct: map[uint64]struct{}{}, Counters: map[string]int64{}, Observed: map[string]map[string]struct{}{}, Inconclusive: map[string]int64{}}
	for i := 0; i < n; i++ {
		var r Result
		b, err := os.ReadFile(filepath.Join(work, fmt.Sprintf("result-%d.json", i)))
		ok := err == nil && json.Unmarshal(b, &r) == nil && r.Completed
		if !ok {
			jb, _ := os.ReadFile(filepath.Join(work, fmt.Sprintf("journal-%d.txt", i)))
			logTail, fatalLine, frame := summarizeLog(filepath.Join(work, fmt.Sprintf("out-%d.log", i)))
			if outcomes[i].timedOut {
				d.Inconclusive["watchdog: shard exceeded "+timeout.String()]++
				d.Broken = append(d.Broken, fmt.Sprintf("shard %d timed out after %s (last case: %.200s)", i, timeout, string(jb)))
				continue
			}
			if fatalLine == "" {
				d.Broken = append(d.Broken, fmt.Sprintf("shard %d ended without result: %v; log tail: %s", i, outcomes[i].exitErr, logTail))
				continue
			}
			key := fmt.Sprintf("%s/fatal/%s/%s", id, frame, classifyFatal(fatalLine))
			d.AddViolation(key, "process-fatal error in worker: "+fatalLine, map[string]any{"journal": string(jb), "log_tail": logTail})
			continue
		}
		d.Evaluations += r.Evaluations
		for k, v := range r.Counters {
			if strings.HasPrefix(k, "max_") {
				if v > d.Counters[k] {
					d.Counters[k] = v
				}
			} else {
				d.Counters[k] += v
			}
		}
		for k, v := range r.Inconclusive {
			d.Inconclusive[k] += v
		}
		for k, l := range r.Observed {
			m := d.Observed[k]
			if m == nil {
				m = map[string]struct{}{}
				d.Observed[k] = m
			}
			for _, v := range l {
				m[v] = struct{}{}
			}
		}
		if len(d.Samples) < 8 {
			for _, s := range r.Samples {
				if len(d.Samples) < 8 {
					d.Samples = append(d.Samples, s)
				}
			}
		}
		d.Violations = append(d.Violations, r.Violations...)
		d.Notes = append(d.Notes, r.Notes...)
		hb, _ := os.ReadFile(filepath.Join(work, fmt.Sprintf("distinct-%d.bin", i)))
		for j := 0; j+8 <= len(hb); j += 8 {
			d.Distinct[binary.LittleEndian.Uint64(hb[j:])] = struct{}{}
		}
	}
	if spec.Post != nil {
		spec.Post(d)
	}

	// classify violations against the committed known-findings file
	known := loadKnown(root)
	knownHits := map[string]int{}
	knownWhat := map[string]string{}
	var fresh []Violation
	seenFresh := map[string]bool{}
	for _, v := range d.Violations {
		if f := matchKnown(known, id, v.Key); f != nil {
			knownHits[f.Key]++
			knownWhat[f.Key] = f.What
			continue
		}
		if !seenFresh[v.Key] {
			seenFresh[v.Key] = true
			fresh = append(fresh, v)
		}
	}

	floor := spec.FloorQuick
	if tier == "thorough" && spec.FloorThor > 0 {
		floor = spec.FloorThor
	}
	if floor < 2 {
		floor = 2
	}
	dn := int64(len(d.Distinct))
	if dn < floor && len(fresh) == 0 {
		d.Broken = append(d.Broken, fmt.Sprintf("monitor observed too little: distinct_nontrivial=%d < floor=%d", dn, floor))
	}

	// evidence
	obs := map[string][]string{}
	for k, m := range d.Observed {
		var l []string
		for v := range m {
			l = append(l, v)
		}
		sort.Strings(l)
		obs[k] = l
	}
	samples := make([]any, 0, len(d.Samples))
	for _, s := range d.Samples {
		samples = append(samples, s)
	}
	if len(samples) == 0 {
		samples = append(samples, "no sample recorded")
	}
	var kh []string
	for k, n := range knownHits {
		kh = append(kh, fmt.Sprintf("%s x%d", k, n))
	}
	sort.Strings(kh)
	cov := map[string]any{
		"evaluations":         d.Evaluations,
		"distinct_nontrivial": dn,
		"rule":                spec.Rule,
		"samples":             samples,
		"counters":            d.Counters,
		"observed":            obs,
		"inconclusive":        d.Inconclusive,
		"known_findings_hit":  kh,
		"shards":              n,
		"floor":               floor,
	}
	if spec.Exhaustive {
		cov["exhaustive"] = false // sampled + exhaustive sub-lattices; see rule
	}
	if len(d.Notes) > 0 {
		if len(d.Notes) > 30 {
			d.Notes = d.Notes[:30]
		}
		cov["notes"] = d.Notes
	}
	if len(d.Broken) > 0 {
		cov["broken"] = d.Broken
	}
	var vk []string
	for _, v := range fresh {
		vk = append(vk, v.Key)
	}
	if len(vk) > 0 {
		cov["violation_keys"] = vk
	}
	if dn < 2 {
		dn = 0
	}
	ev := map[string]any{
		"property_id": id,
		"tier":        tier,
		"seed":        seed,
		"level":       spec.Level,
		"coverage":    cov,
		"assumptions": spec.Assumptions,
		"wall_s":      time.Since(start).Seconds(),
		"violations":  len(fresh),
	}
	_ = os.MkdirAll(filepath.Join(root, "evidence"), 0o755)
	eb, _ := json.MarshalIndent(ev, "", " ")
	_ = os.WriteFile(filepath.Join(root, "evidence", id+".json"), eb, 0o644)

	// report
	w := bufio.NewWriter(os.Stdout)
	defer w.Flush()
	fmt.Fprintf(w, "%s tier=%s seed=%d shards=%d evaluations=%d distinct_nontrivial=%d wall=%.1fs\n", id, tier, seed, n, d.Evaluations, len(d.Distinct), time.Since(start).Seconds())
	var ck []string
	for k := range d.Counters {
		ck = append(ck, k)
	}
	sort.Strings(ck)
	for _, k := range ck {
		fmt.Fprintf(w, "  counter %-40s %d\n", k, d.Counters[k])
	}
	for k, v := range d.Inconclusive {
		fmt.Fprintf(w, "  inconclusive %q x%d\n", k, v)
	}
	var khk []string
	for k := range knownHits {
		khk = append(khk, k)
	}
	sort.Strings(khk)
	for _, k := range khk {
		fmt.Fprintf(w, "KNOWN-FINDING: property=%s %s (key=%s, hits=%d)\n", id, knownWhat[k], k, knownHits[k])
	}
	for _, v := range fresh {
		fmt.Fprintf(w, "  violation key=%s: %s\n", v.Key, v.Msg)
		fmt.Fprintf(w, "VIOLATION property=%s replay=%s\n", id, v.Replay)
	}
	if len(fresh) > 0 {
		return 1
	}
	if len(d.Broken) > 0 {
		for _, b := range d.Broken {
			fmt.Fprintf(w, "BROKEN: %s\n", b)
		}
		return 2
	}
	fmt.Fprintf(w, "%s held on everything observed\n", id)
	return 0
}

func summarizeLog(path string) (tail, fatalLine, frame string) {
	b, err := os.ReadFile(path)
	if err != nil {
		return "", "", "unknown"
	}
	s := string(b)
	lines := strings.Split(s, "\n")
	for i, l := range lines {
		if strings.HasPrefix(l, "fatal error:") || strings.HasPrefix(l, "panic:") || strings.HasPrefix(l, "runtime: out of memory") || strings.HasPrefix(l, "runtime: goroutine stack exceeds") {
			if fatalLine == "" {
				fatalLine = l
				frame = InnermostLibFrame("panic(\n" + strings.Join(lines[i:], "\n"))
			}
		}
	}
	if frame == "" {
		frame = "unknown"
	}
	if len(lines) > 12 {
		lines = lines[len(lines)-12:]
	}
	tail = strings.Join(lines, "\n")
	if len(tail) > 1500 {
		tail = tail[len(tail)-1500:]
	}
	return
}

func classifyFatal(l string) string {
	l = strings.TrimSpace(l)
	if len(l) > 80 {
		l = l[:80]
	}
	return sanitize(l)
}
