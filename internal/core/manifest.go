package core

import (
	"bufio"
	"encoding/json"
	"os"
	"path/filepath"
	"strings"
)

// HookCommits are the /repo commits that add build-tagged hooks.
var HookCommits = []string{}

// NotApplicable lists reasons for properties that are deliberately not claimed.
var NotApplicable = map[string]string{}

// WriteManifest regenerates MANIFEST.json from the registered specs and properties.jsonl.
func WriteManifest(root string, hookCommits []string) error {
	var ids []string
	f, err := os.Open(filepath.Join(root, "properties.jsonl"))
	if err != nil {
		return err
	}
	sc := bufio.NewScanner(f)
	sc.Buffer(make([]byte, 1<<20), 1<<24)
	for sc.Scan() {
		var p struct {
			ID string `json:"id"`
		}
		if json.Unmarshal(sc.Bytes(), &p) == nil && p.ID != "" {
			ids = append(ids, p.ID)
		}
	}
	f.Close()
	var checks []map[string]any
	var na []map[string]string
	engines := []map[string]any{}
	var served []string
	for _, id := range ids {
		s := specs[id]
		if s == nil {
			reason := NotApplicable[id]
			if reason == "" {
				reason = "check not built yet in this revision (planned: see DESIGN.md section for " + id + ")"
			}
			na = append(na, map[string]string{"property_id": id, "reason": reason})
			continue
		}
		served = append(served, id)
		ck := map[string]any{
			"property_id":         id,
			"quick_cmd":           "./check.sh " + id + " quick",
			"thorough_cmd":        "./check.sh " + id + " thorough",
			"evidence_file":       "/verif/evidence/" + id + ".json",
			"replay_cmd_template": "cat {path}",
			"engine":              "vcheck",
			"level_claimed": map[string]any{
				"category":   s.Level,
				"text":       s.LevelText,
				"design_ref": s.DesignRef,
			},
			"level_note": s.LevelNote,
			"technique":  s.Technique,
		}
		checks = append(checks, ck)
	}
	engines = append(engines, map[string]any{
		"name": "vcheck", "path": "/verif/cmd/vcheck", "serves_properties": served,
		"kind_free_text": "Go runtime-monitoring harness: per-property case generators drive the real crewjam/saml code (compiled from /repo's working tree through a replace directive, build tag verif) in sharded child processes; oracles independent of the code under test judge every execution; driver aggregates shard results, matches known_findings.json and writes evidence",
	})
	m := map[string]any{
		"version":   1,
		"setup_cmd": "./setup.sh",
		"hooks": map[string]any{
			"guard":            "verif",
			"enable":           "go build -tags verif (check.sh and setup.sh pass it; hook files carry //go:build verif)",
			"baseline_off_cmd": "cd /repo && go test -vet=off -count=1 -timeout 25m ./...",
			"source_commits":   hookCommits,
			"add_only":         true,
		},
		"engines":        engines,
		"checks":         checks,
		"not_applicable": na,
		"notes":          "Technique family: runtime monitoring and sanitizers. Every check executes the real library under generated hostile workloads and judges the observed executions with oracles written independently of the code under test; verdicts are 'held on the executions observed', see DESIGN.md. Exit 0 held / 1 VIOLATION / 2 broken harness (never a verdict). known_findings.json lists recorded and fixed defects.",
	}
	if na == nil {
		m["not_applicable"] = []any{}
	}
	b, err := json.MarshalIndent(m, "", " ")
	if err != nil {
		return err
	}
	_ = strings.TrimSpace
	return os.WriteFile(filepath.Join(root, "MANIFEST.json"), append(b, '\n'), 0o644)
}
