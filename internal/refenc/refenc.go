// Package refenc is an independent reference implementation of the W3C XML-Encryption algorithms used by
// crewjam/saml/xmlenc. It is written from crypto/* and the element layout of the recommendation only and shares no
// code with the package under test.
package refenc

import (
	"crypto/aes"
	"crypto/cipher"
	"crypto/des"
	"crypto/rsa"
	"crypto/sha1"
	"crypto/sha256"
	"crypto/sha512"
	"crypto/x509"
	"encoding/base64"
	"errors"
	"fmt"
	"hash"
	"io"
	"strings"

	"github.com/beevik/etree"
	"golang.org/x/crypto/ripemd160"
)

const (
	NSXenc = "http://www.w3.org/2001/04/xmlenc#"
	NSDsig = "http://www.w3.org/2000/09/xmldsig#"

	AES128CBC = "http://www.w3.org/2001/04/xmlenc#aes128-cbc"
	AES192CBC = "http://www.w3.org/2001/04/xmlenc#aes192-cbc"
	AES256CBC = "http://www.w3.org/2001/04/xmlenc#aes256-cbc"
	TDESCBC   = "http://www.w3.org/2001/04/xmlenc#tripledes-cbc"
	AES128GCM = "http://www.w3.org/2009/xmlenc11#aes128-gcm"

	OAEPMGF1P = "http://www.w3.org/2001/04/xmlenc#rsa-oaep-mgf1p"
	OAEP11    = "http://www.w3.org/2009/xmlenc11#rsa-oaep"
	RSA15     = "http://www.w3.org/2001/04/xmlenc#rsa-1_5"

	DigestSHA1   = "http://www.w3.org/2000/09/xmldsig#sha1"
	DigestSHA256 = "http://www.w3.org/2000/09/xmldsig#sha256"
	DigestSHA512 = "http://www.w3.org/2000/09/xmldsig#sha512"
	DigestRIPEMD = "http://www.w3.org/2000/09/xmldsig#ripemd160"
)

var BlockAlgs = []string{AES128CBC, AES192CBC, AES256CBC, TDESCBC, AES128GCM}
var Digests = []string{DigestSHA1, DigestSHA256, DigestSHA512, DigestRIPEMD}

func KeySize(alg string) int {
	switch alg {
	case AES128CBC, AES128GCM:
		return 16
	case AES192CBC, TDESCBC:
		return 24
	case AES256CBC:
		return 32
	}
	return 0
}

func BlockSize(alg string) int {
	if alg == TDESCBC {
		return 8
	}
	return 16
}

func IsGCM(alg string) bool { return alg == AES128GCM }

func newBlock(alg string, key []byte) (cipher.Block, error) {
	if len(key) != KeySize(alg) || len(key) == 0 {
		return nil, fmt.Errorf("refenc: key size %d for %s", len(key), alg)
	}
	if alg == TDESCBC {
		return des.NewTripleDESCipher(key)
	}
	return aes.NewCipher(key)
}

func Hash(uri string) (func() hash.Hash, error) {
	switch uri {
	case DigestSHA1, "":
		return sha1.New, nil
	case DigestSHA256:
		return sha256.New, nil
	case DigestSHA512:
		return sha512.New, nil
	case DigestRIPEMD:
		return ripemd160.New, nil
	}
	return nil, errors.New("refenc: unknown digest " + uri)
}

// EncryptRaw produces the octets of CipherValue for a block algorithm (IV/nonce prefix included).
func EncryptRaw(alg string, key, plaintext []byte, rnd io.Reader) ([]byte, error) {
	return encryptRaw(alg, key, plaintext, rnd, 0)
}

// encryptRaw with extraBlocks > 0 writes a CBC padding that is longer than one block (its last byte still counts the
// padding bytes): not a padding the recommendation allows (section 5.2: at most one block), used as a hostile input.
func encryptRaw(alg string, key, plaintext []byte, rnd io.Reader, extraBlocks int) ([]byte, error) {
	blk, err := newBlock(alg, key)
	if err != nil {
		return nil, err
	}
	if IsGCM(alg) {
		g, err := cipher.NewGCM(blk)
		if err != nil {
			return nil, err
		}
		nonce := make([]byte, 12)
		if _, err := io.ReadFull(rnd, nonce); err != nil {
			return nil, err
		}
		return g.Seal(nonce, nonce, plaintext, nil), nil
	}
	bs := blk.BlockSize()
	pad := bs - len(plaintext)%bs + extraBlocks*bs
	if pad > 255 {
		return nil, errors.New("refenc: padding does not fit its length byte")
	}
	buf := make([]byte, len(plaintext)+pad)
	copy(buf, plaintext)
	if pad > 1 {
		if _, err := io.ReadFull(rnd, buf[len(plaintext):len(buf)-1]); err != nil { // arbitrary filler, as the recommendation allows
			return nil, err
		}
	}
	buf[len(buf)-1] = byte(pad)
	iv := make([]byte, bs)
	if _, err := io.ReadFull(rnd, iv); err != nil {
		return nil, err
	}
	out := make([]byte, len(buf))
	cipher.NewCBCEncrypter(blk, iv).CryptBlocks(out, buf)
	return append(iv, out...), nil
}

// DecryptRaw is the inverse of EncryptRaw.
func DecryptRaw(alg string, key, cv []byte) ([]byte, error) {
	blk, err := newBlock(alg, key)
	if err != nil {
		return nil, err
	}
	if IsGCM(alg) {
		g, err := cipher.NewGCM(blk)
		if err != nil {
			return nil, err
		}
		if len(cv) < 12+16 {
			return nil, errors.New("refenc: gcm cipher value too short")
		}
		return g.Open(nil, cv[:12], cv[12:], nil)
	}
	bs := blk.BlockSize()
	if len(cv) < 2*bs || len(cv)%bs != 0 {
		return nil, errors.New("refenc: cbc cipher value length")
	}
	pt := make([]byte, len(cv)-bs)
	cipher.NewCBCDecrypter(blk, cv[:bs]).CryptBlocks(pt, cv[bs:])
	pad := int(pt[len(pt)-1])
	if pad < 1 || pad > bs {
		return nil, errors.New("refenc: bad padding")
	}
	return pt[:len(pt)-pad], nil
}

// WrapKey encrypts a content-encryption key under an RSA public key.
func WrapKey(transport, digest string, pub *rsa.PublicKey, cek []byte, rnd io.Reader) ([]byte, error) {
	switch transport {
	case RSA15:
		return rsa.EncryptPKCS1v15(rnd, pub, cek)
	case OAEPMGF1P, OAEP11:
		h, err := Hash(digest)
		if err != nil {
			return nil, err
		}
		return rsa.EncryptOAEP(h(), rnd, pub, cek, nil)
	}
	return nil, errors.New("refenc: unknown transport " + transport)
}

func UnwrapKey(transport, digest string, priv *rsa.PrivateKey, wrapped []byte) ([]byte, error) {
	switch transport {
	case RSA15:
		return rsa.DecryptPKCS1v15(nil, priv, wrapped)
	case OAEPMGF1P, OAEP11:
		h, err := Hash(digest)
		if err != nil {
			return nil, err
		}
		return rsa.DecryptOAEP(h(), nil, priv, wrapped, nil)
	}
	return nil, errors.New("refenc: unknown transport " + transport)
}

// DataElement builds <xenc:EncryptedData> around a cipher value.
func DataElement(alg string, cipherValue []byte, keyInfo *etree.Element) *etree.Element {
	ed := etree.NewElement("xenc:EncryptedData")
	ed.CreateAttr("xmlns:xenc", NSXenc)
	ed.CreateAttr("Type", "http://www.w3.org/2001/04/xmlenc#Element")
	em := ed.CreateElement("xenc:EncryptionMethod")
	em.CreateAttr("Algorithm", alg)
	if keyInfo != nil {
		ed.AddChild(keyInfo)
	}
	cd := ed.CreateElement("xenc:CipherData")
	cd.CreateElement("xenc:CipherValue").SetText(base64.StdEncoding.EncodeToString(cipherValue))
	return ed
}

// KeyElement builds <ds:KeyInfo><xenc:EncryptedKey>…</…></…>. cert may be nil (no X509Data).
func KeyElement(transport, digest string, wrapped []byte, cert *x509.Certificate) *etree.Element {
	ki := etree.NewElement("ds:KeyInfo")
	ki.CreateAttr("xmlns:ds", NSDsig)
	ek := ki.CreateElement("xenc:EncryptedKey")
	ek.CreateAttr("xmlns:xenc", NSXenc)
	em := ek.CreateElement("xenc:EncryptionMethod")
	em.CreateAttr("Algorithm", transport)
	if digest != "" && transport != RSA15 {
		dm := em.CreateElement("ds:DigestMethod")
		dm.CreateAttr("Algorithm", digest)
	}
	if cert != nil {
		iki := ek.CreateElement("ds:KeyInfo")
		iki.CreateElement("ds:X509Data").CreateElement("ds:X509Certificate").SetText(base64.StdEncoding.EncodeToString(cert.Raw))
	}
	cd := ek.CreateElement("xenc:CipherData")
	cd.CreateElement("xenc:CipherValue").SetText(base64.StdEncoding.EncodeToString(wrapped))
	return ki
}

// Encrypt builds a complete EncryptedData. If cert is nil the key is used directly, otherwise a fresh CEK is drawn
// from rnd and wrapped to cert's RSA key. It returns the element and the CEK used.
func Encrypt(alg, transport, digest string, cert *x509.Certificate, directKey, plaintext []byte, rnd io.Reader, embedCert bool) (*etree.Element, []byte, error) {
	return EncryptOverlong(alg, transport, digest, cert, directKey, plaintext, rnd, embedCert, 0)
}

// EncryptOverlong is Encrypt with extraBlocks whole blocks of additional CBC padding (0: a regular EncryptedData).
func EncryptOverlong(alg, transport, digest string, cert *x509.Certificate, directKey, plaintext []byte, rnd io.Reader, embedCert bool, extraBlocks int) (*etree.Element, []byte, error) {
	cek := directKey
	var ki *etree.Element
	if cert != nil {
		pub, ok := cert.PublicKey.(*rsa.PublicKey)
		if !ok {
			return nil, nil, errors.New("refenc: not an RSA certificate")
		}
		cek = make([]byte, KeySize(alg))
		if _, err := io.ReadFull(rnd, cek); err != nil {
			return nil, nil, err
		}
		w, err := WrapKey(transport, digest, pub, cek, rnd)
		if err != nil {
			return nil, nil, err
		}
		var c *x509.Certificate
		if embedCert {
			c = cert
		}
		ki = KeyElement(transport, digest, w, c)
	}
	cv, err := encryptRaw(alg, cek, plaintext, rnd, extraBlocks)
	if err != nil {
		return nil, nil, err
	}
	return DataElement(alg, cv, ki), cek, nil
}

func childByLocal(el *etree.Element, local string) *etree.Element {
	for _, c := range el.ChildElements() {
		if c.Tag == local {
			return c
		}
	}
	return nil
}

func cipherValue(el *etree.Element) ([]byte, error) {
	cd := childByLocal(el, "CipherData")
	if cd == nil {
		return nil, errors.New("refenc: no CipherData")
	}
	cv := childByLocal(cd, "CipherValue")
	if cv == nil {
		return nil, errors.New("refenc: no CipherValue")
	}
	return base64.StdEncoding.DecodeString(strings.Join(strings.Fields(cv.Text()), ""))
}

// Decrypt reads an EncryptedData element (direct key []byte or *rsa.PrivateKey for a wrapped key).
func Decrypt(key any, ed *etree.Element) ([]byte, error) {
	em := childByLocal(ed, "EncryptionMethod")
	if em == nil {
		return nil, errors.New("refenc: no EncryptionMethod")
	}
	alg := em.SelectAttrValue("Algorithm", "")
	var cek []byte
	if ki := childByLocal(ed, "KeyInfo"); ki != nil && childByLocal(ki, "EncryptedKey") != nil {
		ek := childByLocal(ki, "EncryptedKey")
		priv, ok := key.(*rsa.PrivateKey)
		if !ok {
			return nil, errors.New("refenc: need RSA key")
		}
		kem := childByLocal(ek, "EncryptionMethod")
		if kem == nil {
			return nil, errors.New("refenc: no key EncryptionMethod")
		}
		digest := ""
		if dm := childByLocal(kem, "DigestMethod"); dm != nil {
			digest = dm.SelectAttrValue("Algorithm", "")
		}
		w, err := cipherValue(ek)
		if err != nil {
			return nil, err
		}
		cek, err = UnwrapKey(kem.SelectAttrValue("Algorithm", ""), digest, priv, w)
		if err != nil {
			return nil, err
		}
	} else {
		b, ok := key.([]byte)
		if !ok {
			return nil, errors.New("refenc: need []byte key")
		}
		cek = b
	}
	cv, err := cipherValue(ed)
	if err != nil {
		return nil, err
	}
	return DecryptRaw(alg, cek, cv)
}

// Reparse serialises an element and parses it again (both sides of a cross check always go through text).
func Reparse(el *etree.Element) (*etree.Element, []byte, error) {
	doc := etree.NewDocument()
	doc.SetRoot(el.Copy())
	b, err := doc.WriteToBytes()
	if err != nil {
		return nil, nil, err
	}
	d2 := etree.NewDocument()
	if err := d2.ReadFromBytes(b); err != nil {
		return nil, b, err
	}
	return d2.Root(), b, nil
}
