package so

import (
	"bytes"
	"context"
	"errors"
	"io"
	"net/http"
	"net/url"
	"strings"

	"github.com/beevik/etree"
	"github.com/crewjam/saml"
)

// DeliverXML hands a response element to ParseXMLResponse.
func DeliverXML(sp *saml.ServiceProvider, respEl *etree.Element, ids []string, cur url.URL) (*saml.Assertion, error) {
	return sp.ParseXMLResponse(Bytes(respEl), ids, cur)
}

// DeliverXMLBytes hands raw bytes to ParseXMLResponse.
func DeliverXMLBytes(sp *saml.ServiceProvider, raw []byte, ids []string, cur url.URL) (*saml.Assertion, error) {
	return sp.ParseXMLResponse(raw, ids, cur)
}

// PostRequest builds the http.Request a browser would send to the ACS with the given form values.
func PostRequest(target url.URL, form url.Values) *http.Request {
	req, _ := http.NewRequestWithContext(context.Background(), "POST", target.String(), strings.NewReader(form.Encode()))
	req.Header.Set("Content-Type", "application/x-www-form-urlencoded")
	_ = req.ParseForm()
	return req
}

// DeliverPOST goes through ParseResponse with a base64 SAMLResponse form field.
func DeliverPOST(sp *saml.ServiceProvider, raw []byte, ids []string, cur url.URL) (*saml.Assertion, error) {
	req := PostRequest(cur, url.Values{"SAMLResponse": {B64(raw)}})
	return sp.ParseResponse(req, ids)
}

// RoundTripFunc adapts a function to http.RoundTripper.
type RoundTripFunc func(*http.Request) (*http.Response, error)

func (f RoundTripFunc) RoundTrip(r *http.Request) (*http.Response, error) { return f(r) }

// HTTPResponse builds a canned http.Response.
func HTTPResponse(status int, body io.Reader) *http.Response {
	return &http.Response{StatusCode: status, Status: http.StatusText(status), Body: io.NopCloser(body), Header: http.Header{}, ProtoMajor: 1, ProtoMinor: 1}
}

// ErrReader fails after serving n bytes.
type ErrReader struct {
	Data []byte
	N    int
	pos  int
}

func (e *ErrReader) Read(p []byte) (int, error) {
	if e.pos >= e.N || e.pos >= len(e.Data) {
		return 0, errors.New("injected body read error")
	}
	n := copy(p, e.Data[e.pos:min(e.N, len(e.Data))])
	e.pos += n
	return n, nil
}

// ResolveRequestID extracts the ID of the ArtifactResolve carried by a SOAP request body.
func ResolveRequestID(body []byte) (id string, artifact string, el *etree.Element) {
	doc := etree.NewDocument()
	if doc.ReadFromBytes(body) != nil || doc.Root() == nil {
		return "", "", nil
	}
	ar := doc.Root().FindElement("./Body/ArtifactResolve")
	if ar == nil {
		return "", "", nil
	}
	art := ""
	if a := ar.FindElement("./Artifact"); a != nil {
		art = a.Text()
	}
	return ar.SelectAttrValue("ID", ""), art, ar
}

// DeliverArtifactHTTP drives ParseResponse with a SAMLart form value and a scripted resolver. The script receives the
// ID of the ArtifactResolve the SP issued and returns the SOAP body to answer with.
func DeliverArtifactHTTP(sp *saml.ServiceProvider, ids []string, cur url.URL, script func(resolveID string, req *http.Request, body []byte) (*http.Response, error)) (*saml.Assertion, error) {
	old := sp.HTTPClient
	defer func() { sp.HTTPClient = old }()
	sp.HTTPClient = &http.Client{Transport: RoundTripFunc(func(r *http.Request) (*http.Response, error) {
		var body []byte
		if r.Body != nil {
			body, _ = io.ReadAll(r.Body)
		}
		id, _, _ := ResolveRequestID(body)
		return script(id, r, body)
	})}
	form := url.Values{"SAMLart": {"AAQAAMFbLinlXaCM+FIxiDwGOLAy2T71gbpO7ZhNzAgEANlB90ECfpNEVLg="}}
	req := PostRequest(cur, form)
	req.Form = form
	return sp.ParseResponse(req, ids)
}

// OK200 answers with status 200 and the bytes.
func OK200(b []byte) (*http.Response, error) { return HTTPResponse(200, bytes.NewReader(b)), nil }
