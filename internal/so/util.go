package so

import (
	"crypto/sha256"
	"crypto/sha512"
	"encoding/base64"
	"fmt"
	"net/url"
	"strings"
)

func mustURL(s string) url.URL {
	u, err := url.Parse(s)
	if err != nil {
		panic(err)
	}
	return *u
}

// Fingerprint formats a certificate fingerprint the way the SP configuration expects (upper-case hex, colon separated).
func Fingerprint(der []byte, alg string) (string, string) {
	var sum []byte
	uri := ""
	switch alg {
	case "sha256":
		s := sha256.Sum256(der)
		sum, uri = s[:], "http://www.w3.org/2001/04/xmlenc#sha256"
	case "sha512":
		s := sha512.Sum512(der)
		sum, uri = s[:], "http://www.w3.org/2001/04/xmlenc#sha512"
	}
	parts := make([]string, len(sum))
	for i, b := range sum {
		parts[i] = fmt.Sprintf("%02X", b)
	}
	return strings.Join(parts, ":"), uri
}

// B64Decode decodes standard base64.
func B64Decode(s string) ([]byte, error) { return base64.StdEncoding.DecodeString(s) }

// MustURL parses a URL known to be valid.
func MustURL(s string) url.URL { return mustURL(s) }
