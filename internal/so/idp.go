package so

import (
	"bytes"
	"compress/flate"
	"io"
	"log"
	"net/http"
	"net/http/httptest"
	"net/url"
	"os"
	"strings"

	"github.com/crewjam/saml"
	"github.com/crewjam/saml/logger"

	"verif/internal/fx"
)

// Quiet silences the library's loggers (they write to stdout/stderr by default).
func Quiet() {
	logger.DefaultLogger.SetOutput(io.Discard)
	log.SetOutput(io.Discard)
}

// Lookup is one observed registry lookup.
type Lookup struct {
	Asked string
	Found bool
}

// IDPWorld is a library IdentityProvider with stub registry and session provider that record what they are asked.
type IDPWorld struct {
	IDP      *saml.IdentityProvider
	Registry map[string]*saml.EntityDescriptor
	Lookups  []Lookup
	Session  *saml.Session // returned to every request; nil => "login form" (HTTP 200 with marker body)
	// RegistryErr, when set, is returned for every lookup
	RegistryErr     error
	GetSessionCalls int
}

func (w *IDPWorld) GetServiceProvider(_ *http.Request, id string) (*saml.EntityDescriptor, error) {
	if w.RegistryErr != nil {
		w.Lookups = append(w.Lookups, Lookup{id, false})
		return nil, w.RegistryErr
	}
	md, ok := w.Registry[id]
	w.Lookups = append(w.Lookups, Lookup{id, ok})
	if !ok {
		return nil, os.ErrNotExist
	}
	return md, nil
}

func (w *IDPWorld) GetSession(rw http.ResponseWriter, _ *http.Request, _ *saml.IdpAuthnRequest) *saml.Session {
	w.GetSessionCalls++
	if w.Session == nil {
		rw.WriteHeader(http.StatusOK)
		_, _ = rw.Write([]byte("LOGIN-FORM-MARKER"))
		return nil
	}
	return w.Session
}

// NewIDPWorld creates an IdP with key idp_s1.
func NewIDPWorld() *IDPWorld {
	kp := fx.K("idp_s1")
	w := &IDPWorld{Registry: map[string]*saml.EntityDescriptor{}}
	w.IDP = &saml.IdentityProvider{
		Key: kp.Key, Certificate: kp.Cert, Logger: logger.DefaultLogger,
		MetadataURL: mustURL(IDPEntity), SSOURL: mustURL(IDPSSO),
		ServiceProviderProvider: w, SessionProvider: w,
	}
	w.Session = DefaultSession()
	return w
}

func DefaultSession() *saml.Session {
	return &saml.Session{
		ID: "sess-1", CreateTime: fx.Now().Add(-0), ExpireTime: fx.Now().Add(3600e9), Index: "idx-1",
		NameID: "alice@example.com", UserName: "alice", UserEmail: "alice@example.com", UserCommonName: "Alice A", UserSurname: "A", UserGivenName: "Alice", Groups: []string{"g1", "g2"},
	}
}

// Deflate raw-deflates b.
func Deflate(b []byte) []byte {
	var buf bytes.Buffer
	w, _ := flate.NewWriter(&buf, flate.BestCompression)
	_, _ = w.Write(b)
	_ = w.Close()
	return buf.Bytes()
}

// DeflateNoFinal raw-deflates b but only flushes the stream: all data is there, the final block is not.
func DeflateNoFinal(b []byte) []byte {
	var buf bytes.Buffer
	w, _ := flate.NewWriter(&buf, flate.BestCompression)
	_, _ = w.Write(b)
	_ = w.Flush()
	return buf.Bytes()
}

// SSORequestGET builds the redirect-binding request for a raw AuthnRequest document.
func SSORequestGET(sso string, requestXML []byte, relayState string) *http.Request {
	q := url.Values{"SAMLRequest": {B64(Deflate(requestXML))}}
	if relayState != "" {
		q.Set("RelayState", relayState)
	}
	u := sso + "?" + q.Encode()
	r := httptest.NewRequest("GET", u, nil)
	return r
}

// SSORequestPOST builds the POST-binding request.
func SSORequestPOST(sso string, requestXML []byte, relayState string) *http.Request {
	f := url.Values{"SAMLRequest": {B64(requestXML)}}
	if relayState != "" {
		f.Set("RelayState", relayState)
	}
	r := httptest.NewRequest("POST", sso, strings.NewReader(f.Encode()))
	r.Header.Set("Content-Type", "application/x-www-form-urlencoded")
	return r
}
