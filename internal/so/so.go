// Package so is the signing oracle: it owns the "IdP" keys, builds Response / Assertion / ArtifactResponse /
// LogoutResponse messages (from the library's own structs and Element() builders, then raw etree edits), signs them
// through goxmldsig with any pool key, optionally encrypts assertions with the reference encrypter, and logs exactly
// which serialised elements it ever signed and with which key.
package so

import (
	"bytes"
	"encoding/base64"
	"encoding/json"
	"encoding/xml"
	"fmt"
	mrand "math/rand"
	"time"

	"github.com/beevik/etree"
	"github.com/crewjam/saml"
	dsig "github.com/russellhaering/goxmldsig"

	"verif/internal/fx"
	"verif/internal/refenc"
)

const (
	IDPEntity = "https://idp.example.com/metadata"
	IDPSSO    = "https://idp.example.com/sso"
	IDPSLO    = "https://idp.example.com/slo"
	IDPArt    = "https://idp.example.com/artifact"
	SPRoot    = "https://sp.example.com"
	SPMeta    = "https://sp.example.com/saml/metadata"
	SPACS     = "https://sp.example.com/saml/acs"
	SPSLO     = "https://sp.example.com/saml/slo"

	NSAssertion = "urn:oasis:names:tc:SAML:2.0:assertion"
	NSProtocol  = "urn:oasis:names:tc:SAML:2.0:protocol"
	NSSoap      = "http://schemas.xmlsoap.org/soap/envelope/"

	RSASHA1   = "http://www.w3.org/2000/09/xmldsig#rsa-sha1"
	RSASHA256 = "http://www.w3.org/2001/04/xmldsig-more#rsa-sha256"
	RSASHA384 = "http://www.w3.org/2001/04/xmldsig-more#rsa-sha384"
	RSASHA512 = "http://www.w3.org/2001/04/xmldsig-more#rsa-sha512"
	ECSHA1    = "http://www.w3.org/2001/04/xmldsig-more#ecdsa-sha1"
	ECSHA256  = "http://www.w3.org/2001/04/xmldsig-more#ecdsa-sha256"
	ECSHA384  = "http://www.w3.org/2001/04/xmldsig-more#ecdsa-sha384"
	ECSHA512  = "http://www.w3.org/2001/04/xmldsig-more#ecdsa-sha512"
)

var RSAMethods = []string{RSASHA1, RSASHA256, RSASHA384, RSASHA512}
var ECMethods = []string{ECSHA1, ECSHA256, ECSHA384, ECSHA512}

// SignedRec is one thing the oracle signed.
type SignedRec struct {
	Key   string // pool key name
	Tag   string // element tag
	Bytes []byte // serialised signed element (including the Signature)
}

// Oracle builds and signs messages and remembers what it signed.
type Oracle struct {
	Rng    *mrand.Rand
	Signed []SignedRec
	// Enc maps the serialised EncryptedAssertion the oracle produced to the plaintext assertion bytes inside
	Enc map[string][]byte
	seq int
}

func New(rng *mrand.Rand) *Oracle { return &Oracle{Rng: rng, Enc: map[string][]byte{}} }

func (o *Oracle) Reset() { o.Signed = nil; o.Enc = map[string][]byte{} }

func (o *Oracle) NextID(prefix string) string {
	o.seq++
	return fmt.Sprintf("%s%d-%08x", prefix, o.seq, o.Rng.Uint32())
}

// AssertionSpec parameterises a schema-valid assertion; zero values give a fully valid one for SP "SPMeta/SPACS".
type AssertionSpec struct {
	ID        string
	NameID    string
	RequestID string
	Now       time.Time
	Attrs     [][2]string // name, value
}

// Assertion builds a valid assertion struct (callers may then edit any field).
func (o *Oracle) Assertion(s AssertionSpec) *saml.Assertion {
	if s.ID == "" {
		s.ID = o.NextID("id-a")
	}
	if s.Now.IsZero() {
		s.Now = fx.Now()
	}
	if s.NameID == "" {
		s.NameID = "user-" + s.ID
	}
	attrs := []saml.Attribute{{FriendlyName: "uid", Name: "urn:oid:0.9.2342.19200300.100.1.1", NameFormat: "urn:oasis:names:tc:SAML:2.0:attrname-format:uri", Values: []saml.AttributeValue{{Type: "xs:string", Value: s.NameID}}}}
	for _, a := range s.Attrs {
		attrs = append(attrs, saml.Attribute{Name: a[0], NameFormat: "urn:oasis:names:tc:SAML:2.0:attrname-format:basic", Values: []saml.AttributeValue{{Type: "xs:string", Value: a[1]}}})
	}
	return &saml.Assertion{
		ID:           s.ID,
		IssueInstant: s.Now,
		Version:      "2.0",
		Issuer:       saml.Issuer{Format: "urn:oasis:names:tc:SAML:2.0:nameid-format:entity", Value: IDPEntity},
		Subject: &saml.Subject{
			NameID: &saml.NameID{Format: "urn:oasis:names:tc:SAML:2.0:nameid-format:transient", NameQualifier: IDPEntity, SPNameQualifier: SPMeta, Value: s.NameID},
			SubjectConfirmations: []saml.SubjectConfirmation{{
				Method:                  "urn:oasis:names:tc:SAML:2.0:cm:bearer",
				SubjectConfirmationData: &saml.SubjectConfirmationData{InResponseTo: s.RequestID, NotOnOrAfter: s.Now.Add(60 * time.Second), Recipient: SPACS, Address: "192.0.2.1"},
			}},
		},
		Conditions: &saml.Conditions{
			NotBefore: s.Now.Add(-30 * time.Second), NotOnOrAfter: s.Now.Add(60 * time.Second),
			AudienceRestrictions: []saml.AudienceRestriction{{Audience: saml.Audience{Value: SPMeta}}},
		},
		AuthnStatements: []saml.AuthnStatement{{
			AuthnInstant: s.Now.Add(-time.Minute), SessionIndex: "sess-" + s.ID,
			SubjectLocality: &saml.SubjectLocality{Address: "192.0.2.1"},
			AuthnContext:    saml.AuthnContext{AuthnContextClassRef: &saml.AuthnContextClassRef{Value: "urn:oasis:names:tc:SAML:2.0:ac:classes:PasswordProtectedTransport"}},
		}},
		AttributeStatements: []saml.AttributeStatement{{Attributes: attrs}},
	}
}

// Response builds a valid Response struct without assertion children.
func (o *Oracle) Response(requestID string, now time.Time) *saml.Response {
	if now.IsZero() {
		now = fx.Now()
	}
	return &saml.Response{
		ID: o.NextID("id-r"), InResponseTo: requestID, Version: "2.0", IssueInstant: now, Destination: SPACS,
		Issuer: &saml.Issuer{Format: "urn:oasis:names:tc:SAML:2.0:nameid-format:entity", Value: IDPEntity},
		Status: saml.Status{StatusCode: saml.StatusCode{Value: saml.StatusSuccess}},
	}
}

// ResponseEl renders the response and appends the given assertion / encrypted-assertion elements.
func ResponseEl(r *saml.Response, children ...*etree.Element) *etree.Element {
	el := r.Element()
	for _, c := range children {
		el.AddChild(c)
	}
	return el
}

// Sign signs el (enveloped, exclusive c14n) with the pool key and places the Signature after the Issuer child
// (or first when there is none). The signed element is logged.
func (o *Oracle) Sign(el *etree.Element, kp *fx.KeyPair, method string) (*etree.Element, error) {
	return o.sign(el, kp, method, kp.Cert.Raw, true)
}

// SignWithCert signs with kp's key but embeds another certificate in KeyInfo (not logged as genuine).
func (o *Oracle) SignWithCert(el *etree.Element, kp *fx.KeyPair, method string, certDER []byte) (*etree.Element, error) {
	return o.sign(el, kp, method, certDER, true)
}

// SignWithCerts signs with kp's key and lists several certificates in KeyInfo, in the given order (not logged as genuine
// beyond the key name, like SignWithCert).
func (o *Oracle) SignWithCerts(el *etree.Element, kp *fx.KeyPair, method string, certDERs ...[]byte) (*etree.Element, error) {
	return o.signChain(el, kp, method, certDERs, true)
}

func (o *Oracle) sign(el *etree.Element, kp *fx.KeyPair, method string, certDER []byte, log bool) (*etree.Element, error) {
	return o.signChain(el, kp, method, [][]byte{certDER}, log)
}

func (o *Oracle) signChain(el *etree.Element, kp *fx.KeyPair, method string, certDERs [][]byte, log bool) (*etree.Element, error) {
	if method == "" {
		if kp.IsRSA() {
			method = RSASHA256
		} else {
			method = ECSHA256
		}
	}
	ctx, err := dsig.NewSigningContext(kp.Key, certDERs)
	if err != nil {
		return nil, err
	}
	ctx.Canonicalizer = dsig.MakeC14N10ExclusiveCanonicalizerWithPrefixList("")
	if err := ctx.SetSignatureMethod(method); err != nil {
		return nil, err
	}
	signed, err := ctx.SignEnveloped(el)
	if err != nil {
		return nil, err
	}
	// move the Signature right after Issuer, where the schema wants it
	// (SignEnveloped appends the signature to Child without linking it, so cut it off the slice directly)
	sig := signed.Child[len(signed.Child)-1].(*etree.Element)
	signed.Child = signed.Child[:len(signed.Child)-1]
	pos := 0
	for _, c := range signed.ChildElements() {
		if c.Tag == "Issuer" {
			pos = c.Index() + 1
			break
		}
	}
	signed.InsertChildAt(pos, sig)
	if log {
		o.Signed = append(o.Signed, SignedRec{Key: kp.Name, Tag: signed.Tag, Bytes: Bytes(signed)})
	}
	return signed, nil
}

// Encrypt wraps a (signed or unsigned) assertion element into saml:EncryptedAssertion for the SP certificate using the
// reference encrypter.
func (o *Oracle) Encrypt(assertionEl *etree.Element, spCert *fx.KeyPair, blockAlg, transport, digest string) (*etree.Element, error) {
	return o.EncryptOverlong(assertionEl, spCert, blockAlg, transport, digest, 0)
}

// EncryptOverlong is Encrypt with extraBlocks whole blocks of surplus CBC padding (a malformed cipher value for > 0).
func (o *Oracle) EncryptOverlong(assertionEl *etree.Element, spCert *fx.KeyPair, blockAlg, transport, digest string, extraBlocks int) (*etree.Element, error) {
	if blockAlg == "" {
		blockAlg, transport, digest = refenc.AES128CBC, refenc.OAEPMGF1P, refenc.DigestSHA1
	}
	pt := Bytes(assertionEl)
	ed, _, err := refenc.EncryptOverlong(blockAlg, transport, digest, spCert.Cert, nil, pt, o.Rng, true, extraBlocks)
	if err != nil {
		return nil, err
	}
	ea := etree.NewElement("saml:EncryptedAssertion")
	ea.CreateAttr("xmlns:saml", NSAssertion)
	ea.AddChild(ed)
	o.Enc[string(Bytes(ea))] = pt
	return ea, nil
}

// Bytes serialises an element as a document.
func Bytes(el *etree.Element) []byte {
	doc := etree.NewDocument()
	// carriage returns in text must be written as character references or the next parser turns them into line feeds
	doc.WriteSettings = etree.WriteSettings{CanonicalText: true}
	doc.SetRoot(el.Copy())
	b, err := doc.WriteToBytes()
	if err != nil {
		panic(err)
	}
	return b
}

func Parse(b []byte) (*etree.Element, error) {
	doc := etree.NewDocument()
	if err := doc.ReadFromBytes(b); err != nil {
		return nil, err
	}
	if doc.Root() == nil {
		return nil, fmt.Errorf("no root")
	}
	return doc.Root(), nil
}

// SOAP wraps an ArtifactResponse element into a SOAP envelope.
func SOAP(body *etree.Element) *etree.Element {
	env := etree.NewElement("soapenv:Envelope")
	env.CreateAttr("xmlns:soapenv", NSSoap)
	b := env.CreateElement("soapenv:Body")
	b.AddChild(body)
	return env
}

// ArtifactResponseEl builds an ArtifactResponse element around a response element.
func (o *Oracle) ArtifactResponseEl(inResponseTo string, now time.Time, responseEl *etree.Element) *etree.Element {
	if now.IsZero() {
		now = fx.Now()
	}
	el := etree.NewElement("samlp:ArtifactResponse")
	el.CreateAttr("xmlns:saml", NSAssertion)
	el.CreateAttr("xmlns:samlp", NSProtocol)
	el.CreateAttr("xmlns:xs", "http://www.w3.org/2001/XMLSchema")
	el.CreateAttr("ID", o.NextID("id-ar"))
	if inResponseTo != "" {
		el.CreateAttr("InResponseTo", inResponseTo)
	}
	el.CreateAttr("Version", "2.0")
	el.CreateAttr("IssueInstant", now.UTC().Format("2006-01-02T15:04:05.999Z07:00"))
	iss := el.CreateElement("saml:Issuer")
	iss.SetText(IDPEntity)
	st := el.CreateElement("samlp:Status")
	st.CreateElement("samlp:StatusCode").CreateAttr("Value", saml.StatusSuccess)
	if responseEl != nil {
		el.AddChild(responseEl)
	}
	return el
}

// Projection is the identity-bearing content of an assertion as canonical JSON.
func Projection(a *saml.Assertion) string {
	cp := *a
	cp.Signature = nil
	cp.XMLName = xml.Name{}
	b, err := json.Marshal(&cp)
	if err != nil {
		return "unprojectable:" + err.Error()
	}
	return string(b)
}

// ProjectBytes parses serialised assertion bytes the way the SP does and projects them.
func ProjectBytes(b []byte) (string, error) {
	var a saml.Assertion
	if err := xml.Unmarshal(b, &a); err != nil {
		return "", err
	}
	return Projection(&a), nil
}

// Genuine computes, from the log of signed elements, the set of assertion projections covered by a signature of one
// of the trusted keys: signed assertions themselves, and assertions that are direct children of a signed Response
// (also inside a signed ArtifactResponse); for EncryptedAssertions the plaintext the oracle itself encrypted.
func (o *Oracle) Genuine(trusted map[string]bool) map[string]bool {
	out := map[string]bool{}
	var fromResponse func(resp *etree.Element)
	addAssertion := func(el *etree.Element) {
		if p, err := ProjectBytes(Bytes(el)); err == nil {
			out[p] = true
		}
	}
	fromResponse = func(resp *etree.Element) {
		for _, c := range resp.ChildElements() {
			switch {
			case c.Tag == "Assertion" && c.NamespaceURI() == NSAssertion:
				addAssertion(c)
			case c.Tag == "EncryptedAssertion" && c.NamespaceURI() == NSAssertion:
				// match by cipher value: find the oracle's record with the same ciphertext
				for k, pt := range o.Enc {
					if sameCipher(k, c) {
						if p, err := ProjectBytes(pt); err == nil {
							out[p] = true
						}
					}
				}
			}
		}
	}
	for _, r := range o.Signed {
		if !trusted[r.Key] {
			continue
		}
		el, err := Parse(r.Bytes)
		if err != nil {
			continue
		}
		switch el.Tag {
		case "Assertion":
			addAssertion(el)
		case "Response":
			fromResponse(el)
		case "ArtifactResponse":
			for _, c := range el.ChildElements() {
				if c.Tag == "Response" && c.NamespaceURI() == NSProtocol {
					fromResponse(c)
				}
			}
		}
	}
	return out
}

func sameCipher(recorded string, ea *etree.Element) bool {
	rel, err := Parse([]byte(recorded))
	if err != nil {
		return false
	}
	a := rel.FindElement("./EncryptedData/CipherData/CipherValue")
	b := ea.FindElement("./EncryptedData/CipherData/CipherValue")
	if a == nil || b == nil {
		return false
	}
	return a.Text() == b.Text() && bytes.Equal([]byte(a.Text()), []byte(b.Text()))
}

// ---- service provider and trust configurations ----

type Trust struct {
	Name  string
	Roots []string // pool key names whose signatures must be accepted
}

var Trusts = []Trust{
	{"meta-one-signing", []string{"idp_s1"}},
	{"meta-two-signing", []string{"idp_s1", "idp_s2"}},
	{"meta-signing+encryption", []string{"idp_s1"}},
	{"meta-use-omitted+encryption", []string{"idp_s1"}},
	{"pinned-certificate", []string{"idp_s1"}},
	{"fingerprint-sha256", []string{"idp_s1"}},
	{"fingerprint-sha512", []string{"idp_s1"}},
}

func kd(use string, names ...string) saml.KeyDescriptor {
	k := saml.KeyDescriptor{Use: use}
	for _, n := range names {
		k.KeyInfo.X509Data.X509Certificates = append(k.KeyInfo.X509Data.X509Certificates, saml.X509Certificate{Data: fx.K(n).CertB64()})
	}
	return k
}

// IDPMetadata builds the IdP metadata for a trust configuration.
func IDPMetadata(trust string) *saml.EntityDescriptor {
	var kds []saml.KeyDescriptor
	switch trust {
	case "meta-one-signing":
		kds = []saml.KeyDescriptor{kd("signing", "idp_s1")}
	case "meta-two-signing":
		kds = []saml.KeyDescriptor{kd("signing", "idp_s1"), kd("signing", "idp_s2")}
	case "meta-signing+encryption":
		kds = []saml.KeyDescriptor{kd("encryption", "idp_e"), kd("signing", "idp_s1")}
	case "meta-use-omitted+encryption":
		kds = []saml.KeyDescriptor{kd("", "idp_s1"), kd("encryption", "idp_e")}
	case "pinned-certificate":
		kds = []saml.KeyDescriptor{kd("signing", "idp_s2"), kd("encryption", "idp_e")} // must be ignored in favour of the pinned certificate
	case "fingerprint-sha256", "fingerprint-sha512":
		kds = []saml.KeyDescriptor{kd("signing", "idp_s2")} // ignored: the fingerprint decides
	default:
		panic("unknown trust " + trust)
	}
	return &saml.EntityDescriptor{
		EntityID: IDPEntity,
		IDPSSODescriptors: []saml.IDPSSODescriptor{{
			SSODescriptor: saml.SSODescriptor{
				RoleDescriptor:       saml.RoleDescriptor{ProtocolSupportEnumeration: NSProtocol, KeyDescriptors: kds},
				SingleLogoutServices: []saml.Endpoint{{Binding: saml.HTTPRedirectBinding, Location: IDPSLO}, {Binding: saml.HTTPPostBinding, Location: IDPSLO}},
			},
			SingleSignOnServices:       []saml.Endpoint{{Binding: saml.HTTPRedirectBinding, Location: IDPSSO}, {Binding: saml.HTTPPostBinding, Location: IDPSSO}},
			ArtifactResolutionServices: []saml.Endpoint{{Binding: saml.SOAPBinding, Location: IDPArt}},
		}},
	}
}

// NewSP builds a service provider for a trust configuration.
func NewSP(trust string, spKey *fx.KeyPair) *saml.ServiceProvider {
	sp := &saml.ServiceProvider{
		Key: spKey.Key, Certificate: spKey.Cert,
		MetadataURL: mustURL(SPMeta), AcsURL: mustURL(SPACS), SloURL: mustURL(SPSLO),
		IDPMetadata: IDPMetadata(trust),
	}
	s1 := fx.K("idp_s1")
	switch trust {
	case "pinned-certificate":
		c := s1.CertB64()
		sp.IDPCertificate = &c
	case "fingerprint-sha256":
		fp, alg := Fingerprint(s1.Cert.Raw, "sha256")
		sp.IDPCertificateFingerprint, sp.IDPCertificateFingerprintAlgorithm = &fp, &alg
	case "fingerprint-sha512":
		fp, alg := Fingerprint(s1.Cert.Raw, "sha512")
		sp.IDPCertificateFingerprint, sp.IDPCertificateFingerprintAlgorithm = &fp, &alg
	}
	return sp
}

// B64 is base64 std encoding.
func B64(b []byte) string { return base64.StdEncoding.EncodeToString(b) }
