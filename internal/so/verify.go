package so

import (
	"bytes"
	"crypto"
	"crypto/ecdsa"
	"crypto/rsa"
	"crypto/sha1"
	"crypto/sha256"
	"crypto/sha512"
	"crypto/x509"
	"encoding/base64"
	"errors"
	"fmt"
	"hash"
	"strings"

	"github.com/beevik/etree"
	dsig "github.com/russellhaering/goxmldsig"
	"github.com/russellhaering/goxmldsig/etreeutils"

	"verif/internal/fx"
)

const NSDsig = "http://www.w3.org/2000/09/xmldsig#"

func methodHash(uri string) (crypto.Hash, func() hash.Hash, bool) {
	switch uri {
	case RSASHA1, ECSHA1:
		return crypto.SHA1, sha1.New, true
	case RSASHA256, ECSHA256:
		return crypto.SHA256, sha256.New, true
	case RSASHA384, ECSHA384:
		return crypto.SHA384, sha512.New384, true
	case RSASHA512, ECSHA512:
		return crypto.SHA512, sha512.New, true
	}
	return 0, nil, false
}

func digestHash(uri string) (func() hash.Hash, bool) {
	switch uri {
	case "http://www.w3.org/2000/09/xmldsig#sha1":
		return sha1.New, true
	case "http://www.w3.org/2001/04/xmlenc#sha256":
		return sha256.New, true
	case "http://www.w3.org/2001/04/xmldsig-more#sha384":
		return sha512.New384, true
	case "http://www.w3.org/2001/04/xmlenc#sha512":
		return sha512.New, true
	}
	return nil, false
}

func dsChild(el *etree.Element, tag string) *etree.Element {
	for _, c := range el.ChildElements() {
		if c.Tag == tag && c.NamespaceURI() == NSDsig {
			return c
		}
	}
	return nil
}

// VerifyEnveloped checks that el carries exactly one first-level enveloped ds:Signature that verifies under cert:
// (1) with a fresh goxmldsig validation context rooted only in cert, (2) by recomputing the reference digest and the
// SignedInfo signature directly with crypto/*, checking that SignatureMethod equals wantMethod (when non-empty).
func VerifyEnveloped(el *etree.Element, cert *x509.Certificate, wantMethod string) error {
	// work on a standalone copy re-parsed from text (what a receiver sees)
	root, err := Parse(Bytes(el))
	if err != nil {
		return err
	}
	var sigs []*etree.Element
	for _, c := range root.ChildElements() {
		if c.Tag == "Signature" && c.NamespaceURI() == NSDsig {
			sigs = append(sigs, c)
		}
	}
	if len(sigs) != 1 {
		return fmt.Errorf("expected exactly one first-level ds:Signature, found %d", len(sigs))
	}
	sig := sigs[0]
	// (1) goxmldsig
	vc := dsig.NewDefaultValidationContext(&dsig.MemoryX509CertificateStore{Roots: []*x509.Certificate{cert}})
	vc.IdAttribute = "ID"
	vc.Clock = dsig.NewFakeClockAt(fx.Now())
	if _, err := vc.Validate(root.Copy()); err != nil {
		return fmt.Errorf("goxmldsig validation under the published certificate failed: %v", err)
	}
	// (2) direct
	si := dsChild(sig, "SignedInfo")
	sv := dsChild(sig, "SignatureValue")
	if si == nil || sv == nil {
		return errors.New("SignedInfo or SignatureValue missing")
	}
	sm := dsChild(si, "SignatureMethod")
	cm := dsChild(si, "CanonicalizationMethod")
	if sm == nil || cm == nil {
		return errors.New("SignatureMethod or CanonicalizationMethod missing")
	}
	method := sm.SelectAttrValue("Algorithm", "")
	if wantMethod != "" && method != wantMethod {
		return fmt.Errorf("SignatureMethod is %q, configured %q", method, wantMethod)
	}
	ch, newHash, ok := methodHash(method)
	if !ok {
		return fmt.Errorf("unknown signature method %q", method)
	}
	if cm.SelectAttrValue("Algorithm", "") != "http://www.w3.org/2001/10/xml-exc-c14n#" {
		return fmt.Errorf("unexpected canonicalization %q", cm.SelectAttrValue("Algorithm", ""))
	}
	refs := 0
	var ref *etree.Element
	for _, c := range si.ChildElements() {
		if c.Tag == "Reference" && c.NamespaceURI() == NSDsig {
			refs++
			ref = c
		}
	}
	if refs != 1 {
		return fmt.Errorf("expected one Reference, found %d", refs)
	}
	id := root.SelectAttrValue("ID", "")
	if id == "" || ref.SelectAttrValue("URI", "") != "#"+id {
		return fmt.Errorf("Reference URI %q does not point at the element ID %q", ref.SelectAttrValue("URI", ""), id)
	}
	dm := dsChild(ref, "DigestMethod")
	dv := dsChild(ref, "DigestValue")
	if dm == nil || dv == nil {
		return errors.New("DigestMethod or DigestValue missing")
	}
	dh, ok := digestHash(dm.SelectAttrValue("Algorithm", ""))
	if !ok {
		return fmt.Errorf("unknown digest method %q", dm.SelectAttrValue("Algorithm", ""))
	}
	// digest over the element without the signature, exclusive c14n
	noSig := root.Copy()
	for _, c := range noSig.ChildElements() {
		if c.Tag == "Signature" && c.NamespaceURI() == NSDsig {
			noSig.RemoveChild(c)
		}
	}
	canon, err := dsig.MakeC14N10ExclusiveCanonicalizerWithPrefixList("").Canonicalize(noSig)
	if err != nil {
		return err
	}
	h := dh()
	h.Write(canon)
	wantDigest, err := base64.StdEncoding.DecodeString(strings.TrimSpace(dv.Text()))
	if err != nil {
		return err
	}
	if !bytes.Equal(h.Sum(nil), wantDigest) {
		return errors.New("DigestValue does not match the emitted element")
	}
	// signature over canonical SignedInfo (detached with its namespace context)
	ctx, err := etreeutils.NSBuildParentContext(si)
	if err != nil {
		return err
	}
	ctx, err = ctx.SubContext(si)
	if err != nil {
		return err
	}
	siDet, err := etreeutils.NSDetatch(ctx, si)
	if err != nil {
		return err
	}
	siCanon, err := dsig.MakeC14N10ExclusiveCanonicalizerWithPrefixList("").Canonicalize(siDet)
	if err != nil {
		return err
	}
	hh := newHash()
	hh.Write(siCanon)
	sum := hh.Sum(nil)
	sigBytes, err := base64.StdEncoding.DecodeString(strings.Join(strings.Fields(sv.Text()), ""))
	if err != nil {
		return err
	}
	switch pub := cert.PublicKey.(type) {
	case *rsa.PublicKey:
		if !strings.Contains(method, "rsa-") {
			return fmt.Errorf("signature method %q with an RSA certificate", method)
		}
		if err := rsa.VerifyPKCS1v15(pub, ch, sum, sigBytes); err != nil {
			return fmt.Errorf("SignatureValue does not verify over SignedInfo with crypto/rsa: %v", err)
		}
	case *ecdsa.PublicKey:
		if !strings.Contains(method, "ecdsa-") {
			return fmt.Errorf("signature method %q with an ECDSA certificate", method)
		}
		if !ecdsa.VerifyASN1(pub, sum, sigBytes) {
			return errors.New("SignatureValue does not verify over SignedInfo with crypto/ecdsa")
		}
	default:
		return errors.New("unsupported certificate key type")
	}
	return nil
}
