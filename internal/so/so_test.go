package so

import (
	"math/rand"
	"net/url"
	"testing"

	"github.com/crewjam/saml"

	"verif/internal/fx"
)

func TestBaseline(t *testing.T) {
	fx.SetNow(fx.Epoch)
	o := New(rand.New(rand.NewSource(1)))
	for _, tr := range Trusts {
		sp := NewSP(tr.Name, fx.K("sp_rsa2048"))
		for _, layout := range []string{"resp", "assertion", "both"} {
			for _, enc := range []bool{false, true} {
				a := o.Assertion(AssertionSpec{RequestID: "req1"})
				ael := a.Element()
				var err error
				if layout != "resp" {
					ael, err = o.Sign(ael, fx.K("idp_s1"), "")
					if err != nil {
						t.Fatal(err)
					}
				}
				if enc {
					ael, err = o.Encrypt(ael, fx.K("sp_rsa2048"), "", "", "")
					if err != nil {
						t.Fatal(err)
					}
				}
				rel := ResponseEl(o.Response("req1", fx.Now()), ael)
				if layout != "assertion" {
					rel, err = o.Sign(rel, fx.K("idp_s1"), "")
					if err != nil {
						t.Fatal(err)
					}
				}
				u, _ := url.Parse(SPACS)
				got, err := sp.ParseXMLResponse(Bytes(rel), []string{"req1"}, *u)
				if err != nil {
					t.Errorf("%s %s enc=%v: %v", tr.Name, layout, enc, err.(*saml.InvalidResponseError).PrivateErr)
					continue
				}
				g := o.Genuine(map[string]bool{"idp_s1": true})
				if !g[Projection(got)] {
					t.Errorf("%s %s enc=%v: projection not genuine", tr.Name, layout, enc)
				}
			}
		}
	}
}
