package so

import (
	"encoding/base64"
	"errors"
	"fmt"

	"github.com/beevik/etree"

	"verif/internal/fx"
	"verif/internal/htmlmon"
	"verif/internal/refenc"
)

// Emitted is a decoded IdP reply.
type Emitted struct {
	Page        *htmlmon.Page
	Form        *htmlmon.Form
	Action      string
	RelayState  string
	B64         string
	ResponseXML []byte
	Response    *etree.Element
	// Assertions found as direct children (clear) and decrypted from EncryptedAssertion children
	ClearAssertions     []*etree.Element
	EncryptedAssertions []*etree.Element
	Decrypted           []*etree.Element
	DecryptedBytes      [][]byte
	DecryptErr          error
}

// DecodeReply parses the HTML written by the IdP and extracts the SAMLResponse form. Returns (nil, nil) when the page
// contains no SAMLResponse form.
func DecodeReply(body []byte, spKey *fx.KeyPair) (*Emitted, error) {
	page, err := htmlmon.Parse(body)
	if err != nil {
		return nil, err
	}
	e := &Emitted{Page: page}
	for i := range page.Forms {
		f := &page.Forms[i]
		for _, in := range f.Inputs {
			if in.Attrs["name"] == "SAMLResponse" {
				if e.Form != nil {
					return nil, errors.New("more than one SAMLResponse input")
				}
				e.Form = f
				e.B64 = in.Attrs["value"]
			}
		}
	}
	if e.Form == nil {
		return nil, nil
	}
	for _, in := range e.Form.Inputs {
		if in.Attrs["name"] == "RelayState" {
			e.RelayState = in.Attrs["value"]
		}
	}
	e.Action = e.Form.Attrs["action"]
	e.ResponseXML, err = base64.StdEncoding.DecodeString(e.B64)
	if err != nil {
		return e, fmt.Errorf("SAMLResponse is not base64: %v", err)
	}
	e.Response, err = Parse(e.ResponseXML)
	if err != nil {
		return e, fmt.Errorf("SAMLResponse is not XML: %v", err)
	}
	for _, c := range e.Response.ChildElements() {
		switch {
		case c.Tag == "Assertion" && c.NamespaceURI() == NSAssertion:
			e.ClearAssertions = append(e.ClearAssertions, c)
		case c.Tag == "EncryptedAssertion" && c.NamespaceURI() == NSAssertion:
			e.EncryptedAssertions = append(e.EncryptedAssertions, c)
			if spKey != nil && spKey.RSA() != nil {
				var ed *etree.Element
				for _, cc := range c.ChildElements() {
					if cc.Tag == "EncryptedData" {
						ed = cc
					}
				}
				if ed == nil {
					e.DecryptErr = errors.New("EncryptedAssertion without EncryptedData")
					continue
				}
				pt, err := refenc.Decrypt(spKey.RSA(), ed)
				if err != nil {
					e.DecryptErr = err
					continue
				}
				a, err := Parse(pt)
				if err != nil {
					e.DecryptErr = fmt.Errorf("decrypted plaintext is not XML: %v", err)
					continue
				}
				e.Decrypted = append(e.Decrypted, a)
				e.DecryptedBytes = append(e.DecryptedBytes, pt)
			}
		}
	}
	return e, nil
}
