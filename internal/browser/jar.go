// Package browser is a small browser model: a cookie jar with a virtual clock (name/domain/path keys, Secure and
// HttpOnly flags, expiry from Max-Age / Expires) used to drive and to attack the middleware.
package browser

import (
	"net/http"
	"net/url"
	"sort"
	"strings"
	"time"
)

type Cookie struct {
	Name, Value, Domain, Path string
	Secure, HttpOnly          bool
	Expires                   time.Time // zero = session cookie
	SetAt                     time.Time
	Raw                       *http.Cookie
}

type Jar struct {
	cookies map[string]*Cookie // key: name|domain|path
}

func NewJar() *Jar { return &Jar{cookies: map[string]*Cookie{}} }

func key(c *Cookie) string { return c.Name + "|" + c.Domain + "|" + c.Path }

// Update applies the Set-Cookie headers of a response received from u at virtual time now.
func (j *Jar) Update(u *url.URL, resp *http.Response, now time.Time) {
	for _, sc := range resp.Cookies() {
		c := &Cookie{Name: sc.Name, Value: sc.Value, Domain: sc.Domain, Path: sc.Path, Secure: sc.Secure, HttpOnly: sc.HttpOnly, SetAt: now, Raw: sc}
		if c.Domain == "" {
			c.Domain = u.Hostname()
		}
		if c.Path == "" {
			c.Path = "/"
		}
		switch {
		case sc.MaxAge < 0:
			delete(j.cookies, key(c))
			continue
		case sc.MaxAge > 0:
			c.Expires = now.Add(time.Duration(sc.MaxAge) * time.Second)
		case !sc.Expires.IsZero():
			c.Expires = sc.Expires
		}
		if !c.Expires.IsZero() && !c.Expires.After(now) {
			delete(j.cookies, key(c))
			continue
		}
		j.cookies[key(c)] = c
	}
}

// For returns the cookies a browser would send to u at virtual time now.
func (j *Jar) For(u *url.URL, now time.Time) []*Cookie {
	var out []*Cookie
	for k, c := range j.cookies {
		if !c.Expires.IsZero() && !c.Expires.After(now) {
			delete(j.cookies, k)
			continue
		}
		if c.Secure && u.Scheme != "https" {
			continue
		}
		host := u.Hostname()
		if !(host == c.Domain || strings.HasSuffix(host, "."+strings.TrimPrefix(c.Domain, "."))) {
			continue
		}
		p := u.Path
		if p == "" {
			p = "/"
		}
		if !(p == c.Path || strings.HasPrefix(p, strings.TrimSuffix(c.Path, "/")+"/") || c.Path == "/") {
			continue
		}
		out = append(out, c)
	}
	sort.Slice(out, func(a, b int) bool { return out[a].Name < out[b].Name })
	return out
}

// Get returns a live cookie by name (any domain/path).
func (j *Jar) Get(name string, now time.Time) *Cookie {
	for _, c := range j.cookies {
		if c.Name == name && (c.Expires.IsZero() || c.Expires.After(now)) {
			return c
		}
	}
	return nil
}

func (j *Jar) Len() int { return len(j.cookies) }

// Header renders a Cookie request header.
func Header(cs []*Cookie) string {
	var parts []string
	for _, c := range cs {
		parts = append(parts, c.Name+"="+c.Value)
	}
	return strings.Join(parts, "; ")
}
