// Package htmlmon parses emitted HTML pages with golang.org/x/net/html (an HTML5 tokenizer and tree builder that is
// independent of html/template) and reports the forms, inputs, scripts and every other element and attribute.
package htmlmon

import (
	"bytes"
	"fmt"
	"sort"
	"strings"

	"golang.org/x/net/html"
)

type Input struct {
	Attrs map[string]string
}

type Form struct {
	Attrs  map[string]string
	Inputs []Input
	// Other elements found inside the form besides input
	Other []string
}

type Page struct {
	Forms   []Form
	Scripts []string // text content of script elements
	// Elements is the multiset of element names in the body (outside html/head/body scaffolding)
	Elements map[string]int
	// AttrNames lists "element@attribute" pairs seen anywhere
	AttrNames map[string]int
	// Text is the concatenated text outside script/style
	Text string
	// ScriptSrc etc: attributes of script elements
	ScriptAttrs []map[string]string
}

func attrs(n *html.Node) map[string]string {
	m := map[string]string{}
	for _, a := range n.Attr {
		k := a.Key
		if a.Namespace != "" {
			k = a.Namespace + ":" + k
		}
		if _, dup := m[k]; dup {
			m[k+"#dup"] = a.Val
			continue
		}
		m[k] = a.Val
	}
	return m
}

// Parse parses a page the way a browser's HTML5 parser would.
func Parse(b []byte) (*Page, error) {
	doc, err := html.Parse(bytes.NewReader(b))
	if err != nil {
		return nil, err
	}
	p := &Page{Elements: map[string]int{}, AttrNames: map[string]int{}}
	var text strings.Builder
	var walk func(n *html.Node, form *Form, inScript bool)
	walk = func(n *html.Node, form *Form, inScript bool) {
		switch n.Type {
		case html.ElementNode:
			name := n.Data
			p.Elements[name]++
			for _, a := range n.Attr {
				p.AttrNames[name+"@"+a.Key]++
			}
			switch name {
			case "form":
				p.Forms = append(p.Forms, Form{Attrs: attrs(n)})
				form = &p.Forms[len(p.Forms)-1]
			case "input":
				if form != nil {
					form.Inputs = append(form.Inputs, Input{Attrs: attrs(n)})
				}
			case "script":
				var sb strings.Builder
				for c := n.FirstChild; c != nil; c = c.NextSibling {
					if c.Type == html.TextNode {
						sb.WriteString(c.Data)
					}
				}
				p.Scripts = append(p.Scripts, sb.String())
				p.ScriptAttrs = append(p.ScriptAttrs, attrs(n))
				inScript = true
			default:
				if form != nil && name != "form" {
					form.Other = append(form.Other, name)
				}
			}
		case html.TextNode:
			if !inScript {
				text.WriteString(n.Data)
			}
		}
		for c := n.FirstChild; c != nil; c = c.NextSibling {
			// a form's descendants belong to it; x/net/html keeps them as children
			walk(c, form, inScript)
		}
	}
	walk(doc, nil, false)
	p.Text = text.String()
	return p, nil
}

// Shape summarises the page structure as a deterministic string: element counts (minus scaffolding) and attribute names.
func (p *Page) Shape() string {
	var parts []string
	for k, v := range p.Elements {
		if k == "html" || k == "head" || k == "body" {
			continue
		}
		parts = append(parts, fmt.Sprintf("%s*%d", k, v))
	}
	sort.Strings(parts)
	var an []string
	for k, v := range p.AttrNames {
		an = append(an, fmt.Sprintf("%s*%d", k, v))
	}
	sort.Strings(an)
	return strings.Join(parts, " ") + " | " + strings.Join(an, " ")
}

// BrowserScheme extracts the scheme a browser would see in a URL attribute value: strip leading/trailing C0 control
// and space, drop TAB/LF/CR anywhere, take everything up to the first ':' if it forms a valid scheme, lower-cased.
func BrowserScheme(u string) string {
	u = strings.TrimFunc(u, func(r rune) bool { return r <= 0x20 })
	u = strings.Map(func(r rune) rune {
		if r == '\t' || r == '\n' || r == '\r' {
			return -1
		}
		return r
	}, u)
	i := strings.IndexByte(u, ':')
	if i <= 0 {
		return ""
	}
	s := u[:i]
	for j, r := range s {
		ok := r >= 'a' && r <= 'z' || r >= 'A' && r <= 'Z' || (j > 0 && (r >= '0' && r <= '9' || r == '+' || r == '-' || r == '.'))
		if !ok {
			return ""
		}
	}
	return strings.ToLower(s)
}
