#!/bin/bash
# setup.sh : offline build of the monitor binaries (warms the Go build cache, including the -race std build).
set -eu
cd "$(dirname "$0")"
export GOFLAGS=-mod=mod GOPROXY=off GOSUMDB=off GOTOOLCHAIN=local
mkdir -p bin work evidence replays
cp -f /repo/go.sum go.sum
go build -tags verif -o bin/vcheck ./cmd/vcheck
go build -race -tags verif -o bin/vcheck.race ./cmd/vcheck
echo setup ok
