//go:build verif

package props

import (
	"fmt"
	"net/http"
	"net/http/httptest"
	"net/url"
	"strings"
	"time"

	"github.com/crewjam/saml"
	"github.com/crewjam/saml/samlsp"

	"verif/internal/browser"
	"verif/internal/core"
	"verif/internal/fx"
	"verif/internal/htmlmon"
	"verif/internal/so"
)

// C17 — middleware login completes only in the browser that started it, at its URL.

func init() {
	core.RegisterSpec(&core.Spec{
		ID:    "C17",
		Level: "exploration",
		Rule: "histories over {start flow k at URL u_k, IdP answers flow k for user x (also unsolicited answers without InResponseTo), deliver response k with cookie selection {full jar, none, only another flow's cookie, cookie renamed to another index, values swapped between flows, tampered, session token planted as tracking cookie, tracking cookie of another deployment, saved copy of the authentic cookie} and RelayState {faithful, other flow's index, absent, arbitrary URL, garbage, session subject}, replay, advance the virtual clock (under / past the tracking lifetime, past the session lifetime), request a protected page} " +
			"for up to 3 concurrent flows; deployments: http/https root, redirect/POST request binding, default/custom RelayStateFunc, RSA/ECDSA keys. quick: seeded random histories (length <= 30) plus all faithful interleavings of up to 3 flows; thorough: many more. " +
			"An online monitor judges every ACS reply: session cookie set => authentic unexpired tracking cookie of the answered flow was presented (I1), 302 to the URL recorded in the authentic cookie named by RelayState or the default when absent (I2), that cookie cleared (I3), cookie flags (I4), refusals are 403 without session cookie (I5), faithful deliveries inside the lifetimes complete at their own URL and the session then admits the protected page with the user's attributes (I6). Non-trivial = history with >=1 delivery that reached assertion validation; distinct by history action string.",
		Assumptions: []string{"IdP answers are produced by the signing oracle (library IdP<->SP interplay is C07's subject) so that a fresh answer can be given to an old request", "instants within 1 s of a lifetime boundary are not judged"},
		FloorQuick:  350,
		FloorThor:   1500,
		Run:         runC17,
		LevelText:   "A browser model, an adversarial deliverer and a ledger of minted tracking cookies drive multi-flow histories through the real middleware; every reply is judged online against invariants I1-I6 computed from the ledger (not from the middleware's own decoding). Held-on-observed.",
		LevelNote:   "Trusts net/http cookie parsing, the browser jar model and x/net/html for reading POST-binding pages.",
		Technique:   "runtime monitoring: online trace checker over browser/middleware event histories with an adversarial cookie jar",
		DesignRef:   "DESIGN.md §5 C17",
	})
}

type c17Flow struct {
	k           int
	url         string
	index       string
	reqID       string
	cookieName  string
	cookieValue string
	startedAt   time.Time
	answered    bool
	user        string
	answerAt    time.Time
	respB64     string
	completed   bool
}

type c17World struct {
	shapeSeed int
	defURI    string // configured DefaultRedirectURI as the middleware will use it ("/" when unset)
	tokName   string // session cookie name
	c         *core.Ctx
	cfg       string
	root      string
	m         *samlsp.Middleware
	other     *samlsp.Middleware
	jar       *browser.Jar
	flows     []*c17Flow
	now       time.Time
	o         *so.Oracle
	hist      []string
	rsCount   int
	lastDel   *c17Delivery
	sessUser  string // user of the session currently in the main jar ("" none)
	sessAt    time.Time
	reached   bool
	dead      bool
	unsol     []*c17Flow
}

type c17Delivery struct {
	flow    *c17Flow
	cookies string
	relay   string
	hasRS   bool
	main    bool
	desc    string
}

func c17NewWorld(c *core.Ctx, https bool, post bool, customRS bool, key string) *c17World {
	w := &c17World{c: c, jar: browser.NewJar(), now: fx.Epoch.Add(time.Duration(c.Rng.Intn(10000)) * time.Second), o: so.New(c.Rng), shapeSeed: c.Rng.Intn(7)}
	w.root = "http://sp.example.com"
	if https {
		w.root = "https://sp.example.com"
	}
	w.cfg = fmt.Sprintf("https=%v post=%v customRS=%v key=%s", https, post, customRS, key)
	kp := fx.K(key)
	opts := samlsp.Options{URL: mustURL(w.root), Key: kp.Key, Certificate: kp.Cert, IDPMetadata: so.IDPMetadata("meta-one-signing")}
	// deployment options that must not matter to who gets a session, but decide where a flow without RelayState ends
	w.defURI, w.tokName = "/", "token"
	if d := []string{"", "", "/home", "/app/start?x=1&y=%2F"}[c.Rng.Intn(4)]; d != "" {
		opts.DefaultRedirectURI, w.defURI = d, d
	}
	if c.Rng.Intn(3) == 0 {
		opts.CookieName, w.tokName = "sess-c17", "sess-c17"
	}
	opts.SignRequest = c.Rng.Intn(3) == 0
	opts.CookieSameSite = []http.SameSite{0, http.SameSiteLaxMode, http.SameSiteNoneMode}[c.Rng.Intn(3)]
	w.cfg += fmt.Sprintf(" default=%q cookie=%s signreq=%v samesite=%d", opts.DefaultRedirectURI, w.tokName, opts.SignRequest, opts.CookieSameSite)
	if customRS {
		opts.RelayStateFunc = func(http.ResponseWriter, *http.Request) string {
			w.rsCount++
			if w.rsCount%4 == 0 {
				return "" // fall back to the random index
			}
			return fmt.Sprintf("custom-rs-%d", w.rsCount)
		}
	}
	fx.SetNow(w.now)
	m, err := samlsp.New(opts)
	if err != nil {
		panic(err)
	}
	if post {
		m.Binding = saml.HTTPPostBinding
	}
	w.m = m
	ok := fx.K("sp2_rsa2048")
	if !kp.IsRSA() {
		ok = fx.K("sp_p384")
	}
	w.other, _ = samlsp.New(samlsp.Options{URL: mustURL(w.root), Key: ok.Key, Certificate: ok.Cert, IDPMetadata: so.IDPMetadata("meta-one-signing")})
	return w
}

func (w *c17World) log(format string, a ...any) {
	w.hist = append(w.hist, fmt.Sprintf(format, a...))
}

func (w *c17World) violation(key, msg string, extra map[string]any) {
	r := map[string]any{"config": w.cfg, "history": w.hist}
	for k, v := range extra {
		r[k] = v
	}
	w.c.Violation("C17/"+key, msg+" [config "+w.cfg+"; history: "+truncate(strings.Join(w.hist, " ; "), 700)+"]", r)
	w.dead = true
}

func (w *c17World) protectedHandler() (http.Handler, *c16Seen) {
	seen := &c16Seen{}
	app := http.HandlerFunc(func(rw http.ResponseWriter, r *http.Request) {
		seen.ran = true
		if s := samlsp.SessionFromContext(r.Context()); s != nil {
			if jc, ok := s.(samlsp.JWTSessionClaims); ok {
				seen.subject = jc.Subject
				seen.attrs = map[string][]string(jc.GetAttributes())
			}
		}
		rw.WriteHeader(200)
	})
	return w.m.RequireAccount(app), seen
}

// start a flow: unauthenticated GET of a protected page.
func (w *c17World) start() {
	k := len(w.flows)
	// the URL the browser asked for, in several spellings whose decoded path means something else (a second slash, a
	// question mark, a fragment sign inside the path): it has to come back exactly as asked
	shapes := []string{"/page%d?flow=%d&x=a%%20b", "/page%d?flow=%d&x=a%%20b", "/%%2Fevil.example/p%d?flow=%d", "/a%%3Fb/p%d?flow=%d", "/p%d%%23frag?flow=%d&u=https%%3A%%2F%%2Fevil.example%%2F", "/d%d/..%%2Fx;param?flow=%d", "/only-path-%d-%d"}
	fl := &c17Flow{k: k, url: fmt.Sprintf(shapes[w.urlShape(k)], k, k), startedAt: w.now}
	fx.SetNow(w.now)
	u := mustURL(w.root + fl.url)
	req := httptest.NewRequest("GET", fl.url, nil)
	req.Host = u.Host
	// a fresh browser tab without session: send only tracking cookies (not the session cookie), as the flow start must be unauthenticated
	var cs []*browser.Cookie
	for _, ck := range w.jar.For(&u, w.now) {
		if ck.Name != w.tokName {
			cs = append(cs, ck)
		}
	}
	if h := browser.Header(cs); h != "" {
		req.Header.Set("Cookie", h)
	}
	h, seen := w.protectedHandler()
	rec := httptest.NewRecorder()
	h.ServeHTTP(rec, req)
	resp := rec.Result()
	w.log("start(%d)", k)
	if seen.ran {
		w.violation("flow-start/handler-ran-unauthenticated", "protected handler ran without a session", nil)
		return
	}
	// locate the tracking cookie and the request
	var tracking []*http.Cookie
	for _, sc := range resp.Cookies() {
		if strings.HasPrefix(sc.Name, "saml_") {
			tracking = append(tracking, sc)
		}
	}
	if len(tracking) != 1 {
		w.violation("flow-start/tracking-cookie-count", fmt.Sprintf("%d tracking cookies set at flow start (status %d)", len(tracking), rec.Code), nil)
		return
	}
	tc := tracking[0]
	fl.cookieName, fl.cookieValue = tc.Name, tc.Value
	fl.index = strings.TrimPrefix(tc.Name, "saml_")
	// I4 for tracking cookies
	acs := mustURL(w.root + "/saml/acs")
	if !tc.HttpOnly || tc.Path != acs.Path || (strings.HasPrefix(w.root, "https") && !tc.Secure) {
		w.violation("I4/tracking-cookie-flags", fmt.Sprintf("tracking cookie flags HttpOnly=%v Path=%q Secure=%v", tc.HttpOnly, tc.Path, tc.Secure), nil)
		return
	}
	if tc.MaxAge != int(saml.MaxIssueDelay.Seconds()) {
		w.violation("I1/tracking-cookie-lifetime", fmt.Sprintf("tracking cookie Max-Age %d, tracking lifetime is MaxIssueDelay=%v", tc.MaxAge, saml.MaxIssueDelay), nil)
		return
	}
	var reqXML []byte
	var relay string
	code := rec.Code
	if code == http.StatusSeeOther || code == http.StatusTemporaryRedirect {
		code = http.StatusFound // any temporary redirect carries a redirect-binding request just as well
	}
	switch code {
	case http.StatusFound:
		loc, err := url.Parse(resp.Header.Get("Location"))
		if err != nil {
			w.violation("flow-start/location", err.Error(), nil)
			return
		}
		ps, _ := splitQuery(loc.RawQuery)
		for _, p := range ps {
			switch p[0] {
			case "SAMLRequest":
				comp, _ := base64Std(p[1])
				reqXML, _ = inflateAll(comp)
			case "RelayState":
				relay = p[1]
			}
		}
	case http.StatusOK:
		pg, err := htmlmon.Parse(rec.Body.Bytes())
		if err != nil || len(pg.Forms) != 1 {
			w.violation("flow-start/post-page", "cannot read POST page", nil)
			return
		}
		for _, in := range pg.Forms[0].Inputs {
			switch in.Attrs["name"] {
			case "SAMLRequest":
				reqXML, _ = base64Std(in.Attrs["value"])
			case "RelayState":
				relay = in.Attrs["value"]
			}
		}
	default:
		w.violation("flow-start/status", fmt.Sprintf("status %d", rec.Code), nil)
		return
	}
	if relay != fl.index {
		w.violation("flow-start/relay-state-is-not-the-cookie-index", fmt.Sprintf("RelayState %q, tracking cookie %q", relay, tc.Name), nil)
		return
	}
	el, err := so.Parse(reqXML)
	if err != nil {
		w.violation("flow-start/request-xml", err.Error(), nil)
		return
	}
	fl.reqID = el.SelectAttrValue("ID", "")
	for _, o := range w.flows {
		if o.reqID == fl.reqID || o.index == fl.index {
			w.violation("flow-start/id-or-index-reused", "request ID or tracking index reused between flows", nil)
			return
		}
	}
	w.jar.Update(&u, resp, w.now)
	w.flows = append(w.flows, fl)
}

func base64Std(s string) ([]byte, error) {
	return so.B64Decode(s)
}

// answer builds the IdP's response for flow fl (or an unsolicited one when fl.reqID == "").
func (w *c17World) answer(fl *c17Flow, user string) {
	fx.SetNow(w.now)
	acs := w.root + "/saml/acs"
	a := w.o.Assertion(so.AssertionSpec{RequestID: fl.reqID, NameID: user, Now: w.now, Attrs: [][2]string{{"role", "role-of-" + user}}})
	a.Subject.SubjectConfirmations[0].SubjectConfirmationData.Recipient = acs
	a.Conditions.AudienceRestrictions[0].Audience.Value = w.root + "/saml/metadata"
	ael, err := w.o.Sign(a.Element(), fx.K("idp_s1"), "")
	if err != nil {
		return
	}
	r := w.o.Response(fl.reqID, w.now)
	r.Destination = acs
	rel, err := w.o.Sign(so.ResponseEl(r, ael), fx.K("idp_s1"), "")
	if err != nil {
		return
	}
	fl.answered, fl.user, fl.answerAt = true, user, w.now
	fl.respB64 = so.B64(so.Bytes(rel))
	if fl.reqID == "" {
		w.log("unsolicited-answer(%s)", user)
	} else {
		w.log("answer(%d,%s)", fl.k, user)
	}
}

func (w *c17World) authenticCookiePresented(fl *c17Flow, cookies []*http.Cookie) bool {
	if fl.cookieName == "" {
		return false
	}
	for _, ck := range cookies {
		if ck.Name == fl.cookieName && ck.Value == fl.cookieValue {
			return true
		}
	}
	return false
}

func (w *c17World) deliver(d *c17Delivery) {
	fx.SetNow(w.now)
	fl := d.flow
	acsU := mustURL(w.root + "/saml/acs")
	form := url.Values{"SAMLResponse": {fl.respB64}}
	if d.hasRS {
		form.Set("RelayState", d.relay)
	}
	req := httptest.NewRequest("POST", acsU.Path, strings.NewReader(form.Encode()))
	req.Host = acsU.Host
	req.Header.Set("Content-Type", "application/x-www-form-urlencoded")
	if d.cookies != "" {
		req.Header.Set("Cookie", d.cookies)
	}
	presented := req.Cookies()
	rec := httptest.NewRecorder()
	w.log("%s", d.desc)
	p, pv, frame, _ := core.Guard(func() { w.m.ServeHTTP(rec, req) })
	w.c.Eval()
	if p {
		w.violation("panic/"+frame, fmt.Sprint(pv), nil)
		return
	}
	w.reached = true
	resp := rec.Result()
	var sess *http.Cookie
	cleared := map[string]*http.Cookie{}
	for _, sc := range resp.Cookies() {
		if sc.Name == w.tokName && sc.Value != "" && sc.MaxAge >= 0 {
			sess = sc
		}
		if strings.HasPrefix(sc.Name, "saml_") && (sc.MaxAge < 0 || (!sc.Expires.IsZero() && sc.Expires.Before(w.now))) {
			cleared[sc.Name] = sc
		}
	}
	// ---- what the ledger says
	trackExpiry := fl.startedAt.Add(saml.MaxIssueDelay)
	nearBoundary := func(t time.Time) bool { d := w.now.Sub(t); return d > -time.Second && d < time.Second }
	if fl.reqID != "" && nearBoundary(trackExpiry) || nearBoundary(fl.answerAt.Add(saml.MaxIssueDelay)) {
		w.c.Count("deliveries_at_lifetime_boundary(no verdict)")
		if d.main {
			w.jar.Update(&acsU, resp, w.now)
		}
		return
	}
	authentic := fl.reqID != "" && w.authenticCookiePresented(fl, presented) && w.now.Before(trackExpiry)
	respFresh := w.now.Before(fl.answerAt.Add(saml.MaxIssueDelay))
	// the flow named by RelayState, if its authentic unexpired cookie is presented
	var named *c17Flow
	if d.hasRS && d.relay != "" {
		for _, o := range w.flows {
			if o.index == d.relay && w.authenticCookiePresented(o, presented) && w.now.Before(o.startedAt.Add(saml.MaxIssueDelay)) {
				named = o
			}
		}
	}
	extra := map[string]any{"delivery": d.desc, "status": rec.Code, "location": resp.Header.Get("Location"), "presented_cookies": cookieNames(presented)}
	if sess != nil {
		// I1
		if !authentic {
			cls := "cookie-of-answered-flow-not-presented"
			switch {
			case fl.reqID == "":
				cls = "unsolicited-response"
			case w.authenticCookiePresented(fl, presented):
				cls = "tracking-cookie-expired"
			}
			w.violation("I1/session-without-authentic-tracking-cookie/"+cls, fmt.Sprintf("session cookie set although the authentic unexpired tracking cookie of the answered flow was not presented (%s)", cls), extra)
			return
		}
		// I2
		want := w.defURI
		if d.hasRS && d.relay != "" {
			if named == nil {
				w.violation("I2/session-with-unverifiable-relay-state", fmt.Sprintf("session established although RelayState %q names no authentic presented tracking cookie", truncate(d.relay, 60)), extra)
				return
			}
			want = named.url
		}
		if rec.Code < 300 || rec.Code > 399 || resp.Header.Get("Location") != want {
			cls := "other"
			if d.hasRS && resp.Header.Get("Location") == d.relay {
				cls = "redirect-to-relay-state"
			}
			w.violation("I2/redirect-target/"+cls, fmt.Sprintf("status %d Location %q, want 302 to %q", rec.Code, resp.Header.Get("Location"), want), extra)
			return
		}
		// I3
		if named != nil {
			cl := cleared[named.cookieName]
			if cl == nil {
				w.violation("I3/tracking-cookie-not-cleared", "tracking cookie "+named.cookieName+" not cleared on completion", extra)
				return
			}
			if cl.Path != acsU.Path {
				w.violation("I3/cleared-with-wrong-path", fmt.Sprintf("clearing cookie has path %q, tracking cookies live at %q", cl.Path, acsU.Path), extra)
				return
			}
		}
		// I4
		if !sess.HttpOnly || (strings.HasPrefix(w.root, "https") && !sess.Secure) {
			w.violation("I4/session-cookie-flags", fmt.Sprintf("session cookie HttpOnly=%v Secure=%v on %s", sess.HttpOnly, sess.Secure, w.root), extra)
			return
		}
		if sess.MaxAge <= 0 || sess.MaxAge > 3600 {
			w.violation("I4/session-cookie-lifetime", fmt.Sprintf("session cookie Max-Age %d", sess.MaxAge), extra)
			return
		}
		w.c.Count("sessions_established")
		if named != nil {
			named.completed = true
		}
		if d.main {
			w.sessUser, w.sessAt = fl.user, w.now
		}
	} else {
		// I5
		if rec.Code < 400 { // a refusal is an error reply (which one is the deployment's OnError business), not a page and not a redirect
			w.violation("I5/refusal-status", fmt.Sprintf("delivery that established no session was answered with status %d instead of an error status", rec.Code), extra)
			return
		}
		// I6: a faithful delivery inside all lifetimes must complete
		relayOK := d.hasRS && fl.index != "" && d.relay == fl.index // "with RelayState echoed faithfully": only then is completion required
		if authentic && respFresh && relayOK {
			w.violation("I6/valid-delivery-refused", "delivery with the authentic tracking cookie, a fresh response and a verifiable RelayState was refused", extra)
			return
		}
		w.c.Count("deliveries_refused")
	}
	if d.main {
		w.jar.Update(&acsU, resp, w.now)
	}
}

func cookieNames(cs []*http.Cookie) []string {
	var n []string
	for _, c := range cs {
		n = append(n, c.Name)
	}
	return n
}

// page requests a protected page with the main jar and checks what the handler sees.
func (w *c17World) page() {
	fx.SetNow(w.now)
	u := mustURL(w.root + "/private")
	req := httptest.NewRequest("GET", u.Path, nil)
	req.Host = u.Host
	if h := browser.Header(w.jar.For(&u, w.now)); h != "" {
		req.Header.Set("Cookie", h)
	}
	h, seen := w.protectedHandler()
	rec := httptest.NewRecorder()
	w.log("page")
	h.ServeHTTP(rec, req)
	sessLive := w.sessUser != "" && w.now.Before(w.sessAt.Add(time.Hour-time.Second))
	sessDead := w.sessUser == "" || w.now.After(w.sessAt.Add(time.Hour+time.Second))
	switch {
	case seen.ran && sessDead:
		w.violation("I6/page-served-without-live-session", "protected page served although the browser holds no live session", nil)
	case !seen.ran && sessLive:
		w.violation("I6/page-refused-with-live-session", fmt.Sprintf("protected page not served (status %d) although the browser completed a login", rec.Code), nil)
	case seen.ran:
		if seen.subject != w.sessUser || len(seen.attrs["role"]) != 1 || seen.attrs["role"][0] != "role-of-"+w.sessUser {
			w.violation("I6/wrong-identity", fmt.Sprintf("page sees subject %q attrs %v, logged-in user %q", seen.subject, seen.attrs, w.sessUser), nil)
			return
		}
		w.c.Count("pages_served_with_right_identity")
	default:
		if rec.Code == http.StatusFound || rec.Code == http.StatusOK {
			// the middleware started a new flow for this page request; forget its tracking cookie (not part of the ledger)
		}
	}
}

func (w *c17World) cookieHeaderFor(mode int, fl *c17Flow) (string, string) {
	acs := mustURL(w.root + "/saml/acs")
	r := w.c.Rng
	var other *c17Flow
	for _, o := range w.flows {
		if o != fl && o.cookieName != "" {
			other = o
		}
	}
	switch mode {
	case 0:
		return browser.Header(w.jar.For(&acs, w.now)), "full-jar"
	case 1:
		return "", "no-cookies"
	case 2:
		if other != nil {
			return other.cookieName + "=" + other.cookieValue, "only-other-flows-cookie"
		}
		return "", "no-cookies"
	case 3:
		if other != nil && fl.cookieName != "" {
			return other.cookieName + "=" + fl.cookieValue, "renamed-to-other-index"
		}
		return "saml_renamed=" + fl.cookieValue, "renamed"
	case 4:
		if other != nil && fl.cookieName != "" {
			return fl.cookieName + "=" + other.cookieValue + "; " + other.cookieName + "=" + fl.cookieValue, "values-swapped"
		}
		return "", "no-cookies"
	case 5:
		v := fl.cookieValue
		if len(v) > 10 {
			switch r.Intn(3) {
			case 0:
				v = v[:len(v)-5]
			case 1:
				b := []byte(v)
				i := len(b) - 4 - r.Intn(40) // not the last characters: their low bits are base64 padding and decode identically
				if b[i] == '.' {
					i--
				}
				if b[i] == 'A' {
					b[i] = 'B'
				} else {
					b[i] = 'A'
				}
				v = string(b)
			case 2:
				v = v + "xxxx"
			}
		}
		return fl.cookieName + "=" + v, "tampered"
	case 6:
		if tok := w.jar.Get(w.tokName, w.now); tok != nil {
			name := "saml_" + w.sessUser
			if r.Intn(2) == 0 && fl.index != "" {
				name = "saml_" + fl.index
			}
			return name + "=" + tok.Value, "session-token-as-tracking-cookie"
		}
		return "", "no-cookies"
	case 7:
		rec := httptest.NewRecorder()
		idx := fl.index
		if idx == "" {
			idx = "x"
		}
		tr := w.other.RequestTracker.(samlsp.CookieRequestTracker)
		tr.RelayStateFunc = func(http.ResponseWriter, *http.Request) string { return idx }
		if _, err := tr.TrackRequest(rec, httptest.NewRequest("GET", w.root+fl.url, nil), fl.reqID); err == nil {
			for _, sc := range rec.Result().Cookies() {
				return sc.Name + "=" + sc.Value, "other-deployments-tracking-cookie"
			}
		}
		return "", "no-cookies"
	case 8:
		if fl.cookieName != "" {
			return fl.cookieName + "=" + fl.cookieValue, "saved-authentic-cookie"
		}
		return "", "no-cookies"
	case 10:
		// the answered flow's authentic cookie, plus a cookie that carries another flow's name but does not decode
		// (meant to go with a RelayState naming that other cookie)
		if fl.cookieName == "" {
			return "", "no-cookies"
		}
		name, val := "saml_zzz", "garbage"
		if other != nil && other.cookieName != "" {
			name = other.cookieName
			val = other.cookieValue[:len(other.cookieValue)/2] + "AAAA" + other.cookieValue[len(other.cookieValue)/2:]
			if r.Intn(3) == 0 {
				val = "not-a-token"
			}
		}
		return fl.cookieName + "=" + fl.cookieValue + "; " + name + "=" + val, "authentic-plus-undecodable:" + strings.TrimPrefix(name, "saml_")
	default:
		var parts []string
		for _, o := range w.flows {
			if o.cookieName != "" {
				parts = append(parts, o.cookieName+"="+o.cookieValue)
			}
		}
		return strings.Join(parts, "; "), "all-saved-authentic-cookies"
	}
}

func (w *c17World) relayFor(mode int, fl *c17Flow) (string, bool, string) {
	var other *c17Flow
	for _, o := range w.flows {
		if o != fl {
			other = o
		}
	}
	switch mode {
	case 0:
		if fl.index == "" {
			return "", false, "absent"
		}
		return fl.index, true, "faithful"
	case 1:
		if other != nil {
			return other.index, true, "other-flows-index"
		}
		return "", false, "absent"
	case 2:
		return "", false, "absent"
	case 3:
		return "https://evil.example/landing", true, "arbitrary-url"
	case 4:
		return "garbage-" + fmt.Sprint(w.c.Rng.Intn(100)), true, "garbage"
	case 5:
		return w.sessUser, w.sessUser != "", "session-subject"
	default:
		return "", true, "empty-value"
	}
}

func runC17(c *core.Ctx) {
	so.Quiet()
	fx.ResetTolerances()
	saml.RandReader = fx.NewRecReader(c.Seed*77 + int64(c.Shard))
	keys := []string{"sp_rsa2048", "sp_p256", "sp_rsa1024"}
	idx := 0
	mine := func() bool { idx++; return c.Mine(idx) }
	finish := func(w *c17World) {
		if w.reached {
			c.Nontrivial(w.cfg + "|" + strings.Join(w.hist, ";"))
		}
		if c.Rng.Intn(200) == 0 || idx < 3 {
			c.Sample(map[string]any{"config": w.cfg, "history": w.hist})
		}
	}
	// (a) faithful interleavings: every order of starts/answers/deliveries for n flows with faithful relay and full jar
	perms := [][]int{{0}, {0, 1}, {1, 0}, {0, 1, 2}, {0, 2, 1}, {1, 0, 2}, {1, 2, 0}, {2, 0, 1}, {2, 1, 0}}
	for _, https := range []bool{false, true} {
		for _, post := range []bool{false, true} {
			for _, crs := range []bool{false, true} {
				for _, key := range keys {
					for _, perm := range perms {
						for _, answerOrder := range perms {
							if len(answerOrder) != len(perm) {
								continue
							}
							if !mine() {
								continue
							}
							w := c17NewWorld(c, https, post, crs, key)
							for range perm {
								w.start()
								w.now = w.now.Add(time.Duration(1+c.Rng.Intn(5)) * time.Second)
							}
							if w.dead {
								continue
							}
							for _, k := range answerOrder {
								w.answer(w.flows[k], fmt.Sprintf("user%d", k))
							}
							for _, k := range perm {
								fl := w.flows[k]
								h, _ := w.cookieHeaderFor(0, fl)
								w.deliver(&c17Delivery{flow: fl, cookies: h, relay: fl.index, hasRS: true, main: true, desc: fmt.Sprintf("deliver(%d,full-jar,faithful)", k)})
								if w.dead {
									break
								}
								if !fl.completed {
									w.violation("I6/faithful-flow-not-completed", fmt.Sprintf("flow %d did not complete in a faithful interleaving", k), nil)
									break
								}
								w.page()
								w.now = w.now.Add(time.Second)
							}
							finish(w)
						}
					}
				}
			}
		}
	}
	// (b) random adversarial histories
	n := c.Pick(3200, 80000)
	for i := 0; i < n; i++ {
		if !mine() {
			continue
		}
		r := c.Rng
		w := c17NewWorld(c, r.Intn(2) == 0, r.Intn(2) == 0, r.Intn(3) == 0, keys[r.Intn(len(keys))])
		steps := 4 + r.Intn(c.Pick(22, 27))
		for s := 0; s < steps && !w.dead; s++ {
			switch a := r.Intn(12); {
			case a < 2 || len(w.flows) == 0:
				if len(w.flows) < 3 {
					w.start()
				}
			case a < 4:
				fl := w.flows[r.Intn(len(w.flows))]
				w.answer(fl, fmt.Sprintf("user%d", r.Intn(3)))
			case a == 4:
				// unsolicited response (no InResponseTo), as an attacker with a genuinely signed IdP-initiated response would have
				ufl := &c17Flow{k: -1, url: "/unsolicited", startedAt: w.now}
				w.answer(ufl, "mallory")
				w.unsol = append(w.unsol, ufl)
			case a < 9:
				var cands []*c17Flow
				for _, fl := range w.flows {
					if fl.answered {
						cands = append(cands, fl)
					}
				}
				cands = append(cands, w.unsol...)
				if len(cands) == 0 {
					continue
				}
				fl := cands[r.Intn(len(cands))]
				cm := r.Intn(11)
				if r.Intn(3) == 0 {
					cm = 0
				}
				h, cdesc := w.cookieHeaderFor(cm, fl)
				rm := r.Intn(7)
				if r.Intn(2) == 0 {
					rm = 0
				}
				relay, has, rdesc := w.relayFor(rm, fl)
				if strings.HasPrefix(cdesc, "authentic-plus-undecodable:") && r.Intn(4) != 0 {
					relay, has, rdesc = strings.TrimPrefix(cdesc, "authentic-plus-undecodable:"), true, "names-the-undecodable-cookie"
				}
				d := &c17Delivery{flow: fl, cookies: h, relay: relay, hasRS: has, main: cm == 0, desc: fmt.Sprintf("deliver(%d,%s,%s)", fl.k, cdesc, rdesc)}
				w.deliver(d)
				w.lastDel = d
			case a == 9:
				if w.lastDel != nil {
					d := *w.lastDel
					d.desc = "replay:" + d.desc
					if d.main {
						d.cookies, _ = w.cookieHeaderFor(0, d.flow)
					}
					w.deliver(&d)
				}
			case a == 10:
				dt := []time.Duration{7 * time.Second, 37 * time.Second, 101 * time.Second, 3607 * time.Second}[r.Intn(4)]
				if r.Intn(3) != 0 {
					dt = []time.Duration{7 * time.Second, 37 * time.Second}[r.Intn(2)]
				}
				w.now = w.now.Add(dt)
				w.log("clock+%v", dt)
			default:
				w.page()
			}
		}
		finish(w)
	}
}

// urlShape picks the spelling of flow k's URL (fixed per world so that histories stay reproducible).
func (w *c17World) urlShape(k int) int {
	return (w.shapeSeed + 3*k) % 7
}
