package props

import (
	"errors"
	"fmt"
	"net/url"
	"strings"

	"github.com/beevik/etree"
	"github.com/crewjam/saml"

	"verif/internal/core"
	"verif/internal/fx"
	"verif/internal/so"
)

// C03 — SP accepts only assertions addressed to it by its configured IdP.

func init() {
	core.RegisterSpec(&core.Spec{
		ID:    "C03",
		Level: "exploration",
		Rule: "validly signed responses in which Response Issuer, Assertion Issuer, each Recipient (1-2 confirmations), each of 0..3 Audiences, Destination and StatusCode take values from {correct, case-changed, trailing slash added/removed, extra query, proper prefix, suffix extension, other host, empty, absent}: " +
			"all single deviations and seeded pairs/triples, crossed with signed/unsigned Response, EntityID set/unset, audience validator {none, returns nil, returns error}, received-at URL equal/unequal to the ACS URL, and XML/POST/artifact entry points. " +
			"Oracle computed from the chosen variants (accept-required / reject-required / no verdict for mixed audiences); a sole non-Success status must surface as ErrBadStatus. Non-trivial = signature verified and the response reached field validation; distinct by variant vector x configuration.",
		Assumptions: []string{"audience lists mixing right and wrong values carry no verdict", "for the artifact entry point a missing Destination on a signed inner Response carries no verdict (not delivered through the browser)"},
		FloorQuick:  1700,
		FloorThor:   6000,
		Run:         runC03,
		LevelText:   "All single near-miss deviations of every addressing field and sampled combinations, on validly signed messages under every relevant SP configuration, judged by an oracle computed from the chosen values (string equality, independent of the library's comparison code). Held-on-observed.",
		LevelNote:   "Trusts goxmldsig for signing, and that the variant generator's notion of 'wrong' (byte-unequal to the configured value) matches the statement's equality.",
		Technique:   "runtime monitoring: field-deviation oracle on signing-oracle messages",
		DesignRef:   "DESIGN.md §5 C03",
	})
}

type fieldVal struct {
	kind   string // correct | absent | empty | <near-miss name>
	val    string
	absent bool
}

func nearMisses(v string) []fieldVal {
	out := []fieldVal{{kind: "correct", val: v}}
	// case change in the last path segment / host
	cc := swapCaseOnce(v)
	if cc != v {
		out = append(out, fieldVal{kind: "case", val: cc})
	}
	out = append(out, fieldVal{kind: "slash+", val: v + "/"})
	if strings.HasSuffix(v, "/") {
		out = append(out, fieldVal{kind: "slash-", val: strings.TrimSuffix(v, "/")})
	}
	out = append(out, fieldVal{kind: "query", val: v + "?a=1"})
	out = append(out, fieldVal{kind: "prefix", val: v[:len(v)-3]})
	out = append(out, fieldVal{kind: "suffix", val: v + "x"})
	out = append(out, fieldVal{kind: "otherhost", val: strings.Replace(v, "example", "exampel", 1)})
	if i := strings.Index(v, "://"); i > 0 {
		// spellings that URL libraries consider the same URL (or re-print as it): equality means the same string
		rest := v[i+3:]
		host, path := rest, ""
		if j := strings.IndexByte(rest, '/'); j >= 0 {
			host, path = rest[:j], rest[j:]
		}
		out = append(out, fieldVal{kind: "scheme-uppercase", val: strings.ToUpper(v[:i]) + v[i:]})
		out = append(out, fieldVal{kind: "empty-fragment", val: v + "#"})
		out = append(out, fieldVal{kind: "fragment", val: v + "#x"})
		out = append(out, fieldVal{kind: "host-uppercase", val: v[:i+3] + strings.ToUpper(host) + path})
		out = append(out, fieldVal{kind: "userinfo", val: v[:i+3] + "user@" + rest})
		if !strings.Contains(host, ":") {
			port := ":443"
			if v[:i] == "http" {
				port = ":80"
			}
			out = append(out, fieldVal{kind: "default-port", val: v[:i+3] + host + port + path})
			out = append(out, fieldVal{kind: "trailing-dot-host", val: v[:i+3] + host + "." + path})
		}
		if len(path) > 2 {
			out = append(out, fieldVal{kind: "dot-segment", val: v[:i+3] + host + "/." + path})
			out = append(out, fieldVal{kind: "pct-encoded-letter", val: v[:i+3] + host + path[:len(path)-1] + fmt.Sprintf("%%%02X", path[len(path)-1])})
			out = append(out, fieldVal{kind: "double-slash", val: v[:i+3] + host + "/" + path})
		}
		if !strings.Contains(v, "?") {
			out = append(out, fieldVal{kind: "empty-query", val: v + "?"})
		}
	}
	out = append(out, fieldVal{kind: "space", val: v + " "})
	out = append(out, fieldVal{kind: "empty", val: ""})
	out = append(out, fieldVal{kind: "absent", absent: true})
	return out
}

func swapCaseOnce(s string) string {
	b := []byte(s)
	for i := len(b) - 1; i >= 0; i-- {
		if b[i] >= 'a' && b[i] <= 'z' {
			b[i] -= 32
			return string(b)
		}
	}
	return s
}

type c03Case struct {
	respIssuer fieldVal
	aIssuer    fieldVal
	recips     []fieldVal
	auds       []fieldVal
	dest       fieldVal
	status     fieldVal
	signedResp bool
	entityID   bool
	validator  int // 0 none, 1 returns nil, 2 returns error
	curDiffers bool
	acs        string // the SP's ACS URL in this case (the one SP object lives through all cases and is reconfigured in place)
	allowIDP   bool   // AllowIDPInitiated: waives the request-ID rule, nothing else
	methods    []int  // confirmation Method per confirmation (index into confMethods)
	curForm    int    // 0 absolute received-at URL, 1 origin-form (path only, as net/http servers see it), 2 origin-form with query
	entry      int    // 0 xml 1 post 2 artifact(signed AR) 3 artifact(unsigned AR)
	arIssuer   fieldVal
	arStatus   fieldVal
}

func (k c03Case) String() string {
	fv := func(f fieldVal) string { return f.kind }
	l := func(fs []fieldVal) string {
		var s []string
		for _, f := range fs {
			s = append(s, f.kind)
		}
		return "[" + strings.Join(s, ",") + "]"
	}
	return fmt.Sprintf("rIss=%s aIss=%s recip=%s aud=%s dest=%s status=%s signedResp=%v entityID=%v validator=%d curDiffers=%v curForm=%d entry=%d arIss=%s arStatus=%s allowIDP=%v methods=%v",
		fv(k.respIssuer), fv(k.aIssuer), l(k.recips), l(k.auds), fv(k.dest), fv(k.status), k.signedResp, k.entityID, k.validator, k.curDiffers, k.curForm, k.entry, fv(k.arIssuer), fv(k.arStatus), k.allowIDP, k.methods)
}

const c03EntityID = "urn:example:sp-entity"

func c03Own(entityID bool) string {
	if entityID {
		return c03EntityID
	}
	return so.SPMeta
}

func c03StatusVariants() []fieldVal {
	return []fieldVal{{kind: "correct", val: saml.StatusSuccess}, {kind: "requester", val: saml.StatusRequester}, {kind: "responder", val: saml.StatusResponder}, {kind: "authnfailed", val: saml.StatusAuthnFailed},
		{kind: "case", val: strings.ToLower(saml.StatusSuccess)}, {kind: "space", val: saml.StatusSuccess + " "}, {kind: "prefix", val: "urn:oasis:names:tc:SAML:2.0:status:Succes"}, {kind: "suffix", val: saml.StatusSuccess + "ful"}, {kind: "empty", val: ""}, {kind: "absent", absent: true}, {kind: "nostatus", absent: true}}
}

func c03Base(c *core.Ctx) c03Case {
	k := c03Case{signedResp: c.Rng.Intn(2) == 0, entityID: c.Rng.Intn(2) == 0, curDiffers: c.Rng.Intn(3) == 0, entry: c.Rng.Intn(4)}
	k.acs = []string{so.SPACS, so.SPACS, "https://sp.example.com/saml2/acs-b"}[c.Rng.Intn(3)]
	if c.Rng.Intn(2) == 0 {
		k.entry = c.Rng.Intn(2)
	}
	if c.Rng.Intn(5) == 0 {
		k.curForm = 1 + c.Rng.Intn(2)
		k.curDiffers = true
	}
	if c.Rng.Intn(4) == 0 {
		k.validator = 1 + c.Rng.Intn(2)
	}
	ok := func(v string) fieldVal { return fieldVal{kind: "correct", val: v} }
	k.respIssuer = ok(so.IDPEntity)
	if c.Rng.Intn(4) == 0 {
		k.respIssuer = fieldVal{kind: "absent", absent: true}
	}
	k.aIssuer = ok(so.IDPEntity)
	k.recips = []fieldVal{ok(k.acs)}
	if c.Rng.Intn(3) == 0 {
		k.recips = append(k.recips, ok(k.acs))
	} else if c.Rng.Intn(6) == 0 {
		k.recips = nil // an assertion without subject confirmations: no Recipient to check
	}
	for n := c.Rng.Intn(4); n > 0; n-- {
		k.auds = append(k.auds, ok(c03Own(k.entityID)))
	}
	k.dest = ok(k.acs)
	if k.curDiffers && c.Rng.Intn(2) == 0 {
		k.dest = fieldVal{kind: "correct-cur", val: c03CurStr(k)}
	}
	if !k.signedResp && c.Rng.Intn(3) == 0 {
		k.dest = fieldVal{kind: "absent", absent: true}
	}
	k.allowIDP = c.Rng.Intn(4) == 0
	k.methods = pickConfMethods(c.Rng, len(k.recips))
	k.status = ok(saml.StatusSuccess)
	k.arIssuer = ok(so.IDPEntity)
	k.arStatus = ok(saml.StatusSuccess)
	return k
}

// deviate changes one randomly chosen field (or a specific one) to a given / random variant.
func c03Deviate(c *core.Ctx, k *c03Case, field, variant int) {
	pickV := func(vs []fieldVal) fieldVal {
		if variant >= 0 {
			return vs[variant%len(vs)]
		}
		return vs[c.Rng.Intn(len(vs))]
	}
	switch field {
	case 0:
		k.respIssuer = pickV(nearMisses(so.IDPEntity))
	case 1:
		k.aIssuer = pickV(nearMisses(so.IDPEntity))
	case 2:
		if len(k.recips) == 0 {
			return
		}
		i := c.Rng.Intn(len(k.recips))
		k.recips[i] = pickV(append(nearMisses(k.acs), fieldVal{kind: "the-other-acs-this-sp-object-had", val: c03OtherACS(k.acs)}))
	case 3:
		if len(k.auds) == 0 {
			k.auds = []fieldVal{{}}
		}
		i := c.Rng.Intn(len(k.auds))
		vs := nearMisses(c03Own(k.entityID))
		if k.entityID {
			vs = append(vs, fieldVal{kind: "metadata-url-while-entityid-set", val: so.SPMeta})
		} else {
			vs = append(vs, fieldVal{kind: "acs-url", val: k.acs})
		}
		k.auds[i] = pickV(vs)
	case 4:
		vs := append(nearMisses(k.acs), fieldVal{kind: "the-other-acs-this-sp-object-had", val: c03OtherACS(k.acs)})
		if k.curDiffers {
			vs = append(vs, fieldVal{kind: "correct-cur", val: c03CurStr(*k)})
			if k.curForm > 0 { // same path (and query) as the received-at URL, on someone else's host
				u := c03Cur(*k)
				vs = append(vs, fieldVal{kind: "otherhost-same-request-uri", val: "https://sp.evil.example" + u.RequestURI()}, fieldVal{kind: "acs-host-other-scheme", val: "http://sp.example.com" + u.RequestURI()})
			}
		} else {
			vs = append(vs, fieldVal{kind: "acs-with-other-query", val: k.acs + "?x=1"})
		}
		k.dest = pickV(vs)
	case 5:
		k.status = pickV(c03StatusVariants())
	case 6:
		k.arIssuer = pickV(nearMisses(so.IDPEntity))
	case 7:
		k.arStatus = pickV(c03StatusVariants())
	}
}

func runC03(c *core.Ctx) {
	fx.SetNow(fx.Epoch)
	fx.ResetTolerances()
	o := so.New(c.Rng)
	idx := 0
	mine := func() bool { idx++; return c.Mine(idx) }
	// all single deviations x configurations (several random configurations per deviation)
	reps := c.Pick(6, 60)
	for field := 0; field < 8; field++ {
		for variant := 0; variant < 32; variant++ {
			for rep := 0; rep < reps; rep++ {
				if !mine() {
					continue
				}
				k := c03Base(c)
				if field >= 6 && k.entry < 2 {
					k.entry = 2 + c.Rng.Intn(2)
				}
				c03Deviate(c, &k, field, variant)
				c03Run(c, o, k)
			}
		}
	}
	// baselines (no deviation), pairs and triples
	n := c.Pick(22000, 350000)
	for i := 0; i < n; i++ {
		if !mine() {
			continue
		}
		k := c03Base(c)
		for d := c.Rng.Intn(4); d > 0; d-- {
			f := c.Rng.Intn(8)
			if f >= 6 && k.entry < 2 {
				f = c.Rng.Intn(6)
			}
			c03Deviate(c, &k, f, -1)
		}
		c03Run(c, o, k)
		// the conditions of the property speak about the set of audience restrictions: listing them in another order
		// cannot change the outcome (whatever an implementation decides about lists that mix right and wrong audiences)
		if first := c03Last; first >= 0 && len(k.auds) >= 2 && k.validator == 0 {
			kinds := map[string]bool{}
			for _, a := range k.auds {
				kinds[a.kind] = true
			}
			if len(kinds) > 1 {
				k2 := k
				k2.auds = nil
				for i := len(k.auds) - 1; i >= 0; i-- {
					k2.auds = append(k2.auds, k.auds[i])
				}
				c03Run(c, o, k2)
				if c03Last >= 0 && c03Last != first {
					c.Violation("C03/audience-order-dependent", fmt.Sprintf("the same audience restrictions in reverse order change the outcome (accepted %v -> %v) (%s)", first == 1, c03Last == 1, k), map[string]any{"case": k.String(), "reversed": k2.String()})
				}
				c.Count("audience_order_pairs_compared")
			}
		}
	}
}

func setOrRemoveAttr(el *etree.Element, name string, f fieldVal) {
	if el == nil {
		return
	}
	if f.absent {
		el.RemoveAttr(name)
	} else {
		el.CreateAttr(name, f.val)
	}
}

func setOrRemoveText(parent *etree.Element, path string, f fieldVal) {
	if parent == nil {
		return
	}
	e := parent.FindElement(path)
	if e == nil {
		return
	}
	if f.absent {
		e.Parent().RemoveChild(e)
	} else {
		e.SetText(f.val)
	}
}

// c03Last is the outcome of the most recent c03Run that reached a verdict point: 1 accepted, 0 refused, -1 not delivered.
var c03Last = -1

func c03Run(c *core.Ctx, o *so.Oracle, k c03Case) {
	c03Last = -1
	o.Reset()
	c.Journal("C03 " + k.String())
	// one SP object per process, reconfigured in place for every case: what it did for earlier cases must not matter
	if c03LiveSP == nil {
		c03LiveSP = so.NewSP("meta-one-signing", fx.K("sp_rsa2048"))
	}
	sp := c03LiveSP
	sp.EntityID = ""
	if k.entityID {
		sp.EntityID = c03EntityID
	}
	sp.AcsURL = mustURL(k.acs)
	sp.ValidateAudienceRestriction = nil
	sp.AllowIDPInitiated = k.allowIDP
	validatorCalls := 0
	switch k.validator {
	case 1:
		sp.ValidateAudienceRestriction = func(*saml.Assertion) error { validatorCalls++; return nil }
	case 2:
		sp.ValidateAudienceRestriction = func(*saml.Assertion) error { validatorCalls++; return errors.New("application says no") }
	}
	s1 := fx.K("idp_s1")
	a := o.Assertion(so.AssertionSpec{RequestID: "req-1"})
	if len(k.recips) == 0 {
		a.Subject.SubjectConfirmations = nil
	}
	if len(k.recips) == 2 {
		sc := a.Subject.SubjectConfirmations[0]
		d := *sc.SubjectConfirmationData
		sc.SubjectConfirmationData = &d
		a.Subject.SubjectConfirmations = append(a.Subject.SubjectConfirmations, sc)
	}
	a.Conditions.AudienceRestrictions = nil
	for range k.auds {
		a.Conditions.AudienceRestrictions = append(a.Conditions.AudienceRestrictions, saml.AudienceRestriction{Audience: saml.Audience{Value: "placeholder"}})
	}
	ael := a.Element()
	setOrRemoveText(ael, "./Issuer", k.aIssuer)
	for i, scd := range ael.FindElements("./Subject/SubjectConfirmation/SubjectConfirmationData") {
		setOrRemoveAttr(scd, "Recipient", k.recips[i])
	}
	setConfMethods(ael, k.methods)
	for i, ar := range ael.FindElements("./Conditions/AudienceRestriction") {
		setOrRemoveText(ar, "./Audience", k.auds[i])
	}
	var err error
	if !k.signedResp {
		if ael, err = o.Sign(ael, s1, ""); err != nil {
			c.Inconclusive("sign: " + err.Error())
			return
		}
	}
	rel := so.ResponseEl(o.Response("req-1", fx.Now()), ael)
	setOrRemoveText(rel, "./Issuer", k.respIssuer)
	setOrRemoveAttr(rel, "Destination", k.dest)
	if k.status.kind == "nostatus" {
		if st := rel.FindElement("./Status"); st != nil {
			rel.RemoveChild(st)
		}
	} else {
		setOrRemoveAttr(rel.FindElement("./Status/StatusCode"), "Value", k.status)
		if sc := rel.FindElement("./Status/StatusCode"); sc != nil && !k.status.absent && c.Rng.Intn(6) == 0 {
			// a second-level code qualifies the top-level one and never replaces it: under Success it is still Success,
			// and a nested Success does not rescue a failed top level
			sc.CreateElement("samlp:StatusCode").CreateAttr("Value", []string{saml.StatusAuthnFailed, saml.StatusSuccess, saml.StatusPartialLogout}[c.Rng.Intn(3)])
			c.Count("responses_with_second_level_status")
		}
	}
	if k.signedResp {
		if rel, err = o.Sign(rel, s1, ""); err != nil {
			c.Inconclusive("sign: " + err.Error())
			return
		}
	}
	raw := so.Bytes(rel)
	cur := c03Cur(k)
	var got *saml.Assertion
	var perr error
	var sent []byte = raw
	p, pv, frame, _ := core.Guard(func() {
		switch k.entry {
		case 0:
			got, perr = sp.ParseXMLResponse(raw, []string{"req-1"}, cur)
		case 1:
			got, perr = so.DeliverPOST(sp, raw, []string{"req-1"}, cur)
		default:
			inner, _ := so.Parse(raw)
			ar := o.ArtifactResponseEl("art-1", fx.Now(), inner)
			setOrRemoveText(ar, "./Issuer", k.arIssuer)
			if k.arStatus.kind == "nostatus" {
				ar.RemoveChild(ar.FindElement("./Status"))
			} else {
				setOrRemoveAttr(ar.FindElement("./Status/StatusCode"), "Value", k.arStatus)
			}
			if k.entry == 2 {
				ar, _ = o.Sign(ar, s1, "")
			}
			sent = so.Bytes(so.SOAP(ar))
			got, perr = sp.ParseXMLArtifactResponse(sent, []string{"req-1"}, "art-1", cur)
		}
	})
	c.Eval()
	replay := map[string]any{"case": k.String(), "message": string(sent), "current_url": cur.String()}
	if p {
		c.Violation("C03/panic/"+frame, fmt.Sprintf("panic %v", pv), replay)
		return
	}
	priv := ""
	var privErr error
	if ire, ok := perr.(*saml.InvalidResponseError); ok && ire.PrivateErr != nil {
		privErr = ire.PrivateErr
		priv = privErr.Error()
	}
	if strings.Contains(priv, "cannot validate signature") || strings.Contains(priv, "invalid xml") {
		c.Inconclusive("oracle fixture failed signature/xml validation: " + truncate(priv, 80))
		return
	}
	c.Nontrivial(k.String())

	isOK := func(f fieldVal) bool { return f.kind == "correct" || f.kind == "correct-cur" }
	artifact := k.entry >= 2
	respIssuerOK := isOK(k.respIssuer) || k.respIssuer.absent
	aIssuerOK := isOK(k.aIssuer)
	recipOK := true
	for _, r := range k.recips {
		recipOK = recipOK && isOK(r)
	}
	audAllOK, audAnyOK := true, false
	for _, a := range k.auds {
		if isOK(a) {
			audAnyOK = true
		} else {
			audAllOK = false
		}
	}
	audAccept := k.validator == 1 || (k.validator == 0 && (len(k.auds) == 0 || audAllOK))
	audReject := k.validator == 2 || (k.validator == 0 && len(k.auds) > 0 && !audAnyOK)
	statusOK := isOK(k.status)
	// Destination
	destAccept, destReject := false, false
	destAbsent := k.dest.absent || k.dest.kind == "empty"
	switch {
	case isOK(k.dest):
		destAccept = true
	case destAbsent:
		switch {
		case !k.signedResp:
			destAccept = true
		case !artifact:
			destReject = true
		default:
			// signed Response inside an artifact response without Destination: no verdict
		}
	default:
		destReject = true
	}
	arIssuerOK := !artifact || isOK(k.arIssuer) || k.arIssuer.absent
	arStatusOK := !artifact || isOK(k.arStatus)

	acceptRequired := respIssuerOK && aIssuerOK && recipOK && audAccept && statusOK && destAccept && arIssuerOK && arStatusOK
	rejectRequired := !respIssuerOK || !aIssuerOK || !recipOK || audReject || !statusOK || destReject || !arIssuerOK || !arStatusOK
	var wrong []string
	add := func(b bool, n string) {
		if b {
			wrong = append(wrong, n)
		}
	}
	add(!respIssuerOK, "ResponseIssuer="+k.respIssuer.kind)
	add(!aIssuerOK, "AssertionIssuer="+k.aIssuer.kind)
	add(!recipOK, "Recipient")
	add(audReject, "Audience")
	add(!statusOK, "Status="+k.status.kind)
	add(destReject, "Destination="+k.dest.kind)
	add(!arIssuerOK, "ArtifactResponseIssuer="+k.arIssuer.kind)
	add(!arStatusOK, "ArtifactResponseStatus="+k.arStatus.kind)

	switch {
	case perr == nil && rejectRequired:
		cls := "several"
		if len(wrong) == 1 {
			cls = wrong[0]
			if cls == "Recipient" {
				for _, r := range k.recips {
					if !isOK(r) {
						cls += "=" + r.kind
					}
				}
			}
			if cls == "Audience" {
				cls += "=" + k.auds[0].kind
				if k.validator == 2 {
					cls = "Audience=validator-error"
				}
			}
		}
		c.Violation("C03/accepted-misaddressed/"+cls, fmt.Sprintf("accepted although %v (%s)", wrong, k), replay)
	case perr != nil && acceptRequired:
		c.Violation("C03/rejected-correct/"+truncate(strings.Map(keyChar, priv), 50), fmt.Sprintf("rejected (%s) although every field is correct (%s)", priv, k), replay)
	case perr == nil:
		if got == nil {
			c.Violation("C03/nil-nil", "nil assertion with nil error", replay)
		}
		if k.validator != 0 && validatorCalls == 0 {
			c.Violation("C03/validator-not-called", "accepted without calling ValidateAudienceRestriction", replay)
		}
		c.Count("accepted_ok")
	default:
		c.Count("rejected_ok")
		// sole non-Success status must be reported as ErrBadStatus
		othersAccept := respIssuerOK && aIssuerOK && recipOK && audAccept && destAccept && arIssuerOK
		if othersAccept && len(wrong) == 1 && (strings.HasPrefix(wrong[0], "Status=") || strings.HasPrefix(wrong[0], "ArtifactResponseStatus=")) {
			var bs saml.ErrBadStatus
			want := k.status.val
			if strings.HasPrefix(wrong[0], "ArtifactResponseStatus=") {
				want = k.arStatus.val
			}
			if !errors.As(privErr, &bs) {
				c.Violation("C03/status-not-reported/"+wrong[0], fmt.Sprintf("non-Success status reported as %T %q, not ErrBadStatus (%s)", privErr, priv, k), replay)
			} else if bs.Status != want {
				c.Violation("C03/status-value/"+wrong[0], fmt.Sprintf("ErrBadStatus.Status=%q want %q", bs.Status, want), replay)
			} else {
				c.Count("bad_status_reported_ok")
			}
		}
	}
	if !acceptRequired && !rejectRequired {
		c.Count("no_verdict_mixed")
	}
	c.Observe("deviation_classes", strings.Join(wrong, "+"))
	c03Last = 0
	if perr == nil {
		c03Last = 1
	}
	c.SampleSome(map[string]any{"case": k.String(), "accepted": perr == nil, "private_err": priv})
}

func keyChar(r rune) rune {
	if r >= 'a' && r <= 'z' || r >= 'A' && r <= 'Z' || r >= '0' && r <= '9' {
		return r
	}
	return '_'
}

// c03Cur is the URL at which the response is received in case k.
func c03Cur(k c03Case) url.URL {
	acs := mustURL(k.acs)
	switch {
	case k.curForm == 1:
		return url.URL{Path: acs.Path}
	case k.curForm == 2:
		return url.URL{Path: acs.Path, RawQuery: "x=1"}
	case k.curDiffers:
		return mustURL(k.acs + "?x=1")
	}
	return acs
}

func c03CurStr(k c03Case) string { u := c03Cur(k); return u.String() }

var c03LiveSP *saml.ServiceProvider

func c03OtherACS(acs string) string {
	if acs == so.SPACS {
		return "https://sp.example.com/saml2/acs-b"
	}
	return so.SPACS
}
