package props

import (
	"bytes"
	"crypto/aes"
	"crypto/cipher"
	"crypto/des"
	"crypto/ecdsa"
	"crypto/rsa"
	"crypto/x509"
	"encoding/base64"
	"fmt"
	"net/url"
	"os"
	"path/filepath"
	"strings"
	"time"

	"github.com/beevik/etree"
	"github.com/crewjam/saml"
	"github.com/crewjam/saml/xmlenc"

	"verif/internal/core"
	"verif/internal/fx"
	"verif/internal/refenc"
)

// C11 — XML decryption is total and rejects malformed or mismatched ciphertext.

func init() {
	core.RegisterSpec(&core.Spec{
		ID:    "C11",
		Level: "exploration",
		Rule: "structure-aware mutants of valid EncryptedData/EncryptedKey elements (reference-produced for every block/transport algorithm, plus the repository's W3C/captured samples): cipher-value lengths 0..4 blocks+1 exhaustively per algorithm, every byte position of GCM cipher values bit-flipped/truncated/extended, crafted CBC paddings (0, 1..bs, >bs), element remove/duplicate/reorder/nest/relabel operations, embedded certificate substitutions, and keys of every Go type the API admits. " +
			"Each mutant is decrypted with xmlenc.Decrypt under a recover() sentinel (and wrapped in an unsigned Response through ParseXMLResponse). Non-trivial = mutant that parsed as XML and reached xmlenc.Decrypt; distinct by (base, mutation, key kind).",
		Assumptions: []string{"typed-nil pointers are not key values", "CBC padding counts above the block size are a grey zone (no verdict)", "random CBC garbage may decrypt to some plaintext by chance: only panics and the listed must-reject classes are judged"},
		FloorQuick:  5000,
		FloorThor:   20000,
		Run:         runC11,
		Post:        func(d *core.DriveState) { fuzzStage(d, []string{"FuzzXMLEncDecrypt"}, 400000) },
		LevelText:   "Every length of cipher value up to 4 blocks+1 is enumerated for every algorithm, every GCM byte is tampered, and a grammar of structural mutations and key types is driven through the real Decrypt and the SP's pre-authentication decrypt path under a panic sentinel; must-reject classes (GCM tamper, zero padding, unaligned/short CBC, certificate mismatch) are judged by construction of the input. Held-on-observed.",
		LevelNote:   "Trusts Go crypto and internal/refenc for producing valid bases; recover() sees ordinary panics, process-fatal errors are attributed through the per-case journal.",
		Technique:   "runtime monitoring: panic sentinel + must-reject oracle over exhaustive length lattice and structure-aware mutants",
		DesignRef:   "DESIGN.md §5 C11",
	})
}

type c11Base struct {
	name string
	el   *etree.Element
	key  any
	pt   []byte
	blk  string
	rsa  bool
}

func c11Bases(c *core.Ctx) []c11Base {
	var out []c11Base
	sp := fx.K("sp_rsa2048")
	pt := []byte(`<saml:Assertion xmlns:saml="urn:oasis:names:tc:SAML:2.0:assertion" ID="x">hello world, hello world!</saml:Assertion>`)
	for _, alg := range refenc.BlockAlgs {
		key := make([]byte, refenc.KeySize(alg))
		c.Rng.Read(key)
		el, _, err := refenc.Encrypt(alg, "", "", nil, key, pt, c.Rng, false)
		if err != nil {
			panic(err)
		}
		out = append(out, c11Base{name: "ref-direct-" + shortAlg(alg), el: el, key: key, pt: pt, blk: alg})
		for _, tr := range []struct{ alg, dig string }{{refenc.OAEPMGF1P, refenc.DigestSHA1}, {refenc.OAEPMGF1P, refenc.DigestSHA256}, {refenc.OAEP11, refenc.DigestSHA256}, {refenc.RSA15, ""}} {
			el, _, err := refenc.Encrypt(alg, tr.alg, tr.dig, sp.Cert, nil, pt, c.Rng, true)
			if err != nil {
				panic(err)
			}
			out = append(out, c11Base{name: "ref-" + shortAlg(tr.alg) + "-" + shortAlg(alg), el: el, key: sp.RSA(), pt: pt, blk: alg, rsa: true})
		}
	}
	// repository samples (keys are the repository's test keys; decryption success is not required of mutants)
	for _, f := range []string{"input.xml", "input_gcm.xml", "ciphertext.xml", "ciphertext_gcm.xml", "encrypt-data-aes128-cbc.xml"} {
		b, err := os.ReadFile(filepath.Join("/repo/xmlenc/testdata", f))
		if err != nil {
			continue
		}
		d := etree.NewDocument()
		if d.ReadFromBytes(b) != nil || d.Root() == nil {
			continue
		}
		el := d.Root()
		if el.Tag != "EncryptedData" {
			if e := el.FindElement("//EncryptedData"); e != nil {
				el = e
			}
		}
		out = append(out, c11Base{name: "repo-" + f, el: el, key: sp.RSA(), rsa: true})
	}
	return out
}

func c11Keys() []struct {
	name string
	k    any
} {
	var ks []struct {
		name string
		k    any
	}
	add := func(n string, k any) {
		ks = append(ks, struct {
			name string
			k    any
		}{n, k})
	}
	for n := 0; n <= 33; n++ {
		add(fmt.Sprintf("bytes%d", n), make([]byte, n))
	}
	add("rsa-matching", fx.K("sp_rsa2048").RSA())
	add("rsa-other", fx.K("sp2_rsa2048").RSA())
	add("rsa-1024", fx.K("sp_rsa1024").RSA())
	add("rsa-4096", fx.K("sp_rsa4096").RSA())
	add("rsa-by-value", *fx.K("sp_rsa2048").RSA())
	add("ecdsa", fx.K("sp_p256").EC())
	add("string", "key")
	add("nil", nil)
	add("int", 7)
	add("cert", fx.K("sp_rsa2048").Cert)
	// values of the admitted types that carry no key material
	add("rsa-typed-nil", (*rsa.PrivateKey)(nil))
	add("rsa-zero", &rsa.PrivateKey{})
	add("rsa-zero-by-value", rsa.PrivateKey{})
	add("rsa-public-only", &rsa.PrivateKey{PublicKey: fx.K("sp_rsa2048").RSA().PublicKey})
	// complete keys in unusual shapes: the private exponent alone is enough to decrypt
	full := fx.K("sp_rsa2048").RSA()
	add("rsa-matching-no-primes", &rsa.PrivateKey{PublicKey: full.PublicKey, D: full.D})
	add("rsa-matching-one-prime", &rsa.PrivateKey{PublicKey: full.PublicKey, D: full.D, Primes: full.Primes[:1]})
	add("rsa-matching-no-precomputation", &rsa.PrivateKey{PublicKey: full.PublicKey, D: full.D, Primes: full.Primes})
	add("bytes-nil", []byte(nil))
	add("ecdsa-typed-nil", (*ecdsa.PrivateKey)(nil))
	add("cert-typed-nil", (*x509.Certificate)(nil))
	return ks
}

func setCipherValue(el *etree.Element, path string, b []byte) {
	cv := el.FindElement(path)
	if cv != nil {
		cv.SetText(base64.StdEncoding.EncodeToString(b))
	}
}

func getCipherValue(el *etree.Element, path string) []byte {
	cv := el.FindElement(path)
	if cv == nil {
		return nil
	}
	b, _ := base64.StdEncoding.DecodeString(strings.TrimSpace(cv.Text()))
	return b
}

// c11Decrypt runs xmlenc.Decrypt on (a re-parsed copy of) el and applies the oracle.
// mustReject != "" names the must-reject class; wantPT, when non-nil, is the only plaintext that may be returned.
func c11Decrypt(c *core.Ctx, desc string, el *etree.Element, key any, mustReject string) (pt []byte, err error, ok bool) {
	el2, raw, perr := refenc.Reparse(el)
	c.Eval()
	if perr != nil || el2 == nil {
		c.Count("mutant_not_xml")
		return nil, nil, false
	}
	c.Journal("C11 " + desc + "\n" + string(trunc(raw, 4000)))
	p, v, frame, _ := core.Guard(func() { pt, err = xmlenc.Decrypt(key, el2) })
	c.Nontrivial(desc)
	replay := map[string]any{"case": desc, "key_type": fmt.Sprintf("%T", key), "element": string(trunc(raw, 8000))}
	if kb, isB := key.([]byte); isB {
		replay["key_hex"] = fmt.Sprintf("%x", kb)
	}
	if p {
		c.Violation("C11/panic/"+frame+"/"+panicClass(v), fmt.Sprintf("panic %v (%s)", v, desc), replay)
		return nil, nil, false
	}
	if err == nil {
		c.Count("decrypt_returned_plaintext")
	} else {
		c.Count("decrypt_returned_error")
		c.Observe("error_classes", errClass(err))
	}
	if mustReject != "" && err == nil {
		c.Violation("C11/accepted/"+mustReject, fmt.Sprintf("Decrypt returned plaintext (%d bytes) for %s", len(pt), desc), replay)
		return pt, err, false
	}
	if (pt == nil) == (err == nil) && !(err == nil && len(pt) == 0) {
		// plaintext and error both set / both unset (empty plaintext with nil error is a legal result)
		if err != nil && pt != nil {
			c.Violation("C11/contract/both-set", "Decrypt returned plaintext and error", replay)
		}
	}
	return pt, err, true
}

func panicClass(v any) string {
	s := fmt.Sprint(v)
	switch {
	case strings.Contains(s, "slice bounds"):
		return "slice-bounds"
	case strings.Contains(s, "index out of range"):
		return "index-out-of-range"
	case strings.Contains(s, "nil pointer"):
		return "nil-pointer"
	case strings.Contains(s, "full blocks"):
		return "not-full-blocks"
	case strings.Contains(s, "IV length"):
		return "iv-length"
	case strings.Contains(s, "nonce"):
		return "nonce-length"
	case strings.Contains(s, "interface conversion"):
		return "type-assertion"
	}
	if len(s) > 40 {
		s = s[:40]
	}
	return strings.Map(func(r rune) rune {
		if r >= 'a' && r <= 'z' || r >= 'A' && r <= 'Z' || r >= '0' && r <= '9' {
			return r
		}
		return '_'
	}, s)
}

func errClass(err error) string {
	s := err.Error()
	if i := strings.Index(s, ":"); i > 0 && i < 60 {
		s = s[:i]
	}
	if len(s) > 60 {
		s = s[:60]
	}
	return s
}

func runC11(c *core.Ctx) {
	rnd := fx.NewRecReader(c.Seed)
	xmlenc.RandReader = rnd
	fx.SetNow(fx.Epoch)
	bases := c11Bases(c)
	keys := c11Keys()
	idx := 0
	mine := func() bool { idx++; return c.Mine(idx) }

	// 1. cipher-value lengths 0..4bs+1 (and some longer), every block algorithm, direct key and RSA-wrapped
	for _, b := range bases {
		if b.blk == "" {
			continue
		}
		bs := refenc.BlockSize(b.blk)
		reps := c.Pick(3, 40)
		for n := 0; n <= 4*bs+1+16; n++ {
			for rep := 0; rep < reps; rep++ {
				if !mine() {
					continue
				}
				cv := make([]byte, n)
				c.Rng.Read(cv)
				el := b.el.Copy()
				setCipherValue(el, "./CipherData/CipherValue", cv)
				must := ""
				if refenc.IsGCM(b.blk) {
					must = "gcm-random-cipher-value"
				} else if n < 2*bs || n%bs != 0 {
					must = "cbc-short-or-unaligned"
				}
				c11Decrypt(c, fmt.Sprintf("%s|cvlen=%d|rep=%d", b.name, n, rep), el, b.key, must)
			}
		}
		// the wrapped key's cipher value: lengths around the modulus size and small ones
		if b.rsa {
			for _, n := range []int{0, 1, 15, 16, 17, 127, 128, 129, 255, 256, 257, 511, 512, 513} {
				if !mine() {
					continue
				}
				cv := make([]byte, n)
				c.Rng.Read(cv)
				el := b.el.Copy()
				setCipherValue(el, "./KeyInfo/EncryptedKey/CipherData/CipherValue", cv)
				c11Decrypt(c, fmt.Sprintf("%s|wrappedlen=%d", b.name, n), el, b.key, "wrapped-key-garbage")
			}
		}
	}

	// 2. GCM: any modification of a valid cipher value must be rejected
	for _, b := range bases {
		if !refenc.IsGCM(b.blk) || b.pt == nil {
			continue
		}
		orig := getCipherValue(b.el, "./CipherData/CipherValue")
		// positive control
		if mine() {
			pt, err, _ := c11Decrypt(c, b.name+"|gcm-control", b.el, b.key, "")
			if err != nil || !bytes.Equal(pt, b.pt) {
				c.Violation("C11/control/gcm", fmt.Sprintf("valid GCM ciphertext not decrypted: %v", err), b.name)
			}
		}
		for i := 0; i < len(orig); i++ {
			bits := []int{c.Rng.Intn(8)}
			if c.Thorough() {
				bits = []int{0, 1, 2, 3, 4, 5, 6, 7}
			}
			for _, bit := range bits {
				if !mine() {
					continue
				}
				cv := append([]byte(nil), orig...)
				cv[i] ^= 1 << bit
				el := b.el.Copy()
				setCipherValue(el, "./CipherData/CipherValue", cv)
				c11Decrypt(c, fmt.Sprintf("%s|gcm-flip byte=%d bit=%d", b.name, i, bit), el, b.key, "gcm-tampered")
			}
		}
		for n := 0; n < len(orig); n++ { // truncations
			if !mine() {
				continue
			}
			el := b.el.Copy()
			setCipherValue(el, "./CipherData/CipherValue", orig[:n])
			c11Decrypt(c, fmt.Sprintf("%s|gcm-truncate to=%d", b.name, n), el, b.key, "gcm-tampered")
		}
		for n := 1; n <= 33; n++ { // extensions
			if !mine() {
				continue
			}
			ext := make([]byte, n)
			c.Rng.Read(ext)
			for _, front := range []bool{false, true} {
				cv := append(append([]byte(nil), orig...), ext...)
				if front {
					cv = append(append([]byte(nil), ext...), orig...)
				}
				el := b.el.Copy()
				setCipherValue(el, "./CipherData/CipherValue", cv)
				c11Decrypt(c, fmt.Sprintf("%s|gcm-extend by=%d front=%v", b.name, n, front), el, b.key, "gcm-tampered")
			}
		}
	}

	// 3. CBC: crafted final padding byte
	for _, alg := range []string{refenc.AES128CBC, refenc.AES192CBC, refenc.AES256CBC, refenc.TDESCBC} {
		bs := refenc.BlockSize(alg)
		key := make([]byte, refenc.KeySize(alg))
		c.Rng.Read(key)
		var blk cipher.Block
		if alg == refenc.TDESCBC {
			blk, _ = des.NewTripleDESCipher(key)
		} else {
			blk, _ = aes.NewCipher(key)
		}
		for nblocks := 1; nblocks <= 3; nblocks++ {
			for pad := 0; pad <= 255; pad++ {
				if !mine() {
					continue
				}
				raw := make([]byte, nblocks*bs)
				c.Rng.Read(raw)
				raw[len(raw)-1] = byte(pad)
				iv := make([]byte, bs)
				c.Rng.Read(iv)
				ct := make([]byte, len(raw))
				cipher.NewCBCEncrypter(blk, iv).CryptBlocks(ct, raw)
				el := refenc.DataElement(alg, append(iv, ct...), nil)
				must := ""
				switch {
				case pad == 0:
					must = "cbc-zero-padding"
				case pad > len(raw):
					must = "cbc-padding-longer-than-data"
				}
				pt, err, ok := c11Decrypt(c, fmt.Sprintf("pad|%s|blocks=%d|pad=%d", shortAlg(alg), nblocks, pad), el, key, must)
				if ok && must == "" && pad >= 1 && pad <= bs {
					// legal padding: must decrypt to the prefix
					if err != nil || !bytes.Equal(pt, raw[:len(raw)-pad]) {
						c.Violation("C11/legal-padding-rejected/"+shortAlg(alg), fmt.Sprintf("pad=%d blocks=%d: err=%v", pad, nblocks, err), map[string]any{"alg": alg, "pad": pad})
					} else {
						c.Count("legal_padding_ok")
					}
				} else if ok && must == "" {
					c.Count("grey_padding_above_blocksize")
				}
			}
		}
	}

	// 4. embedded certificate does not match the supplied private key
	certVariants := []struct{ name, text string }{
		{"other-rsa", fx.K("sp2_rsa2048").CertB64()},
		{"other-rsa-4096", fx.K("sp_rsa4096").CertB64()},
		{"ec-cert", fx.K("sp_p256").CertB64()},
		{"garbage", "bm90IGEgY2VydGlmaWNhdGU="},
		{"not-base64", "!!!not base64!!!"},
		{"empty", ""},
		{"whitespace", " \n\t "},
		{"truncated", fx.K("sp_rsa2048").CertB64()[:200]},
		// certificates of another key that are unusual in a way certificate-handling code likes to special-case
		{"other-rsa-ca", fx.CertVariant(fx.K("sp2_rsa2048"), func(t *x509.Certificate) { t.IsCA = true; t.KeyUsage |= x509.KeyUsageCertSign })},
		{"other-rsa-ca-pathlen0", fx.CertVariant(fx.K("sp3_rsa2048"), func(t *x509.Certificate) { t.IsCA = true; t.MaxPathLenZero = true; t.KeyUsage = x509.KeyUsageCertSign })},
		{"other-rsa-expired", fx.CertVariant(fx.K("sp2_rsa2048"), func(t *x509.Certificate) { t.NotAfter = time.Date(2001, 1, 1, 0, 0, 0, 0, time.UTC) })},
		{"other-rsa-same-subject", fx.CertVariant(fx.K("sp2_rsa2048"), func(t *x509.Certificate) {
			t.Subject = fx.K("sp_rsa2048").Cert.Subject
			t.SerialNumber = fx.K("sp_rsa2048").Cert.SerialNumber
		})},
		{"other-rsa-no-keyusage", fx.CertVariant(fx.K("sp3_rsa2048"), func(t *x509.Certificate) { t.KeyUsage = 0; t.BasicConstraintsValid = false })},
		{"other-ec-ca", fx.CertVariant(fx.K("sp_p384"), func(t *x509.Certificate) { t.IsCA = true })},
	}
	for _, b := range bases {
		if !b.rsa || b.pt == nil {
			continue
		}
		if mine() { // control: matching cert is accepted
			pt, err, _ := c11Decrypt(c, b.name+"|cert-control", b.el, b.key, "")
			if err != nil || !bytes.Equal(pt, b.pt) {
				c.Violation("C11/control/rsa", fmt.Sprintf("valid wrapped ciphertext not decrypted: %v", err), b.name)
			}
		}
		for _, cvn := range certVariants {
			if !mine() {
				continue
			}
			el := b.el.Copy()
			x := el.FindElement("./KeyInfo/EncryptedKey/KeyInfo/X509Data/X509Certificate")
			x.SetText(cvn.text)
			c11Decrypt(c, b.name+"|cert="+cvn.name, el, b.key, "certificate-mismatch")
			// the same mismatch with the other things an X509Data may carry next to the certificate
			if strings.HasPrefix(cvn.name, "other-rsa") {
				for si, sib := range []string{"ds:X509IssuerSerial", "ds:X509SubjectName", "ds:X509SKI", "ds:X509CRL", "ds:X509Digest"} {
					el2 := el.Copy()
					xd := el2.FindElement("./KeyInfo/EncryptedKey/KeyInfo/X509Data")
					n := etree.NewElement(sib)
					if sib == "ds:X509IssuerSerial" {
						n.CreateElement("ds:X509IssuerName").SetText("CN=someone")
						n.CreateElement("ds:X509SerialNumber").SetText("424242")
					} else {
						n.SetText("AAAA")
					}
					if si%2 == 0 {
						xd.InsertChildAt(0, n)
					} else {
						xd.AddChild(n)
					}
					c11Decrypt(c, b.name+"|cert="+cvn.name+"+"+sib, el2, b.key, "certificate-mismatch")
				}
			}
		}
		// matching cert text with surrounding white space / line breaks stays acceptable or is rejected: no verdict, no panic
		if mine() {
			el := b.el.Copy()
			x := el.FindElement("./KeyInfo/EncryptedKey/KeyInfo/X509Data/X509Certificate")
			t := x.Text()
			x.SetText("\n  " + t[:64] + "\n" + t[64:] + "\n")
			c11Decrypt(c, b.name+"|cert=wrapped-lines", el, b.key, "")
		}
	}

	// 4a. a VALID cipher value with 1..blocksize-1 stray bytes appended, or cut by as many: no longer whole blocks, must be refused
	for _, b := range bases {
		if b.blk == "" || refenc.IsGCM(b.blk) || b.pt == nil {
			continue
		}
		bs := refenc.BlockSize(b.blk)
		cv := getCipherValue(b.el, "./CipherData/CipherValue")
		for extra := 1; extra < bs; extra++ {
			for _, cut := range []bool{false, true} {
				if !mine() {
					continue
				}
				el := b.el.Copy()
				mod := append(append([]byte(nil), cv...), bytes.Repeat([]byte{byte(extra)}, extra)...)
				tag := "valid+stray"
				if cut {
					if len(cv) <= extra {
						continue
					}
					mod, tag = cv[:len(cv)-extra], "valid-cut"
				}
				setCipherValue(el, "./CipherData/CipherValue", mod)
				c11Decrypt(c, fmt.Sprintf("%s|%s bytes=%d", b.name, tag, extra), el, b.key, "cbc-short-or-unaligned")
			}
		}
	}

	// 4b. every algorithm identifier of the dictionary in every position that names an algorithm, one at a time
	for _, b := range bases {
		if b.pt == nil {
			continue
		}
		for _, path := range []string{"./EncryptionMethod", "./KeyInfo/EncryptedKey/EncryptionMethod", "./KeyInfo/EncryptedKey/EncryptionMethod/DigestMethod", "+DigestMethod", "+MGF"} {
			for _, uri := range algURIs {
				if !mine() {
					continue
				}
				el := b.el.Copy()
				var target *etree.Element
				switch path {
				case "+DigestMethod": // a DigestMethod where there was none (or a second one)
					if em := el.FindElement("./KeyInfo/EncryptedKey/EncryptionMethod"); em != nil {
						target = em.CreateElement("ds:DigestMethod")
					}
				case "+MGF":
					if em := el.FindElement("./KeyInfo/EncryptedKey/EncryptionMethod"); em != nil {
						target = em.CreateElement("xenc11:MGF")
						target.CreateAttr("xmlns:xenc11", "http://www.w3.org/2009/xmlenc11#")
					}
				default:
					target = el.FindElement(path)
				}
				if target == nil {
					continue
				}
				target.CreateAttr("Algorithm", uri)
				c11Decrypt(c, fmt.Sprintf("%s|algorithm-dictionary %s=%q", b.name, path, uri), el, b.key, "")
				c.Count("algorithm_dictionary_cases")
			}
		}
	}

	// 5. structural mutations x key kinds
	nmut := c.Pick(60000, 1500000)
	for i := 0; i < nmut/c.NShards; i++ {
		b := bases[c.Rng.Intn(len(bases))]
		el := b.el.Copy()
		var ops []string
		for k := 1 + c.Rng.Intn(3); k > 0; k-- {
			ops = append(ops, c11Mutate(c, el))
		}
		var key any = b.key
		kname := "base-key"
		if c.Rng.Intn(3) == 0 {
			kk := keys[c.Rng.Intn(len(keys))]
			key, kname = kk.k, kk.name
		}
		desc := fmt.Sprintf("%s|%s|key=%s", b.name, strings.Join(ops, ";"), kname)
		c11Decrypt(c, desc, el, key, "")
		if i%5 == 0 {
			c11ViaSP(c, desc, el)
		}
		if i%997 == 0 {
			c.Sample(map[string]any{"case": desc})
		}
	}
	// every key kind against every base unmutated
	for _, b := range bases {
		for _, kk := range keys {
			if !mine() {
				continue
			}
			c11Decrypt(c, b.name+"|unmutated|key="+kk.name, b.el, kk.k, "")
		}
	}
	// deep nesting of EncryptedKey inside EncryptedKey
	for _, depth := range []int{2, 6, 50, 2000} {
		if !mine() {
			continue
		}
		b := bases[1]
		el := b.el.Copy()
		ek := el.FindElement("./KeyInfo/EncryptedKey")
		for d := 0; d < depth && ek != nil; d++ {
			ki := etree.NewElement("ds:KeyInfo")
			nk := ek.Copy()
			ki.AddChild(nk)
			// make the outer key itself "encrypted with a block cipher" so that the dispatcher recurses
			if em := ek.FindElement("./EncryptionMethod"); em != nil {
				em.CreateAttr("Algorithm", refenc.AES128CBC)
			}
			ek.InsertChildAt(0, ki)
			ek = nk
		}
		c11Decrypt(c, fmt.Sprintf("%s|nest-depth=%d", b.name, depth), el, b.key, "")
	}
}

var c11Algs = []string{refenc.AES128CBC, refenc.AES192CBC, refenc.AES256CBC, refenc.TDESCBC, refenc.AES128GCM, refenc.OAEPMGF1P, refenc.OAEP11, refenc.RSA15,
	"http://www.w3.org/2009/xmlenc11#aes256-gcm", "urn:unknown", "", " ", "http://www.w3.org/2001/04/xmlenc#kw-aes128"}

func c11Mutate(c *core.Ctx, root *etree.Element) string {
	r := c.Rng
	all := root.FindElements("//*")
	all = append(all, root)
	pick := func() *etree.Element { return all[r.Intn(len(all))] }
	switch r.Intn(14) {
	case 0: // remove an element
		e := pick()
		if e.Parent() != nil && e != root {
			e.Parent().RemoveChild(e)
			return "remove:" + e.Tag
		}
		return "noop"
	case 1: // duplicate an element next to itself
		e := pick()
		if e.Parent() != nil && e != root {
			e.Parent().InsertChildAt(e.Index(), e.Copy())
			return "dup:" + e.Tag
		}
		return "noop"
	case 2: // move an element under another
		e, t := pick(), pick()
		if e != root && e.Parent() != nil && !isAncestor(e, t) {
			e.Parent().RemoveChild(e)
			t.AddChild(e)
			return "move:" + e.Tag + "->" + t.Tag
		}
		return "noop"
	case 3: // set Algorithm
		ems := root.FindElements("//EncryptionMethod")
		ems = append(ems, root.FindElements("//DigestMethod")...)
		if len(ems) > 0 {
			e := ems[r.Intn(len(ems))]
			a := c11Algs[r.Intn(len(c11Algs))]
			if r.Intn(4) == 0 {
				a = refenc.Digests[r.Intn(len(refenc.Digests))]
			}
			e.CreateAttr("Algorithm", a)
			return "alg:" + e.Tag + "=" + shortAlg(a)
		}
		return "noop"
	case 4: // drop Algorithm attribute
		ems := root.FindElements("//EncryptionMethod")
		if len(ems) > 0 {
			e := ems[r.Intn(len(ems))]
			e.RemoveAttr("Algorithm")
			return "noalg:" + e.Tag
		}
		return "noop"
	case 5: // swap algorithms between key and data level
		d := root.FindElement("./EncryptionMethod")
		k := root.FindElement("./KeyInfo/EncryptedKey/EncryptionMethod")
		if d != nil && k != nil {
			a, b := d.SelectAttrValue("Algorithm", ""), k.SelectAttrValue("Algorithm", "")
			d.CreateAttr("Algorithm", b)
			k.CreateAttr("Algorithm", a)
			return "swapalg"
		}
		return "noop"
	case 6: // cipher value text noise
		cvs := root.FindElements("//CipherValue")
		if len(cvs) > 0 {
			e := cvs[r.Intn(len(cvs))]
			t := e.Text()
			switch r.Intn(7) {
			case 0:
				e.SetText("")
			case 1:
				e.SetText(t + "=")
			case 2:
				e.SetText(strings.ReplaceAll(t, "+", "-"))
			case 3:
				e.SetText(" \n" + t[:len(t)/2] + "\n" + t[len(t)/2:] + "\n ")
			case 4:
				e.SetText(t[:r.Intn(len(t)+1)])
			case 5:
				e.SetText("%%%" + t)
			case 6:
				e.SetText(strings.TrimRight(t, "="))
			}
			return "cvnoise"
		}
		return "noop"
	case 7: // nest an EncryptedKey into an EncryptedKey
		ek := root.FindElement("//EncryptedKey")
		if ek != nil {
			ki := etree.NewElement("ds:KeyInfo")
			ki.AddChild(ek.Copy())
			ek.InsertChildAt(r.Intn(len(ek.Child)+1), ki)
			return "nestkey"
		}
		return "noop"
	case 8: // RetrievalMethod instead of EncryptedKey
		ki := root.FindElement("./KeyInfo")
		if ki != nil {
			rm := etree.NewElement("ds:RetrievalMethod")
			rm.CreateAttr("URI", "#ek")
			rm.CreateAttr("Type", "http://www.w3.org/2001/04/xmlenc#EncryptedKey")
			ki.InsertChildAt(0, rm)
			if r.Intn(2) == 0 {
				if ek := ki.FindElement("./EncryptedKey"); ek != nil {
					ki.RemoveChild(ek)
				}
			}
			return "retrieval"
		}
		return "noop"
	case 9: // rename an element (namespace prefix / tag)
		e := pick()
		switch r.Intn(3) {
		case 0:
			e.Space = ""
		case 1:
			e.Space = "zz"
		case 2:
			e.Tag = e.Tag + "X"
		}
		return "rename:" + e.Tag
	case 10: // swap two siblings
		e := pick()
		if p := e.Parent(); p != nil && len(p.ChildElements()) > 1 {
			ch := p.ChildElements()
			o := ch[r.Intn(len(ch))]
			if o != e {
				i, j := e.Index(), o.Index()
				p.Child[i], p.Child[j] = p.Child[j], p.Child[i]
				return "swap:" + e.Tag + "<>" + o.Tag
			}
		}
		return "noop"
	case 11: // replace text of X509Certificate
		x := root.FindElement("//X509Certificate")
		if x != nil {
			x.SetText([]string{"", " ", "AAAA", fx.K("sp_p256").CertB64(), fx.K("sp2_rsa2048").CertB64(), "-----BEGIN"}[r.Intn(6)])
			return "cert"
		}
		return "noop"
	case 12: // add X509IssuerSerial
		x := root.FindElement("//X509Data")
		if x != nil {
			is := x.CreateElement("ds:X509IssuerSerial")
			is.CreateElement("ds:X509IssuerName").SetText("CN=x")
			if r.Intn(2) == 0 {
				if cert := x.FindElement("./X509Certificate"); cert != nil {
					x.RemoveChild(cert)
				}
			}
			return "issuerserial"
		}
		return "noop"
	default: // empty element children / comments / cdata inside CipherValue
		cvs := root.FindElements("//CipherValue")
		if len(cvs) > 0 {
			e := cvs[r.Intn(len(cvs))]
			t := e.Text()
			e.SetText("")
			e.Child = nil
			e.CreateComment("c")
			e.CreateText(t)
			if r.Intn(2) == 0 {
				e.CreateElement("x").SetText("y")
			}
			return "cvchildren"
		}
		return "noop"
	}
}

func isAncestor(a, b *etree.Element) bool {
	for p := b; p != nil; p = p.Parent() {
		if p == a {
			return true
		}
	}
	return false
}

var c11SP *saml.ServiceProvider

// c11ViaSP wraps the element as EncryptedAssertion of an unsigned Response and feeds ParseXMLResponse:
// this is the pre-authentication path by which attacker ciphertext reaches xmlenc.
func c11ViaSP(c *core.Ctx, desc string, ed *etree.Element) {
	if c11SP == nil {
		idp := fx.K("idp_s1")
		md := &saml.EntityDescriptor{EntityID: "https://idp.example.com/metadata", IDPSSODescriptors: []saml.IDPSSODescriptor{{
			SSODescriptor: saml.SSODescriptor{RoleDescriptor: saml.RoleDescriptor{KeyDescriptors: []saml.KeyDescriptor{{Use: "signing", KeyInfo: saml.KeyInfo{X509Data: saml.X509Data{X509Certificates: []saml.X509Certificate{{Data: idp.CertB64()}}}}}}}},
		}}}
		sp := fx.K("sp_rsa2048")
		c11SP = &saml.ServiceProvider{Key: sp.Key, Certificate: sp.Cert, MetadataURL: mustURL("https://sp.example.com/saml/metadata"), AcsURL: mustURL("https://sp.example.com/saml/acs"), IDPMetadata: md}
	}
	doc := etree.NewDocument()
	resp := doc.CreateElement("samlp:Response")
	resp.CreateAttr("xmlns:samlp", "urn:oasis:names:tc:SAML:2.0:protocol")
	resp.CreateAttr("xmlns:saml", "urn:oasis:names:tc:SAML:2.0:assertion")
	resp.CreateAttr("xmlns:ds", refenc.NSDsig)
	resp.CreateAttr("xmlns:xenc", refenc.NSXenc)
	resp.CreateAttr("xmlns:zz", "urn:zz")
	resp.CreateAttr("ID", "id-r")
	resp.CreateAttr("InResponseTo", "id-req")
	resp.CreateAttr("Version", "2.0")
	resp.CreateAttr("IssueInstant", fx.Epoch.Format("2006-01-02T15:04:05Z"))
	resp.CreateAttr("Destination", "https://sp.example.com/saml/acs")
	resp.CreateElement("saml:Issuer").SetText("https://idp.example.com/metadata")
	resp.CreateElement("samlp:Status").CreateElement("samlp:StatusCode").CreateAttr("Value", saml.StatusSuccess)
	ea := resp.CreateElement("saml:EncryptedAssertion")
	cp := ed.Copy()
	ea.AddChild(cp)
	if c.Rng.Intn(3) == 0 { // EncryptedKey as sibling of EncryptedData (the other layout the SP supports)
		if ek := cp.FindElement("./KeyInfo/EncryptedKey"); ek != nil {
			ek.Parent().RemoveChild(ek)
			ea.AddChild(ek)
		}
	}
	raw, err := doc.WriteToBytes()
	c.Eval()
	if err != nil {
		return
	}
	c.Journal("C11 viaSP " + desc + "\n" + string(trunc(raw, 4000)))
	var a *saml.Assertion
	var perr error
	p, v, frame, _ := core.Guard(func() {
		a, perr = c11SP.ParseXMLResponse(raw, []string{"id-req"}, url.URL{Scheme: "https", Host: "sp.example.com", Path: "/saml/acs"})
	})
	c.Nontrivial("sp|" + desc)
	c.Count("via_sp_calls")
	if p {
		c.Violation("C11/panic-via-sp/"+frame+"/"+panicClass(v), fmt.Sprintf("ParseXMLResponse panic %v (%s)", v, desc), map[string]any{"case": desc, "response": string(trunc(raw, 8000))})
		return
	}
	if perr == nil || a != nil {
		c.Violation("C11/via-sp/accepted-unsigned", "ParseXMLResponse accepted an unsigned response with attacker ciphertext", map[string]any{"case": desc, "response": string(trunc(raw, 8000))})
	}
}
