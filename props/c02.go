package props

import (
	"fmt"
	"strings"
	"time"

	"github.com/beevik/etree"
	"github.com/crewjam/saml"

	"verif/internal/core"
	"verif/internal/fx"
	"verif/internal/so"
)

// C02 — SP enforces assertion and response validity windows at the documented tolerances.

func init() {
	core.RegisterSpec(&core.Spec{
		ID:    "C02",
		Level: "exploration",
		Rule: "validly IdP-signed responses whose five instants (Response/Assertion IssueInstant, Conditions NotBefore/NotOnOrAfter, confirmation NotOnOrAfter) each take one of {bound-1ms violating, bound+1ms satisfying, far inside, far outside} relative to a virtual now: the full 4^5 lattice for the single-assertion shape " +
			"under every tolerance pair, and seeded samples for the multi-confirmation / multi-assertion shapes, both signing layouts, lexical time forms (Z, +05:30, -08:00, no zone, 0..9 fraction digits with sub-ms parts that round to the target) and the artifact entry point (ArtifactResponse IssueInstant; envelope signed or not), unsigned Responses with and without Destination. " +
			"Oracle: accept iff every bound holds (by >=1ms), reject iff one is violated (by >=1ms); mixed multi-assertion responses only require that the returned assertion satisfies all bounds. Non-trivial = response reached the time checks (accepted, or rejected with a time-related PrivateErr) ; distinct by lattice point x shape x tolerance x layout x lexical form.",
		Assumptions: []string{"goxmldsig validates the oracle's own signatures correctly", "exact-boundary instants are not judged (only +-1ms)", "instants are compared after rounding to the millisecond, as RelaxedTime documents"},
		FloorQuick:  2500,
		FloorThor:   8000,
		Exhaustive:  true,
		Run:         runC02,
		LevelText:   "Exhaustive +-1ms boundary lattice over all five bounds for six tolerance settings on validly signed responses (which a fuzzer cannot produce), judged by an arithmetic oracle computed from the instants the generator chose; sampled for multi-confirmation/multi-assertion shapes. Held-on-observed.",
		LevelNote:   "Trusts goxmldsig for producing the valid signatures, the harness's instant arithmetic, and that saml.TimeNow/Clock are the only clocks on this path.",
		Technique:   "runtime monitoring: virtual clock + boundary-lattice oracle on signing-oracle messages",
		DesignRef:   "DESIGN.md §5 C02",
	})
}

type c02Tol struct{ D, S time.Duration }

var c02Tols = []c02Tol{
	{90 * time.Second, 180 * time.Second}, {0, 0}, {time.Millisecond, time.Millisecond}, {7 * time.Second, 3 * time.Second}, {3 * time.Second, 7 * time.Second}, {24 * time.Hour, time.Hour},
}

// lattice positions: 0 = violating by 1ms, 1 = satisfying by 1ms, 2 = far inside, 3 = far outside
func posOK(p int) bool { return p == 1 || p == 2 }

// lower-bounded instants (IssueInstant must be >= N-D ; NotOnOrAfter must be >= N-S): value for position p.
func lowerBounded(n time.Time, tol time.Duration, p int) time.Time {
	b := n.Add(-tol)
	switch p {
	case 0:
		return b.Add(-time.Millisecond)
	case 1:
		return b.Add(time.Millisecond)
	case 2:
		return b.Add(tol/2 + 10*time.Minute) // well inside (may be in the future: allowed)
	case 4:
		return time.Date(1600, 2, 29, 12, 0, 0, 0, time.UTC) // centuries outside (int64 nanosecond differences wrap around here)
	default:
		return b.Add(-2*tol - time.Hour)
	}
}

// upper-bounded instant (NotBefore must be <= N+S)
func upperBounded(n time.Time, tol time.Duration, p int) time.Time {
	b := n.Add(tol)
	switch p {
	case 0:
		return b.Add(time.Millisecond)
	case 1:
		return b.Add(-time.Millisecond)
	case 2:
		return b.Add(-tol/2 - 10*time.Minute)
	case 4:
		return time.Date(2500, 1, 1, 0, 0, 0, 0, time.UTC) // centuries outside
	default:
		return b.Add(2*tol + time.Hour)
	}
}

// lexical renders t (ms precision) in one of several forms that all denote t after ms rounding.
func lexical(t time.Time, form int) string {
	switch form {
	case 0:
		return t.UTC().Format("2006-01-02T15:04:05.000Z")
	case 1:
		return t.In(time.FixedZone("", 5*3600+1800)).Format("2006-01-02T15:04:05.000-07:00")
	case 2:
		return t.In(time.FixedZone("", -8*3600)).Format("2006-01-02T15:04:05.000-07:00")
	case 3:
		return t.UTC().Format("2006-01-02T15:04:05.000") // no zone: UTC assumed
	case 4: // +0.4ms with 4 digits -> rounds down to t
		return t.UTC().Add(400 * time.Microsecond).Format("2006-01-02T15:04:05.0000Z")
	case 5: // -0.4ms with 6 digits -> rounds up to t
		return t.UTC().Add(-400 * time.Microsecond).Format("2006-01-02T15:04:05.000000Z")
	case 6: // -0.5ms (exact half) with 9 digits -> rounds up to t
		return t.UTC().Add(-500 * time.Microsecond).Format("2006-01-02T15:04:05.000000000Z")
	case 7: // trimmed fraction (0..3 digits as Go's .999 prints it)
		return t.UTC().Format("2006-01-02T15:04:05.999Z")
	case 8:
		return t.In(time.FixedZone("", 14*3600)).Format("2006-01-02T15:04:05.000000-07:00")
	}
	return t.UTC().Format(time.RFC3339Nano)
}

const c02Forms = 9

type c02Case struct {
	tol      c02Tol
	pos      [5]int // R.II, A.II, NB, NOOA, C.NOOA
	shape    int    // 0 single; 1 two confirmations bad first; 2 two confirmations bad second; 3 two assertions bad first; 4 two assertions bad second; 5 no subject confirmation at all
	layout   int    // 0 response signed, 1 assertion(s) signed
	form     int
	entry    int   // 0 xml, 1 post, 2 artifact (AR.II satisfying), 3 artifact (AR.II violating)
	allowIDP bool  // AllowIDPInitiated on the SP: waives the request-ID rule, never a time bound
	methods  []int // confirmation Method per confirmation
	arSigned bool  // artifact entries: the ArtifactResponse envelope carries its own signature as well
	nowOff   time.Duration
}

func (k c02Case) String() string {
	return fmt.Sprintf("D=%v S=%v pos=%v shape=%d layout=%d form=%d entry=%d arsigned=%v allowIDP=%v methods=%v nowoff=%v", k.tol.D, k.tol.S, k.pos, k.shape, k.layout, k.form, k.entry, k.arSigned, k.allowIDP, k.methods, k.nowOff)
}

func setTimes(ael *etree.Element, aII, nb, nooa time.Time, cNOOA []time.Time, form int) {
	ael.CreateAttr("IssueInstant", lexical(aII, form))
	if c := ael.FindElement("./Conditions"); c != nil {
		c.CreateAttr("NotBefore", lexical(nb, form))
		c.CreateAttr("NotOnOrAfter", lexical(nooa, form))
	}
	i := 0
	for _, sc := range ael.FindElements("./Subject/SubjectConfirmation/SubjectConfirmationData") {
		if i < len(cNOOA) {
			sc.CreateAttr("NotOnOrAfter", lexical(cNOOA[i], form))
		}
		i++
	}
}

func runC02(c *core.Ctx) {
	o := so.New(c.Rng)
	sp := so.NewSP("meta-one-signing", fx.K("sp_rsa2048"))
	s1 := fx.K("idp_s1")
	defer fx.ResetTolerances()

	var cases []c02Case
	idx := 0
	add := func(k c02Case) {
		idx++
		if c.Mine(idx) {
			cases = append(cases, k)
		}
	}
	// full lattice, single assertion, for every tolerance pair (quick: two pairs full, others every 5th point)
	for ti, tol := range c02Tols {
		for p := 0; p < 1024; p++ {
			pos := [5]int{p & 3, (p >> 2) & 3, (p >> 4) & 3, (p >> 6) & 3, (p >> 8) & 3}
			if c.Quick() && ti >= 2 && p%5 != ti%5 {
				continue
			}
			for layout := 0; layout < 2; layout++ {
				if c.Quick() && layout == 1 && p%3 != 0 {
					continue
				}
				add(c02Case{tol: tol, pos: pos, layout: layout, form: (p + layout + ti) % c02Forms, nowOff: time.Duration(p%7) * 137 * time.Microsecond})
			}
		}
	}
	// shapes with several confirmations / assertions, other entry points and lexical forms: seeded sample (thorough: full cross product on a thinner lattice)
	nextra := c.Pick(24000, 500000)
	for i := 0; i < nextra; i++ {
		k := c02Case{tol: c02Tols[c.Rng.Intn(len(c02Tols))], shape: c.Rng.Intn(7), layout: c.Rng.Intn(2), form: c.Rng.Intn(c02Forms), entry: c.Rng.Intn(4), nowOff: time.Duration(c.Rng.Intn(1000)) * time.Microsecond}
		for j := range k.pos {
			k.pos[j] = c.Rng.Intn(4)
			if c.Rng.Intn(3) == 0 {
				k.pos[j] = 1 + c.Rng.Intn(2) // bias towards satisfied so that single violations dominate
			}
			if c.Rng.Intn(25) == 0 {
				k.pos[j] = 4
			}
		}
		if k.entry >= 2 && c.Rng.Intn(2) == 0 {
			k.entry = c.Rng.Intn(2)
		}
		k.arSigned = k.entry >= 2 && c.Rng.Intn(2) == 0
		k.allowIDP = c.Rng.Intn(4) == 0
		k.methods = pickConfMethods(c.Rng, 2)
		add(k)
	}

	for _, k := range cases {
		c02Run(c, o, sp, s1, k)
	}
	// the same bytes delivered again to the same SP at other clock positions: every delivery is judged on its own clock
	for i := 0; i < c.Pick(300, 6000); i++ {
		if c.Mine(i) {
			c02Redelivery(c, o, sp, s1)
		}
	}
}

// c02Redelivery builds one valid response with generous condition windows and delivers the identical bytes several times
// while the clock moves back and forth across IssueInstant+MaxIssueDelay (and finally past the condition windows).
func c02Redelivery(c *core.Ctx, o *so.Oracle, sp *saml.ServiceProvider, s1 *fx.KeyPair) {
	o.Reset()
	tol := c02Tols[1+c.Rng.Intn(len(c02Tols)-1)]
	if tol.D < 2*time.Millisecond {
		tol.D = 90 * time.Second
	}
	fx.SetTolerances(tol.D, tol.S)
	sp.AllowIDPInitiated = false
	n := fx.Epoch
	fx.SetNow(n)
	window := 10*time.Hour + 4*tol.D
	sa := o.Assertion(so.AssertionSpec{RequestID: "req-1", NameID: "tag-R", Now: n})
	el := sa.Element()
	setTimes(el, n, n.Add(-time.Hour), n.Add(window), []time.Time{n.Add(window)}, 0)
	layout := c.Rng.Intn(2)
	var err error
	if layout == 1 {
		if el, err = o.Sign(el, s1, ""); err != nil {
			return
		}
	}
	rel := so.ResponseEl(o.Response("req-1", n), el)
	rel.CreateAttr("IssueInstant", lexical(n, 0))
	if layout == 0 {
		if rel, err = o.Sign(rel, s1, ""); err != nil {
			return
		}
	}
	raw := so.Bytes(rel)
	cur := mustURL(so.SPACS)
	offsets := []time.Duration{0, tol.D - time.Millisecond, tol.D + time.Millisecond, time.Second, tol.D + time.Hour, tol.D / 2, window + tol.S + time.Millisecond, window + tol.S - time.Millisecond}
	steps := 3 + c.Rng.Intn(4)
	var hist []string
	for s := 0; s < steps; s++ {
		off := offsets[c.Rng.Intn(len(offsets))]
		if s == 0 && c.Rng.Intn(2) == 0 {
			off = 0 // usually accepted once first
		}
		fx.SetNow(n.Add(off))
		wantAccept := off <= tol.D-time.Millisecond // the issue-instant bound is the tightest; the condition windows are wider by construction
		if off >= tol.D+time.Millisecond {
			wantAccept = false
		}
		var perr error
		p, pv, frame, _ := core.Guard(func() {
			if c.Rng.Intn(2) == 0 {
				_, perr = sp.ParseXMLResponse(raw, []string{"req-1"}, cur)
			} else {
				_, perr = so.DeliverPOST(sp, raw, []string{"req-1"}, cur)
			}
		})
		c.Eval()
		hist = append(hist, fmt.Sprintf("now=issue+%v:%v", off, perr == nil))
		desc := fmt.Sprintf("redelivery D=%v S=%v layout=%d history=[%s]", tol.D, tol.S, layout, strings.Join(hist, " "))
		replay := map[string]any{"case": desc, "response": string(raw)}
		if p {
			c.Violation("C02/panic/"+frame, fmt.Sprintf("panic %v", pv), replay)
			return
		}
		c.Nontrivial(desc)
		switch {
		case perr == nil && !wantAccept:
			c.Violation("C02/accepted-outside-window/redelivery/Response.IssueInstant+MaxIssueDelay", fmt.Sprintf("the same bytes were accepted %v after their IssueInstant (%s)", off, desc), replay)
			return
		case perr != nil && wantAccept:
			c.Violation("C02/rejected-inside-windows/redelivery", fmt.Sprintf("rejected %v after IssueInstant although every bound holds: %s (%s)", off, errPrivate(perr), desc), replay)
			return
		}
		c.Count("redeliveries_judged")
	}
}

func c02Run(c *core.Ctx, o *so.Oracle, sp *saml.ServiceProvider, s1 *fx.KeyPair, k c02Case) {
	o.Reset()
	// bounds are laid out around the ms grid point n; the library clock reads n plus a sub-millisecond offset, which
	// cannot flip a +-1ms decision but exercises the comparison of ms-rounded instants with an unrounded now.
	n := fx.Epoch
	fx.SetNow(n.Add(k.nowOff % time.Millisecond))
	fx.SetTolerances(k.tol.D, k.tol.S)
	sp.AllowIDPInitiated = k.allowIDP
	c.Journal("C02 " + k.String())

	rII := lowerBounded(n, k.tol.D, k.pos[0])
	good := [4]time.Time{lowerBounded(n, k.tol.D, 2), upperBounded(n, k.tol.S, 2), lowerBounded(n, k.tol.S, 2), lowerBounded(n, k.tol.S, 2)}
	bad := [4]time.Time{lowerBounded(n, k.tol.D, k.pos[1]), upperBounded(n, k.tol.S, k.pos[2]), lowerBounded(n, k.tol.S, k.pos[3]), lowerBounded(n, k.tol.S, k.pos[4])}
	if k.shape == 5 {
		k.pos[4] = 2 // there is no confirmation whose NotOnOrAfter could be violated
	}
	assertionOK := posOK(k.pos[1]) && posOK(k.pos[2]) && posOK(k.pos[3]) && posOK(k.pos[4])

	type aspec struct {
		tag   string
		times [4]time.Time
		conf  []time.Time
		ok    bool
	}
	var as []aspec
	switch k.shape {
	case 0:
		as = []aspec{{"A", bad, []time.Time{bad[3]}, assertionOK}}
	case 5:
		as = []aspec{{"A", bad, nil, assertionOK}}
	case 6: // a non-bearer confirmation without SubjectConfirmationData first, then the lattice confirmation
		as = []aspec{{"A", bad, []time.Time{good[3], bad[3]}, assertionOK}}
	case 1, 2: // two confirmations: the lattice confirmation instant goes to the first/second, the other is good
		conf := []time.Time{bad[3], good[3]}
		if k.shape == 2 {
			conf = []time.Time{good[3], bad[3]}
		}
		as = []aspec{{"A", bad, conf, assertionOK}}
	case 3, 4: // two assertions: lattice one first/second, the other fully good
		g := aspec{"G", good, []time.Time{good[3]}, true}
		b := aspec{"B", bad, []time.Time{bad[3]}, assertionOK}
		as = []aspec{b, g}
		if k.shape == 4 {
			as = []aspec{g, b}
		}
	}
	var children []*etree.Element
	okByTag := map[string]bool{}
	for _, a := range as {
		sa := o.Assertion(so.AssertionSpec{RequestID: "req-1", NameID: "tag-" + a.tag, Now: n})
		if len(a.conf) == 0 {
			sa.Subject.SubjectConfirmations = nil
		}
		if len(a.conf) == 2 {
			sc := sa.Subject.SubjectConfirmations[0]
			d := *sc.SubjectConfirmationData
			sc.SubjectConfirmationData = &d
			sa.Subject.SubjectConfirmations = append(sa.Subject.SubjectConfirmations, sc)
		}
		el := sa.Element()
		setTimes(el, a.times[0], a.times[1], a.times[2], a.conf, k.form)
		if len(k.methods) > 0 {
			setConfMethods(el, k.methods)
		}
		if k.shape == 6 {
			if scs := el.FindElements("./Subject/SubjectConfirmation"); len(scs) == 2 {
				scs[0].CreateAttr("Method", confMethods[1+len(k.methods)%2])
				if d := scs[0].FindElement("./SubjectConfirmationData"); d != nil {
					scs[0].RemoveChild(d)
				}
			}
		}
		if k.layout == 1 {
			var err error
			el, err = o.Sign(el, s1, "")
			if err != nil {
				c.Inconclusive("sign failed: " + err.Error())
				return
			}
		}
		children = append(children, el)
		okByTag["tag-"+a.tag] = a.ok
	}
	r := o.Response("req-1", n)
	rel := so.ResponseEl(r, children...)
	rel.CreateAttr("IssueInstant", lexical(rII, k.form))
	if k.layout == 1 && (k.form+k.shape+int(k.nowOff/time.Microsecond))%3 == 0 { // unsigned Response: Destination is optional
		rel.RemoveAttr("Destination")
		c.Count("unsigned_responses_without_destination")
	}
	if k.layout == 0 {
		var err error
		rel, err = o.Sign(rel, s1, "")
		if err != nil {
			c.Inconclusive("sign failed: " + err.Error())
			return
		}
	}
	raw := so.Bytes(rel)

	respOK := posOK(k.pos[0])
	anyOK, allOK := false, true
	for _, a := range as {
		anyOK = anyOK || a.ok
		allOK = allOK && a.ok
	}
	var got *saml.Assertion
	var err error
	cur := mustURL(so.SPACS)
	arOK := true
	p, pv, frame, _ := core.Guard(func() {
		switch k.entry {
		case 0:
			got, err = sp.ParseXMLResponse(raw, []string{"req-1"}, cur)
		case 1:
			got, err = so.DeliverPOST(sp, raw, []string{"req-1"}, cur)
		default:
			arII := lowerBounded(n, k.tol.D, 1)
			if k.entry == 3 {
				arII = lowerBounded(n, k.tol.D, 0)
				arOK = false
			}
			inner, _ := so.Parse(raw)
			ar := o.ArtifactResponseEl("art-req-1", n, inner)
			ar.CreateAttr("IssueInstant", lexical(arII, k.form))
			if k.arSigned {
				if sg, serr := o.Sign(ar, s1, ""); serr == nil {
					ar = sg
					c.Count("artifact_envelope_signed")
				}
			}
			got, err = sp.ParseXMLArtifactResponse(so.Bytes(so.SOAP(ar)), []string{"req-1"}, "art-req-1", cur)
		}
	})
	c.Eval()
	replay := map[string]any{"case": k.String(), "now": n.Format(time.RFC3339Nano), "response": string(raw)}
	if p {
		c.Violation("C02/panic/"+frame, fmt.Sprintf("panic %v", pv), replay)
		return
	}
	priv := ""
	if ire, ok := err.(*saml.InvalidResponseError); ok && ire.PrivateErr != nil {
		priv = ire.PrivateErr.Error()
	}
	timeRelated := err == nil || strings.Contains(priv, "expired") || strings.Contains(priv, "not yet valid") || strings.Contains(priv, "IssueInstant")
	if timeRelated {
		c.Nontrivial(k.String())
	} else {
		c.Count("rejected_for_non_time_reason")
		c.Observe("non_time_reject_reasons", truncate(priv, 80))
	}
	acceptRequired := respOK && allOK && arOK && k.shape != 6 // whether a confirmation without data is acceptable at all is not C02's question
	rejectRequired := !respOK || !anyOK || !arOK
	switch {
	case err == nil && rejectRequired:
		which := violatedBound(k, respOK, arOK)
		c.Violation("C02/accepted-outside-window/"+which, fmt.Sprintf("accepted although %s is violated by >=1ms (%s)", which, k), replay)
	case err != nil && acceptRequired:
		c.Violation("C02/rejected-inside-windows/"+classifyPriv(priv), fmt.Sprintf("rejected (%s) although all bounds hold by >=1ms (%s)", priv, k), replay)
	case err == nil:
		// the returned assertion must itself satisfy all bounds
		tag := ""
		if got != nil && got.Subject != nil && got.Subject.NameID != nil {
			tag = got.Subject.NameID.Value
		}
		ok, known := okByTag[tag]
		if !known {
			c.Violation("C02/returned-unknown-assertion", "returned assertion is none of the generated ones: "+tag, replay)
		} else if !ok {
			c.Violation("C02/returned-assertion-outside-window/shape"+fmt.Sprint(k.shape), fmt.Sprintf("returned assertion %s violates a bound (%s)", tag, k), replay)
		} else {
			c.Count("accepted_ok")
		}
	default:
		c.Count("rejected_ok")
	}
	if !acceptRequired && !rejectRequired {
		c.Count("mixed_no_verdict_beyond_returned_ok")
	}
	c.Observe("tolerances", fmt.Sprintf("D=%v S=%v", k.tol.D, k.tol.S))
	c.SampleSome(map[string]any{"case": k.String(), "accepted": err == nil, "private_err": priv})
}

func violatedBound(k c02Case, respOK, arOK bool) string {
	if !arOK {
		return "ArtifactResponse.IssueInstant+MaxIssueDelay"
	}
	if !respOK {
		return "Response.IssueInstant+MaxIssueDelay"
	}
	names := []string{"", "Assertion.IssueInstant+MaxIssueDelay", "Conditions.NotBefore-MaxClockSkew", "Conditions.NotOnOrAfter+MaxClockSkew", "SubjectConfirmationData.NotOnOrAfter+MaxClockSkew"}
	var v []string
	for i := 1; i < 5; i++ {
		if !posOK(k.pos[i]) {
			v = append(v, names[i])
		}
	}
	if len(v) == 1 {
		if k.shape == 1 || k.shape == 2 {
			return v[0] + fmt.Sprintf("/confirmation-shape%d", k.shape)
		}
		return v[0]
	}
	return "several-bounds"
}

func classifyPriv(p string) string {
	switch {
	case strings.Contains(p, "response IssueInstant"):
		return "response-issueinstant"
	case strings.Contains(p, "expired on"):
		return "assertion-issueinstant"
	case strings.Contains(p, "SubjectConfirmationData is expired"):
		return "confirmation-notonorafter"
	case strings.Contains(p, "not yet valid"):
		return "conditions-notbefore"
	case strings.Contains(p, "Conditions is expired"):
		return "conditions-notonorafter"
	}
	return "other"
}
