package props

import (
	"crypto"
	"crypto/x509"
	"encoding/xml"
	"errors"
	"fmt"
	"io"
	"net/http"
	"net/http/httptest"
	"strings"
	"time"

	"github.com/beevik/etree"
	"github.com/crewjam/saml"

	"verif/internal/core"
	"verif/internal/fx"
	"verif/internal/so"
)

// C06 — every response the IdP emits is signed and scoped to one SP, request and moment.

func init() {
	core.RegisterSpec(&core.Spec{
		ID:    "C06",
		Level: "exploration",
		Rule: "validated requests (ACS chosen by URL / by index / by default over multi-endpoint registry metadata) and IdP-initiated launches x tagged sessions (two alive per run; optional fields present/absent, groups, custom attributes) x SP metadata {several ACS endpoints, attribute-consuming services with requested attributes, with/without encryption key} " +
			"x IdP configuration {private key, external crypto.Signer} x signature method {default, rsa-sha1/256/384/512} x intermediates {none, one} x clock offset relative to the request's IssueInstant x (MaxIssueDelay, MaxClockSkew) pairs. " +
			"Each emitted page is parsed with an HTML5 parser, the SAMLResponse decoded (and decrypted with the SP key by the reference decrypter) and judged clause by clause; both signatures are verified twice (fresh goxmldsig context rooted in the IdP certificate; direct crypto/rsa over canonical SignedInfo with the configured method). Non-trivial = a SAMLResponse form was emitted and decoded; distinct by configuration vector.",
		Assumptions: []string{"bearer NotOnOrAfter is compared at millisecond precision (the text form truncates)", "goxmldsig canonicalisation is used by the independent verifier"},
		FloorQuick:  500,
		FloorThor:   2000,
		Run:         runC06,
		LevelText:   "Every emitted response across the configuration space is decoded from the wire form and every scoping field is compared with the request, the registry entry selected by the independent function and the tagged session; signatures are verified independently of the code that produced them. Held-on-observed.",
		LevelNote:   "Trusts x/net/html, goxmldsig's canonicaliser, crypto/rsa and the reference decrypter.",
		Technique:   "runtime monitoring: emitted-form monitor, double signature verification, session-tag conservation",
		DesignRef:   "DESIGN.md §5 C06",
	})
}

// countingSigner wraps a crypto.Signer and counts uses.
type countingSigner struct {
	inner  crypto.Signer
	n      int
	failAt int // the failAt-th signing call fails once (HSM hiccup); 0 = never
	failed bool
}

func (s *countingSigner) Public() crypto.PublicKey { return s.inner.Public() }
func (s *countingSigner) Sign(r io.Reader, d []byte, o crypto.SignerOpts) ([]byte, error) {
	s.n++
	if s.failAt != 0 && s.n == s.failAt {
		s.failed = true
		return nil, errors.New("injected: signer temporarily unavailable")
	}
	return s.inner.Sign(r, d, o)
}

func taggedSession(c *core.Ctx, tag string) *saml.Session {
	r := c.Rng
	t := func(f string) string { return "⟨" + tag + "." + f + "⟩" }
	s := &saml.Session{ID: t("id"), CreateTime: fx.Now().Add(-time.Duration(r.Intn(3000)) * time.Second), ExpireTime: fx.Now().Add(time.Hour), Index: t("index"), NameID: t("nameid")}
	opt := func(dst *string, f string) {
		if r.Intn(4) != 0 {
			*dst = t(f)
		}
	}
	opt(&s.UserName, "username")
	opt(&s.UserEmail, "email")
	opt(&s.UserCommonName, "cn")
	opt(&s.UserSurname, "sn")
	opt(&s.UserGivenName, "givenname")
	opt(&s.UserScopedAffiliation, "affiliation")
	opt(&s.EduPersonPrincipalName, "eppn")
	opt(&s.SubjectID, "subjectid")
	if r.Intn(3) == 0 {
		s.NameIDFormat = string(saml.EmailAddressNameIDFormat)
	}
	for i := r.Intn(4); i > 0; i-- {
		s.Groups = append(s.Groups, t(fmt.Sprintf("group%d", i)))
	}
	for i := r.Intn(3); i > 0; i-- {
		s.CustomAttributes = append(s.CustomAttributes, saml.Attribute{Name: fmt.Sprintf("custom%d", i), NameFormat: "urn:oasis:names:tc:SAML:2.0:attrname-format:basic", Values: []saml.AttributeValue{{Type: "xs:string", Value: t(fmt.Sprintf("custom%d", i))}, {Type: "xs:string", Value: t(fmt.Sprintf("custom%d.b", i))}}})
	}
	return s
}

type c06Case struct {
	initiated  bool
	byIndex    bool
	byDefault  bool
	encrypt    bool
	signer     bool
	method     string
	interm     bool
	reqOffset  time.Duration // request IssueInstant = now + reqOffset
	tol        c02Tol
	post       bool
	acsService bool
	nEndpoints int
	idpKey     string // the key pair the IdP is configured with in this case (the IdP object lives through all cases and is reconfigured in place: key roll-over)
	extras     int    // optional request content that must not change the response (as in C05): 1 Conditions with a foreign AudienceRestriction, 2 Subject, 4 Scoping, 8 Extensions
	mixed      bool   // endpoints of other bindings (Redirect, Artifact) at their own locations among the POST ones
	faultFirst bool   // another session's response to a client whose connection fails part-way is served first
}

func (k c06Case) String() string {
	return fmt.Sprintf("initiated=%v byIndex=%v byDefault=%v encrypt=%v signer=%v method=%q interm=%v reqOffset=%v D=%v S=%v post=%v attrsvc=%v endpoints=%d mixed=%v faultFirst=%v idpKey=%s extras=%d", k.initiated, k.byIndex, k.byDefault, k.encrypt, k.signer, shortAlg(k.method), k.interm, k.reqOffset, k.tol.D, k.tol.S, k.post, k.acsService, k.nEndpoints, k.mixed, k.faultFirst, k.idpKey, k.extras)
}

func runC06(c *core.Ctx) {
	so.Quiet()
	defer fx.ResetTolerances()
	n := c.Pick(6400, 120000)
	methods := []string{"", so.RSASHA1, so.RSASHA256, so.RSASHA384, so.RSASHA512}
	for i := 0; i < n; i++ {
		if !c.Mine(i) {
			continue
		}
		r := c.Rng
		tol := c02Tols[r.Intn(len(c02Tols))]
		k := c06Case{initiated: r.Intn(5) == 0, byIndex: r.Intn(3) == 0, byDefault: r.Intn(4) == 0, encrypt: r.Intn(2) == 0, signer: r.Intn(3) == 0, method: methods[i%5], interm: r.Intn(4) == 0, tol: tol, post: r.Intn(2) == 0, acsService: r.Intn(2) == 0, nEndpoints: 1 + r.Intn(4)}
		k.mixed = r.Intn(3) == 0
		k.faultFirst = r.Intn(6) == 0
		k.idpKey = []string{"idp_s1", "idp_s1", "idp_s2"}[r.Intn(3)]
		if r.Intn(3) == 0 {
			k.extras = r.Intn(16)
		}
		offs := []time.Duration{0, -tol.D + time.Millisecond, -tol.D / 2, -2 * tol.S, -tol.S - time.Millisecond, -tol.S + time.Millisecond, 10 * time.Second}
		k.reqOffset = offs[r.Intn(len(offs))]
		if k.reqOffset < -tol.D { // would be stale: keep inside the window
			k.reqOffset = -tol.D + time.Millisecond
		}
		c06Run(c, k)
	}
}

func c06Run(c *core.Ctx, k c06Case) {
	now := fx.Epoch.Add(time.Duration(c.Rng.Intn(1000)) * time.Millisecond)
	fx.SetNow(now)
	fx.SetTolerances(k.tol.D, k.tol.S)
	c.Journal("C06 " + k.String())
	rnd := fx.NewRecReader(c.Rng.Int63())
	saml.RandReader = rnd
	if c06LiveWorld == nil { // one IdP object per process: key, certificate, signer, method and chain are changed in place between cases
		c06LiveWorld = so.NewIDPWorld()
	}
	w := c06LiveWorld
	for id := range w.Registry {
		delete(w.Registry, id)
	}
	if k.idpKey == "" {
		k.idpKey = "idp_s1"
	}
	idpKP := fx.K(k.idpKey)
	w.IDP.Key, w.IDP.Signer, w.IDP.Certificate = idpKP.Key, nil, idpKP.Cert
	var cs *countingSigner
	if k.signer {
		cs = &countingSigner{inner: idpKP.Key}
		if c.Rng.Intn(5) == 0 { // one of the two signing calls of this response fails: either nothing is emitted, or what is emitted is complete
			cs.failAt = 1 + c.Rng.Intn(2)
		}
		w.IDP.Key = nil
		w.IDP.Signer = cs
	}
	w.IDP.SignatureMethod = k.method
	w.IDP.Intermediates = nil
	if k.interm {
		w.IDP.Intermediates = []*x509.Certificate{fx.K("idp_e").Cert}
	}
	// registry metadata for this SP: several ACS endpoints
	spKP := fx.K("sp_rsa2048")
	md := &saml.EntityDescriptor{EntityID: so.SPMeta}
	desc := saml.SPSSODescriptor{}
	for e := 0; e < k.nEndpoints; e++ {
		ep := saml.IndexedEndpoint{Binding: saml.HTTPPostBinding, Location: fmt.Sprintf("https://sp.example.com/saml/acs%d", e), Index: e + 1}
		if k.mixed {
			ep.Binding = []string{saml.HTTPPostBinding, saml.HTTPPostBinding, saml.HTTPRedirectBinding, saml.HTTPArtifactBinding}[c.Rng.Intn(4)]
		}
		if e == k.nEndpoints-1 && c.Rng.Intn(2) == 0 {
			ep.IsDefault = boolPtr(true)
		}
		if c.Rng.Intn(3) == 0 { // an attribute the schema allows on any endpoint and that has no meaning on an ACS: never a target
			rl := fmt.Sprintf("https://sp.example.com/saml/response-location%d", e)
			ep.ResponseLocation = &rl
			c.Count("acs_endpoints_with_a_response_location")
		}
		desc.AssertionConsumerServices = append(desc.AssertionConsumerServices, ep)
	}
	if k.encrypt {
		desc.KeyDescriptors = []saml.KeyDescriptor{{Use: "signing", KeyInfo: saml.KeyInfo{X509Data: saml.X509Data{X509Certificates: []saml.X509Certificate{{Data: spKP.CertB64()}}}}}, {Use: "encryption", KeyInfo: saml.KeyInfo{X509Data: saml.X509Data{X509Certificates: []saml.X509Certificate{{Data: spKP.CertB64()}}}}}}
	} else if c.Rng.Intn(2) == 0 {
		desc.KeyDescriptors = []saml.KeyDescriptor{{Use: "signing", KeyInfo: saml.KeyInfo{X509Data: saml.X509Data{X509Certificates: []saml.X509Certificate{{Data: spKP.CertB64()}}}}}}
	}
	if k.acsService {
		desc.AttributeConsumingServices = []saml.AttributeConsumingService{{Index: 1, IsDefault: boolPtr(true), RequestedAttributes: []saml.RequestedAttribute{
			{Attribute: saml.Attribute{Name: "email", FriendlyName: "E-Mail", NameFormat: "urn:oasis:names:tc:SAML:2.0:attrname-format:basic"}},
			{Attribute: saml.Attribute{Name: "Given-Name", NameFormat: "urn:oasis:names:tc:SAML:2.0:attrname-format:unspecified"}},
			{Attribute: saml.Attribute{Name: "urn:oid:2.5.4.4", NameFormat: "urn:oasis:names:tc:SAML:2.0:attrname-format:uri"}},
			{Attribute: saml.Attribute{Name: "uid", NameFormat: "urn:oasis:names:tc:SAML:2.0:attrname-format:basic"}},
			// requested attributes may list acceptable values in the SP's metadata; those are the SP's wishes, not the user's data
			{Attribute: saml.Attribute{Name: "user-id", NameFormat: "urn:oasis:names:tc:SAML:2.0:attrname-format:basic", Values: []saml.AttributeValue{{Type: "xs:string", Value: "⟨M.metadata-listed-value-1⟩"}, {Type: "xs:string", Value: "⟨M.metadata-listed-value-2⟩"}}}},
			{Attribute: saml.Attribute{Name: "surname", FriendlyName: "sn", NameFormat: "urn:oasis:names:tc:SAML:2.0:attrname-format:unspecified", Values: []saml.AttributeValue{{Type: "xs:string", Value: "⟨M.metadata-listed-surname⟩"}}}},
			{Attribute: saml.Attribute{Name: "unknown-thing", NameFormat: "urn:oasis:names:tc:SAML:2.0:attrname-format:basic"}},
		}}}
	}
	md.SPSSODescriptors = []saml.SPSSODescriptor{desc}
	// through text, like a real registry
	mb, _ := xml.Marshal(md)
	var mdParsed saml.EntityDescriptor
	if err := xml.Unmarshal(mb, &mdParsed); err != nil {
		c.Inconclusive("metadata does not reparse: " + err.Error())
		return
	}
	w.Registry[so.SPMeta] = &mdParsed
	sessA, sessB := taggedSession(c, "A"), taggedSession(c, "B")
	w.Session = sessA

	const reqID = "id-request-c06-0123456789abcdef"
	var rec *httptest.ResponseRecorder
	var wantEP epTriple
	relay := []string{"relay⟨R⟩", "", "x", strings.Repeat("r", 41), strings.Repeat("ab&=#%+ \"'<>", 20), "https://sp.example.com/deep/link?a=b&c=d#frag", strings.Repeat("€", 90)}[c.Rng.Intn(7)]
	var serve func(rw http.ResponseWriter) bool
	if k.initiated {
		serve = func(rw http.ResponseWriter) bool {
			r := httptest.NewRequest("GET", "https://idp.example.com/login/x", nil)
			if p, pv, frame, _ := core.Guard(func() { w.IDP.ServeIDPInitiated(rw, r, so.SPMeta, relay) }); p {
				c.Violation("C06/panic/"+frame, fmt.Sprint(pv), k.String())
				return false
			}
			return true
		}
		// IdP-initiated launches go to the first registered HTTP-POST endpoint
		for _, e := range registered(&mdParsed) {
			if e.Binding == saml.HTTPPostBinding {
				wantEP = e
				break
			}
		}
	} else {
		f := string(saml.TransientNameIDFormat)
		ar := saml.AuthnRequest{ID: reqID, Version: "2.0", IssueInstant: now.Add(k.reqOffset).Truncate(time.Millisecond), Destination: so.IDPSSO, Issuer: &saml.Issuer{Value: so.SPMeta}, NameIDPolicy: &saml.NameIDPolicy{Format: &f}}
		reqURL, reqIdx := "", ""
		switch {
		case k.byDefault:
		case k.byIndex:
			i := 1 + c.Rng.Intn(k.nEndpoints)
			ar.AssertionConsumerServiceIndex = fmt.Sprint(i)
			reqIdx = fmt.Sprint(i)
			if c.Rng.Intn(2) == 0 { // a URL that differs from the indexed endpoint: the index must win
				ar.AssertionConsumerServiceURL = "https://sp.example.com/saml/acs0"
				reqURL = ar.AssertionConsumerServiceURL
			}
		default:
			ar.AssertionConsumerServiceURL = fmt.Sprintf("https://sp.example.com/saml/acs%d", c.Rng.Intn(k.nEndpoints))
			reqURL = ar.AssertionConsumerServiceURL
		}
		var ok bool
		wantEP, ok = c05Select(&mdParsed, reqURL, reqIdx)
		if !ok {
			wantEP = epTriple{} // no usable endpoint: nothing may be emitted
		}
		arEl := ar.Element()
		if k.extras&1 != 0 { // the requester's own conditions: they describe what the requester wants, not whom the IdP answers
			cd := arEl.CreateElement("saml:Conditions")
			cd.CreateAttr("NotOnOrAfter", now.Add(24*time.Hour).Format("2006-01-02T15:04:05Z"))
			cd.CreateElement("saml:AudienceRestriction").CreateElement("saml:Audience").SetText("https://someone-else.example/metadata")
		}
		if k.extras&2 != 0 {
			sj := arEl.CreateElement("saml:Subject")
			sj.CreateElement("saml:NameID").SetText("⟨R.requested-subject⟩")
		}
		if k.extras&4 != 0 {
			sg := arEl.CreateElement("samlp:Scoping")
			sg.CreateElement("samlp:RequesterID").SetText("https://someone-else.example/metadata")
		}
		if k.extras&8 != 0 {
			x := arEl.CreateElement("samlp:Extensions").CreateElement("x:Hint")
			x.CreateAttr("xmlns:x", "urn:example:ext")
			x.CreateAttr("Recipient", "https://someone-else.example/acs")
		}
		raw := so.Bytes(arEl)
		serve = func(rw http.ResponseWriter) bool {
			var hr *http.Request
			if k.post {
				hr = so.SSORequestPOST(so.IDPSSO, raw, relay)
			} else {
				hr = so.SSORequestGET(so.IDPSSO, raw, relay)
			}
			hr.RemoteAddr = "198.51.100.7:4711"
			if p, pv, frame, _ := core.Guard(func() { w.IDP.ServeSSO(rw, hr) }); p {
				c.Violation("C06/panic/"+frame, fmt.Sprint(pv), k.String())
				return false
			}
			return true
		}
	}
	if k.faultFirst {
		// session B logs in first, through a connection that breaks after a few hundred bytes of the form
		w.Session = sessB
		fw := &failingWriter{h: http.Header{}, budget: 100 + c.Rng.Intn(900)}
		if !serve(fw) {
			return
		}
		if fw.failed {
			c.Count("preceding_responses_cut_off_by_write_fault")
		}
		w.Session = sessA
	}
	rec = httptest.NewRecorder()
	if !serve(rec) {
		return
	}
	c.Eval()
	body := rec.Body.Bytes()
	replay := map[string]any{"case": k.String(), "http_status": rec.Code, "body": string(trunc(body, 20000))}
	em, err := so.DecodeReply(body, spKP)
	if err != nil {
		c.Violation("C06/undecodable-reply", err.Error(), replay)
		return
	}
	if em == nil {
		if wantEP.Binding != saml.HTTPPostBinding { // the selected endpoint cannot take a POST form: the IdP has to refuse
			c.Nontrivial(k.String())
			c.Count("nothing_emitted_for_endpoint_without_post_binding")
			return
		}
		if cs != nil && cs.failed {
			c.Nontrivial(k.String())
			c.Count("nothing_emitted_after_signer_failure")
			return
		}
		c.Inconclusive(fmt.Sprintf("no SAMLResponse emitted (status %d)", rec.Code))
		return
	}
	c.Nontrivial(k.String())
	bad := func(clause, msg string) {
		replay["response"] = string(em.ResponseXML)
		c.Violation("C06/"+clause, msg+" ("+k.String()+")", replay)
	}
	// form
	if strings.ToLower(em.Form.Attrs["method"]) != "post" {
		bad("form-method", "form method is "+em.Form.Attrs["method"])
	}
	if em.Action != wantEP.Location {
		bad("form-action", fmt.Sprintf("form action %q, selected endpoint %q", em.Action, wantEP.Location))
	}
	if em.RelayState != relay {
		bad("relay-state", fmt.Sprintf("RelayState %q, want %q", em.RelayState, relay))
	}
	resp := em.Response
	if resp.Tag != "Response" || resp.NamespaceURI() != so.NSProtocol {
		bad("root", "root element is "+resp.FullTag())
		return
	}
	if d := resp.SelectAttrValue("Destination", ""); d != wantEP.Location {
		bad("destination", fmt.Sprintf("Destination %q, want %q", d, wantEP.Location))
	}
	wantIRT := reqID
	if k.initiated {
		wantIRT = ""
	}
	if a := resp.SelectAttr("InResponseTo"); (a == nil && wantIRT != "") || (a != nil && a.Value != wantIRT) {
		bad("response-inresponseto", fmt.Sprintf("Response InResponseTo %v, want %q", a, wantIRT))
	}
	if is := resp.FindElement("./Issuer"); is == nil || is.Text() != so.IDPEntity {
		bad("response-issuer", "Response Issuer is not the IdP entity ID")
	}
	if sc := resp.FindElement("./Status/StatusCode"); sc == nil || sc.SelectAttrValue("Value", "") != saml.StatusSuccess {
		bad("status", "status is not Success")
	}
	wantMethod := k.method
	if wantMethod == "" {
		wantMethod = so.RSASHA1
	}
	if err := so.VerifyEnveloped(resp, idpKP.Cert, wantMethod); err != nil {
		bad("response-signature", "Response signature: "+err.Error())
	}
	// assertion
	var ael *etree.Element
	switch {
	case k.encrypt:
		if len(em.ClearAssertions) != 0 {
			bad("clear-assertion-despite-encryption-key", "clear Assertion emitted although the SP advertises an encryption key (see C08)")
		}
		if len(em.Decrypted) != 1 {
			bad("decrypt", fmt.Sprintf("expected one decryptable EncryptedAssertion, got %d (%v)", len(em.Decrypted), em.DecryptErr))
			return
		}
		ael = em.Decrypted[0]
	default:
		if len(em.ClearAssertions) != 1 || len(em.EncryptedAssertions) != 0 {
			bad("assertion-count", fmt.Sprintf("expected exactly one clear Assertion, got %d clear / %d encrypted", len(em.ClearAssertions), len(em.EncryptedAssertions)))
			return
		}
		// verify it as a standalone element the way a receiver would: detach with namespace context by re-serialising from the response
		ael = em.ClearAssertions[0]
	}
	if err := verifyChild(ael, idpKP.Cert, wantMethod); err != nil {
		bad("assertion-signature", "Assertion signature: "+err.Error())
	}
	var a saml.Assertion
	if err := xml.Unmarshal(so.Bytes(detach(ael)), &a); err != nil {
		bad("assertion-unmarshal", err.Error())
		return
	}
	if a.Issuer.Value != so.IDPEntity {
		bad("assertion-issuer", "Assertion Issuer "+a.Issuer.Value)
	}
	if a.Subject == nil || a.Subject.NameID == nil || a.Subject.NameID.Value != sessA.NameID {
		bad("nameid", "NameID is not the session's name identifier")
	}
	if a.Subject != nil {
		nb := 0
		for _, sc := range a.Subject.SubjectConfirmations {
			if sc.Method != "urn:oasis:names:tc:SAML:2.0:cm:bearer" || sc.SubjectConfirmationData == nil {
				continue
			}
			nb++
			d := sc.SubjectConfirmationData
			if d.Recipient != wantEP.Location {
				bad("recipient", fmt.Sprintf("bearer Recipient %q, want selected endpoint %q", d.Recipient, wantEP.Location))
			}
			if d.InResponseTo != wantIRT {
				bad("confirmation-inresponseto", fmt.Sprintf("confirmation InResponseTo %q, want %q", d.InResponseTo, wantIRT))
			}
			want := now.Add(k.tol.D)
			if diff := d.NotOnOrAfter.Sub(want); diff > time.Millisecond || diff < -time.Millisecond {
				bad("confirmation-notonorafter", fmt.Sprintf("bearer NotOnOrAfter %v, want issuance+MaxIssueDelay %v", d.NotOnOrAfter, want))
			}
		}
		if nb != 1 {
			bad("bearer-count", fmt.Sprintf("%d bearer confirmations", nb))
		}
	}
	if a.Conditions == nil {
		bad("conditions", "no Conditions")
	} else {
		if a.Conditions.NotBefore.Before(now.Add(-k.tol.S).Add(-time.Millisecond)) {
			bad("conditions-notbefore", fmt.Sprintf("Conditions.NotBefore %v opens earlier than MaxClockSkew before issuance %v", a.Conditions.NotBefore, now))
		}
		if len(a.Conditions.AudienceRestrictions) != 1 || a.Conditions.AudienceRestrictions[0].Audience.Value != so.SPMeta {
			bad("audience", fmt.Sprintf("audiences %+v, want exactly the registered entity ID", a.Conditions.AudienceRestrictions))
		}
	}
	// attributes: every value must be one of session A's strings
	allowed := map[string]bool{}
	for _, v := range []string{sessA.NameID, sessA.UserName, sessA.UserEmail, sessA.UserCommonName, sessA.UserSurname, sessA.UserGivenName, sessA.UserScopedAffiliation, sessA.EduPersonPrincipalName, sessA.SubjectID} {
		allowed[v] = true
	}
	for _, g := range sessA.Groups {
		allowed[g] = true
	}
	for _, ca := range sessA.CustomAttributes {
		for _, v := range ca.Values {
			allowed[v.Value] = true
		}
	}
	nvals := 0
	for _, st := range a.AttributeStatements {
		for _, at := range st.Attributes {
			for _, v := range at.Values {
				nvals++
				if !allowed[v.Value] {
					bad("foreign-attribute-value", fmt.Sprintf("attribute %q carries %q which is not a string of the authenticated session", at.Name, v.Value))
				}
			}
		}
	}
	for _, as := range a.AuthnStatements {
		if as.SessionIndex != sessA.Index {
			bad("session-index", "SessionIndex "+as.SessionIndex)
		}
	}
	if strings.Contains(string(em.ResponseXML), "⟨B.") || strings.Contains(string(body), "⟨B.") {
		bad("other-session-leak", "a string of the other session appears in the reply")
	}
	if cs != nil && cs.failAt == 0 && cs.n < 2 {
		bad("external-signer-unused", fmt.Sprintf("external signer used %d times for two signatures", cs.n))
	}
	c.Count("responses_judged")
	c.CountN("attribute_values_checked", int64(nvals))
	c.Observe("signature_methods", wantMethod)
	c.SampleSome(map[string]any{"case": k.String(), "action": em.Action, "attribute_values": nvals})
}

// detach returns a standalone copy of a child element that carries the namespace declarations it inherits.
func detach(el *etree.Element) *etree.Element {
	cp := el.Copy()
	for p := el.Parent(); p != nil; p = p.Parent() {
		for _, a := range p.Attr {
			if a.Space == "xmlns" || (a.Space == "" && a.Key == "xmlns") {
				if cp.SelectAttr(a.FullKey()) == nil {
					cp.CreateAttr(a.FullKey(), a.Value)
				}
			}
		}
	}
	return cp
}

func verifyChild(el *etree.Element, cert *x509.Certificate, method string) error {
	return so.VerifyEnveloped(detach(el), cert, method)
}

// failingWriter is a client connection that accepts budget bytes and then fails every write.
type failingWriter struct {
	h      http.Header
	budget int
	failed bool
}

func (f *failingWriter) Header() http.Header { return f.h }
func (f *failingWriter) WriteHeader(int)     {}
func (f *failingWriter) Write(b []byte) (int, error) {
	if len(b) <= f.budget {
		f.budget -= len(b)
		return len(b), nil
	}
	n := f.budget
	f.budget = 0
	f.failed = true
	return n, errors.New("injected: connection reset by peer")
}

var c06LiveWorld *so.IDPWorld
