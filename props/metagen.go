package props

import (
	"fmt"
	"time"

	"github.com/crewjam/saml"

	"verif/internal/core"
	"verif/internal/fx"
)

var goodLocations = []string{
	"https://sp.example.com/saml/acs", "http://sp.example.com/acs", "https://h.example/p?a=b&c=d", "https://h.example/p?x=%3Cscript%3E", "HTTPS://UPPER.example/Path",
	"https://user:pw@h.example:8443/x", "https://[::1]:9/acs", "https://h.example/ünï", "https://h.example/a%20b", "http://h.example/#frag", "https://h.example/?q=\"quoted\"&r='s'",
}

var allBindings = []string{saml.HTTPPostBinding, saml.HTTPRedirectBinding, saml.HTTPArtifactBinding, saml.SOAPBinding, saml.SOAPBindingV1}

func genText(c *core.Ctx) string {
	r := c.Rng
	if r.Intn(12) == 0 {
		return fx.CRStrings[r.Intn(len(fx.CRStrings))]
	}
	return fx.XMLStrings[r.Intn(len(fx.XMLStrings))]
}

func genEndpoint(c *core.Ctx) saml.Endpoint {
	r := c.Rng
	e := saml.Endpoint{Binding: allBindings[r.Intn(len(allBindings))], Location: goodLocations[r.Intn(len(goodLocations))]}
	if r.Intn(3) == 0 {
		e.ResponseLocation = goodLocations[r.Intn(len(goodLocations))]
	}
	if r.Intn(10) == 0 {
		e.Binding = []string{"urn:mace:shibboleth:1.0:profiles:AuthnRequest", "urn:unknown", ""}[r.Intn(3)]
	}
	return e
}

func genIndexedEndpoint(c *core.Ctx) saml.IndexedEndpoint {
	r := c.Rng
	e := saml.IndexedEndpoint{Binding: allBindings[r.Intn(len(allBindings))], Location: goodLocations[r.Intn(len(goodLocations))], Index: r.Intn(7) - 1}
	if r.Intn(4) == 0 {
		e.ResponseLocation = strPtr(goodLocations[r.Intn(len(goodLocations))])
	}
	switch r.Intn(3) {
	case 0:
		e.IsDefault = boolPtr(true)
	case 1:
		e.IsDefault = boolPtr(false)
	}
	if r.Intn(10) == 0 {
		e.Binding = "urn:unknown:binding"
		e.ResponseLocation = nil
	}
	return e
}

func genKeyDescriptors(c *core.Ctx) []saml.KeyDescriptor {
	r := c.Rng
	var out []saml.KeyDescriptor
	for i := r.Intn(3); i > 0; i-- {
		kd := saml.KeyDescriptor{Use: []string{"signing", "encryption", ""}[r.Intn(3)]}
		for j := r.Intn(3); j > 0; j-- {
			kd.KeyInfo.X509Data.X509Certificates = append(kd.KeyInfo.X509Data.X509Certificates, saml.X509Certificate{Data: fx.K([]string{"idp_s1", "idp_s2", "sp_p256"}[r.Intn(3)]).CertB64()})
		}
		if r.Intn(2) == 0 {
			kd.EncryptionMethods = []saml.EncryptionMethod{{Algorithm: "http://www.w3.org/2001/04/xmlenc#aes128-cbc"}, {Algorithm: genText(c)}}
		}
		out = append(out, kd)
	}
	return out
}

func genRole(c *core.Ctx) saml.RoleDescriptor {
	r := c.Rng
	rd := saml.RoleDescriptor{ProtocolSupportEnumeration: "urn:oasis:names:tc:SAML:2.0:protocol", KeyDescriptors: genKeyDescriptors(c)}
	if r.Intn(3) == 0 {
		rd.ID = "_" + genText(c)
	}
	if r.Intn(3) == 0 {
		t := fx.Epoch.Add(time.Duration(r.Int63n(int64(10000 * time.Hour)))).Round(time.Millisecond)
		rd.ValidUntil = &t
	}
	if r.Intn(3) == 0 {
		rd.CacheDuration = time.Duration(r.Int63n(int64(100 * time.Hour)))
	}
	if r.Intn(4) == 0 {
		rd.ErrorURL = goodLocations[r.Intn(len(goodLocations))]
	}
	if r.Intn(4) == 0 {
		rd.Organization = genOrg(c)
	}
	if r.Intn(4) == 0 {
		rd.ContactPeople = []saml.ContactPerson{genContact(c)}
	}
	return rd
}

func genOrg(c *core.Ctx) *saml.Organization {
	return &saml.Organization{
		OrganizationNames:        []saml.LocalizedName{{Lang: "en", Value: genText(c)}},
		OrganizationDisplayNames: []saml.LocalizedName{{Lang: "de", Value: genText(c)}, {Lang: "", Value: genText(c)}},
		OrganizationURLs:         []saml.LocalizedURI{{Lang: "en", Value: goodLocations[c.Rng.Intn(len(goodLocations))]}},
	}
}

func genContact(c *core.Ctx) saml.ContactPerson {
	return saml.ContactPerson{ContactType: "technical", Company: genText(c), GivenName: genText(c), SurName: genText(c), EmailAddresses: []string{"mailto:a@example.com", genText(c)}, TelephoneNumbers: []string{"+1 555"}}
}

func genSSO(c *core.Ctx) saml.SSODescriptor {
	r := c.Rng
	s := saml.SSODescriptor{RoleDescriptor: genRole(c)}
	for i := r.Intn(3); i > 0; i-- {
		s.ArtifactResolutionServices = append(s.ArtifactResolutionServices, genIndexedEndpoint(c))
	}
	for i := r.Intn(3); i > 0; i-- {
		s.SingleLogoutServices = append(s.SingleLogoutServices, genEndpoint(c))
	}
	for i := r.Intn(2); i > 0; i-- {
		s.ManageNameIDServices = append(s.ManageNameIDServices, genEndpoint(c))
	}
	for i := r.Intn(3); i > 0; i-- {
		s.NameIDFormats = append(s.NameIDFormats, []saml.NameIDFormat{saml.EmailAddressNameIDFormat, saml.TransientNameIDFormat, "", saml.NameIDFormat(genText(c))}[r.Intn(4)])
	}
	return s
}

func genAttribute(c *core.Ctx) saml.Attribute {
	r := c.Rng
	a := saml.Attribute{Name: "urn:oid:" + fmt.Sprint(r.Intn(100)), FriendlyName: genText(c), NameFormat: "urn:oasis:names:tc:SAML:2.0:attrname-format:uri"}
	for i := r.Intn(3); i > 0; i-- {
		a.Values = append(a.Values, saml.AttributeValue{Type: "xs:string", Value: genText(c)})
	}
	return a
}

// genEntityDescriptor builds an EntityDescriptor value with optional parts present or absent.
func genEntityDescriptor(c *core.Ctx) *saml.EntityDescriptor {
	r := c.Rng
	m := &saml.EntityDescriptor{EntityID: "https://e.example/" + genText(c)}
	if r.Intn(8) == 0 {
		m.EntityID = genText(c)
	}
	if r.Intn(3) == 0 {
		m.ID = "_id" + genText(c)
	}
	switch r.Intn(4) {
	case 0:
	case 1:
		m.ValidUntil = fx.Epoch.Add(time.Duration(r.Int63n(int64(100000 * time.Hour))))
	case 2:
		m.ValidUntil = time.Date(1+r.Intn(9998), time.Month(1+r.Intn(12)), 1+r.Intn(28), r.Intn(24), r.Intn(60), r.Intn(60), r.Intn(1e9), time.FixedZone("", (r.Intn(25)-12)*3600))
	case 3:
		m.ValidUntil = fx.Epoch.Add(time.Duration(r.Intn(1000))*time.Millisecond + 499999 + time.Duration(r.Intn(3)))
	}
	switch r.Intn(5) {
	case 0:
	case 1:
		m.CacheDuration = time.Duration(r.Int63n(int64(1000 * time.Hour)))
	case 2:
		m.CacheDuration = time.Duration(r.Int63n(int64(time.Minute)))
	case 3:
		m.CacheDuration = time.Duration(1+r.Intn(999)) * time.Millisecond
	case 4:
		m.CacheDuration = -time.Duration(r.Int63n(int64(100 * time.Hour)))
	}
	for i := r.Intn(2); i > 0; i-- {
		m.RoleDescriptors = append(m.RoleDescriptors, genRole(c))
	}
	for i := r.Intn(3); i > 0; i-- {
		d := saml.IDPSSODescriptor{SSODescriptor: genSSO(c)}
		// the embedded SSODescriptor.ArtifactResolutionServices is shadowed by the IDP descriptor's own field
		d.SSODescriptor.ArtifactResolutionServices = nil
		for j := r.Intn(3); j > 0; j-- {
			d.ArtifactResolutionServices = append(d.ArtifactResolutionServices, genEndpoint(c))
		}
		if r.Intn(2) == 0 {
			d.WantAuthnRequestsSigned = boolPtr(r.Intn(2) == 0)
		}
		for j := r.Intn(3); j > 0; j-- {
			d.SingleSignOnServices = append(d.SingleSignOnServices, genEndpoint(c))
		}
		for j := r.Intn(2); j > 0; j-- {
			d.NameIDMappingServices = append(d.NameIDMappingServices, genEndpoint(c))
		}
		for j := r.Intn(2); j > 0; j-- {
			d.AssertionIDRequestServices = append(d.AssertionIDRequestServices, genEndpoint(c))
		}
		if r.Intn(3) == 0 {
			d.AttributeProfiles = []string{genText(c)}
		}
		for j := r.Intn(2); j > 0; j-- {
			d.Attributes = append(d.Attributes, genAttribute(c))
		}
		m.IDPSSODescriptors = append(m.IDPSSODescriptors, d)
	}
	for i := r.Intn(3); i > 0; i-- {
		d := saml.SPSSODescriptor{SSODescriptor: genSSO(c)}
		if r.Intn(2) == 0 {
			d.AuthnRequestsSigned = boolPtr(r.Intn(2) == 0)
		}
		if r.Intn(2) == 0 {
			d.WantAssertionsSigned = boolPtr(r.Intn(2) == 0)
		}
		for j := r.Intn(4); j > 0; j-- {
			d.AssertionConsumerServices = append(d.AssertionConsumerServices, genIndexedEndpoint(c))
		}
		for j := r.Intn(2); j > 0; j-- {
			acs := saml.AttributeConsumingService{Index: r.Intn(4), ServiceNames: []saml.LocalizedName{{Lang: "en", Value: genText(c)}}}
			if r.Intn(2) == 0 {
				acs.IsDefault = boolPtr(r.Intn(2) == 0)
			}
			for k := r.Intn(3); k > 0; k-- {
				ra := saml.RequestedAttribute{Attribute: genAttribute(c)}
				if r.Intn(2) == 0 {
					ra.IsRequired = boolPtr(r.Intn(2) == 0)
				}
				acs.RequestedAttributes = append(acs.RequestedAttributes, ra)
			}
			d.AttributeConsumingServices = append(d.AttributeConsumingServices, acs)
		}
		m.SPSSODescriptors = append(m.SPSSODescriptors, d)
	}
	if r.Intn(4) == 0 {
		d := saml.AuthnAuthorityDescriptor{RoleDescriptor: genRole(c)}
		d.AuthnQueryServices = []saml.Endpoint{genEndpoint(c)}
		d.AssertionIDRequestServices = []saml.Endpoint{genEndpoint(c)}
		m.AuthnAuthorityDescriptors = append(m.AuthnAuthorityDescriptors, d)
	}
	if r.Intn(4) == 0 {
		d := saml.AttributeAuthorityDescriptor{RoleDescriptor: genRole(c)}
		d.AttributeServices = []saml.Endpoint{genEndpoint(c)}
		d.Attributes = []saml.Attribute{genAttribute(c)}
		m.AttributeAuthorityDescriptors = append(m.AttributeAuthorityDescriptors, d)
	}
	if r.Intn(4) == 0 {
		d := saml.PDPDescriptor{RoleDescriptor: genRole(c)}
		d.AuthzServices = []saml.Endpoint{genEndpoint(c), genEndpoint(c)}
		m.PDPDescriptors = append(m.PDPDescriptors, d)
	}
	if r.Intn(5) == 0 {
		m.AffiliationDescriptor = &saml.AffiliationDescriptor{AffiliationOwnerID: genText(c), ID: "_a", ValidUntil: fx.Epoch, CacheDuration: time.Hour, AffiliateMembers: []string{genText(c)}, KeyDescriptors: genKeyDescriptors(c)}
	}
	if r.Intn(3) == 0 {
		m.Organization = genOrg(c)
	}
	if r.Intn(3) == 0 {
		cp := genContact(c)
		m.ContactPerson = &cp
	}
	if r.Intn(4) == 0 {
		m.AdditionalMetadataLocations = []string{goodLocations[r.Intn(len(goodLocations))]}
	}
	return m
}
