package props

import (
	"bytes"
	"encoding/base64"
	"fmt"
	"net/http/httptest"
	"net/url"
	"strings"
	"time"

	"github.com/beevik/etree"
	"github.com/crewjam/saml"
	dsig "github.com/russellhaering/goxmldsig"

	"verif/internal/attack"
	"verif/internal/core"
	"verif/internal/fx"
	"verif/internal/mut"
	"verif/internal/so"
)

// C18 — logout responses are valid only if IdP-signed, fresh and addressed to this SP.

func init() {
	core.RegisterSpec(&core.Spec{
		ID:    "C18",
		Level: "exploration",
		Rule: "LogoutResponses built by the signing oracle: signer {two IdP signing keys, IdP encryption-use key, attacker keys, none} x 7 trust configurations x {correct, near-miss, empty, absent} Destination / Issuer / StatusCode x IssueInstant placed so that IssueInstant+MaxIssueDelay lies +-60 s / +-1 h from the real clock (MaxIssueDelay in {90 s, 1 h, 5 s}) x POST-form, redirect (deflate) and http.Request encodings; " +
			"unmodified (valid-required / error-required by construction) and after 1..3 attack-grammar operations (signature removal/relocation, wrapping in evil roots, edits after signing, attacker re-signing, KeyInfo/ID/Reference/transform games, comment and namespace injection), plus root-less, wrong-root and byte-mutated documents. " +
			"Oracle for transformed documents: reported valid => the root element minus its Signature canonicalises byte-identically to a message the oracle signed with a key trusted in this configuration whose fields are all right and which is fresh. Non-trivial = document decoded and reached signature validation; distinct by full case vector.",
		Assumptions: []string{"the validator reads the wall clock (time.Now); a case whose expiry instant falls between the instants sampled before and after the call is inconclusive, never a verdict", "InResponseTo is not judged (the API takes no outstanding logout request IDs)"},
		FloorQuick:  900,
		FloorThor:   3000,
		Run:         runC18,
		LevelText:   "Genuinely signed logout responses with every field deviation, both encodings and a grammar of signature attacks are run through the three public validators; verdicts are fixed by construction for unmodified messages and by canonical-form membership in the signed set for transformed ones, with wall-clock bracketing so that scheduling cannot flip a verdict. Held-on-observed.",
		LevelNote:   "Trusts goxmldsig's canonicaliser in the oracle (used only to compare documents, not to validate signatures) and for producing genuine signatures.",
		Technique:   "runtime monitoring: by-construction validity oracle + canonical-form membership in the signed corpus, wall-clock bracketing",
		DesignRef:   "DESIGN.md §5 C18",
	})
}

type c18Case struct {
	trust  so.Trust
	signer string // "" = unsigned
	dest   fieldVal
	issuer fieldVal
	status fieldVal
	delay  time.Duration // MaxIssueDelay
	offset time.Duration // expiry - now at build time
	enc    int           // 0 form 1 redirect 2 request-GET 3 request-POST
	method string
	iiKind string // "" = IssueInstant placed by offset/delay; otherwise the attribute is absent / empty / an instant centuries ago (all stale)
}

// sub is the second-level status code nested under the top-level one in this case ("" = none). Only the top-level code
// decides whether the logout succeeded; PartialLogout and friends merely qualify it.
func (k c18Case) sub() string {
	if k.status.absent {
		return ""
	}
	return []string{"", "", saml.StatusPartialLogout, saml.StatusAuthnFailed, saml.StatusSuccess}[(len(k.status.kind)+k.enc+len(k.method)+int(k.delay/time.Second)+len(k.trust.Name))%5]
}

func (k c18Case) String() string {
	return fmt.Sprintf("trust=%s signer=%s dest=%s issuer=%s status=%s"+map[bool]string{true: "+sub:" + k.sub()[strings.LastIndex(k.sub(), ":")+1:], false: ""}[k.sub() != ""]+" D=%v expiry-offset=%v enc=%d method=%s"+map[bool]string{true: " IssueInstant=" + k.iiKind, false: ""}[k.iiKind != ""], k.trust.Name, k.signer, k.dest.kind, k.issuer.kind, k.status.kind, k.delay, k.offset, k.enc, shortAlg(k.method))
}

func c18MakeEvil(el *etree.Element) {
	root := el
	if root.Tag == "LogoutResponse" {
		root.CreateAttr("InResponseTo", "id-evil-logout-request")
		if sc := root.FindElement("./Status/StatusCode"); sc != nil {
			sc.CreateAttr("Value", saml.StatusSuccess)
		}
		root.CreateAttr("Destination", so.SPSLO)
		if is := root.FindElement("./Issuer"); is != nil {
			is.SetText(so.IDPEntity)
		}
		return
	}
	el.CreateAttr("Evil", "1")
}

func c14nSansSig(el *etree.Element) ([]byte, error) {
	cp := el.Copy()
	for _, ch := range cp.ChildElements() {
		if ch.Tag == "Signature" && ch.NamespaceURI() == "http://www.w3.org/2000/09/xmldsig#" {
			cp.RemoveChild(ch)
		}
	}
	// canonicalise as a standalone document so that inherited namespaces do not matter
	d := etree.NewDocument()
	d.SetRoot(cp)
	return dsig.MakeC14N10ExclusiveCanonicalizerWithPrefixList("").Canonicalize(d.Root())
}

func runC18(c *core.Ctx) {
	so.Quiet()
	defer fx.ResetTolerances()
	o := so.New(c.Rng)
	sps := map[string]*saml.ServiceProvider{}
	for _, t := range so.Trusts {
		sps[t.Name] = so.NewSP(t.Name, fx.K("sp_rsa2048"))
	}
	actx := &attack.Ctx{Rng: c.Rng, O: o, MakeEvil: c18MakeEvil, Genuine: fx.K("idp_s1")}
	idx := 0
	mine := func() bool { idx++; return c.Mine(idx) }
	signers := []string{"idp_s1", "idp_s2", "idp_e", "att_x", "att_xp", ""}
	delays := []time.Duration{90 * time.Second, time.Hour, 5 * time.Second}
	offsets := []time.Duration{time.Minute, time.Hour, -time.Minute, -time.Hour}
	okv := func(v string) fieldVal { return fieldVal{kind: "correct", val: v} }
	base := func() c18Case {
		t := so.Trusts[c.Rng.Intn(len(so.Trusts))]
		return c18Case{trust: t, signer: t.Roots[c.Rng.Intn(len(t.Roots))], dest: okv(so.SPSLO), issuer: okv(so.IDPEntity), status: okv(saml.StatusSuccess),
			delay: delays[c.Rng.Intn(3)], offset: offsets[c.Rng.Intn(2)], enc: c.Rng.Intn(4), method: so.RSAMethods[c.Rng.Intn(4)]}
	}
	// unmodified: all trust x signer, all single field deviations, freshness lattice
	for _, t := range so.Trusts {
		for _, s := range signers {
			for enc := 0; enc < 4; enc++ {
				if mine() {
					k := base()
					k.trust, k.signer, k.enc = t, s, enc
					c18Run(c, o, sps, actx, k, 0)
				}
			}
		}
	}
	reps := c.Pick(3, 30)
	for f := 0; f < 3; f++ {
		for v := 0; v < 32; v++ {
			for r := 0; r < reps; r++ {
				if !mine() {
					continue
				}
				k := base()
				switch f {
				case 0:
					vs := nearMisses(so.SPSLO)
					vs = append(vs, fieldVal{kind: "acs-url", val: so.SPACS})
					k.dest = vs[v%len(vs)]
				case 1:
					vs := nearMisses(so.IDPEntity)
					k.issuer = vs[v%len(vs)]
				case 2:
					vs := c03StatusVariants()
					k.status = vs[v%len(vs)]
				}
				c18Run(c, o, sps, actx, k, 0)
			}
		}
	}
	for _, d := range delays {
		for _, off := range append(offsets, -2*time.Hour) {
			for r := 0; r < reps; r++ {
				if mine() {
					k := base()
					k.delay, k.offset = d, off
					c18Run(c, o, sps, actx, k, 0)
				}
			}
		}
	}
	// IssueInstant missing, empty or centuries old: stale whatever MaxIssueDelay is
	for _, ii := range []string{"absent", "empty", "0001-01-01T00:00:00Z", "1000-06-01T12:00:00Z", "1700-01-01T00:00:00Z", "1733-12-31T23:59:59Z", "1970-01-01T00:00:00Z", "1601-01-01T00:00:00Z"} {
		for r := 0; r < c.Pick(6, 60); r++ {
			if mine() {
				k := base()
				k.iiKind = ii
				c18Run(c, o, sps, actx, k, 0)
			}
		}
	}
	// trust reconfiguration on one long-lived SP (key roll-over, metadata refresh, pin set / removed): every logout
	// response is judged against the roots configured at the moment it is validated
	for i := 0; i < c.Pick(60, 3000); i++ {
		if !mine() {
			continue
		}
		sp := so.NewSP("meta-two-signing", fx.K("sp_rsa2048"))
		roots, mode, how := []string{"idp_s1", "idp_s2"}, "meta", "initial"
		var retired []string
		for s := 0; s < 5+c.Rng.Intn(5); s++ {
			if s > 0 {
				roots, retired, mode, how = trustReconfigure(c, sp, roots, retired)
			}
			c.Observe("c18_reconfigurations", how)
			for d := 1 + c.Rng.Intn(3); d > 0; d-- {
				k := base()
				k.trust = so.Trust{Name: fmt.Sprintf("rotating(%s:%s via %s, step %d)", mode, strings.Join(roots, "+"), how, s), Roots: roots}
				switch r := c.Rng.Intn(5); {
				case r < 2 && len(retired) > 0:
					k.signer = retired[c.Rng.Intn(len(retired))]
					c.Count("logout_responses_signed_by_retired_key")
				case r < 4:
					k.signer = roots[c.Rng.Intn(len(roots))]
				default:
					k.signer = signers[c.Rng.Intn(len(signers))]
				}
				c18Run(c, o, map[string]*saml.ServiceProvider{k.trust.Name: sp}, actx, k, 0)
			}
		}
	}
	// metadata that publishes no signing key at all (keys for encryption only, or no key): nothing is trusted, and a
	// perfectly formed logout response signed with a published encryption-use key is as invalid as any other
	for i := 0; i < c.Pick(24, 600); i++ {
		if !mine() {
			continue
		}
		lay := [][]string{{"idp_e"}, {"idp_e", "idp_s2"}, {"idp_s1"}, {}}[i%4]
		sp := so.NewSP("meta-one-signing", fx.K("sp_rsa2048"))
		var kds []saml.KeyDescriptor
		for _, n := range lay {
			kds = append(kds, saml.KeyDescriptor{Use: "encryption", KeyInfo: saml.KeyInfo{X509Data: saml.X509Data{X509Certificates: []saml.X509Certificate{{Data: fx.K(n).CertB64()}}}}})
		}
		sp.IDPMetadata.IDPSSODescriptors[0].KeyDescriptors = kds
		k := base()
		k.trust = so.Trust{Name: fmt.Sprintf("meta-encryption-only(%s)", strings.Join(lay, "+")), Roots: nil}
		k.signer = append(append([]string{}, lay...), "idp_s1", "idp_e")[c.Rng.Intn(len(lay)+2)]
		c.Count("logout_responses_for_metadata_without_signing_key")
		c18Run(c, o, map[string]*saml.ServiceProvider{k.trust.Name: sp}, actx, k, 0)
	}
	// attacked
	n := c.Pick(9000, 250000)
	for i := 0; i < n; i++ {
		if !mine() {
			continue
		}
		k := base()
		if c.Rng.Intn(5) == 0 {
			k.signer = signers[c.Rng.Intn(len(signers))]
		}
		c18Run(c, o, sps, actx, k, 1+c.Rng.Intn(3))
	}
	// forced single ops on a good base
	for op := range attack.Ops {
		for r := 0; r < c.Pick(8, 80); r++ {
			if mine() {
				c18Run(c, o, sps, actx, base(), -(op + 1))
			}
		}
	}
	// degenerate / wrong-root / byte-mutated
	for i, d := range mut.Degenerate {
		if mine() {
			c18Raw(c, sps["meta-one-signing"], fmt.Sprintf("degenerate#%d", i), d, i%4)
		}
	}
	for r := 0; r < c.Pick(600, 20000); r++ {
		if !mine() {
			continue
		}
		o.Reset()
		k := base()
		raw, _, _ := c18Build(o, k)
		if c.Rng.Intn(3) == 0 { // wrong root: a signed Response / LogoutRequest in place of a LogoutResponse
			el, _ := so.Parse(raw)
			el.Tag = []string{"Response", "LogoutRequest", "ArtifactResponse", "logoutresponse"}[c.Rng.Intn(4)]
			if s, err := o.Sign(stripped(el), fx.K(k.signer), k.method); err == nil {
				raw = so.Bytes(s)
			}
			c18Raw(c, sps[k.trust.Name], "wrong-root "+el.Tag, raw, k.enc)
			continue
		}
		c18Run(c, o, sps, actx, k, c18ByteMutation)
	}
}

const c18ByteMutation = -100000

func stripped(el *etree.Element) *etree.Element {
	cp := el.Copy()
	for _, ch := range cp.ChildElements() {
		if ch.Tag == "Signature" {
			cp.RemoveChild(ch)
		}
	}
	return cp
}

// c18Build renders (and signs) the logout response of a case. It returns the bytes, the expiry instant, and the IssueInstant used.
func c18Build(o *so.Oracle, k c18Case) ([]byte, time.Time, error) {
	issue := time.Now().Add(k.offset - k.delay).UTC().Truncate(time.Millisecond)
	lr := &saml.LogoutResponse{ID: o.NextID("id-lr"), InResponseTo: "id-logout-req", Version: "2.0", IssueInstant: issue, Destination: so.SPSLO,
		Issuer: &saml.Issuer{Format: "urn:oasis:names:tc:SAML:2.0:nameid-format:entity", Value: so.IDPEntity}, Status: saml.Status{StatusCode: saml.StatusCode{Value: saml.StatusSuccess}}}
	el := lr.Element()
	setOrRemoveAttr(el, "Destination", k.dest)
	setOrRemoveText(el, "./Issuer", k.issuer)
	if k.status.kind == "nostatus" {
		rmEl(el, "./Status")
	} else {
		setOrRemoveAttr(el.FindElement("./Status/StatusCode"), "Value", k.status)
		if sub := k.sub(); sub != "" {
			el.FindElement("./Status/StatusCode").CreateElement("samlp:StatusCode").CreateAttr("Value", sub)
		}
	}
	expiry := issue.Add(k.delay)
	switch k.iiKind {
	case "":
		// the same instant in one of the lexical forms of xsd:dateTime (zone offsets, fractions)
		el.CreateAttr("IssueInstant", lexical(issue, (k.enc+len(k.method)+len(k.trust.Name)+int(k.delay/time.Second))%c02Forms))
	case "absent":
		el.RemoveAttr("IssueInstant")
		expiry = time.Time{}
	case "empty":
		el.CreateAttr("IssueInstant", "")
		expiry = time.Time{}
	default:
		el.CreateAttr("IssueInstant", k.iiKind)
		expiry = time.Time{}
	}
	if k.signer != "" {
		s, err := o.Sign(el, fx.K(k.signer), k.method)
		if err != nil {
			return nil, time.Time{}, err
		}
		el = s
	}
	return so.Bytes(el), expiry, nil
}

func c18Call(sp *saml.ServiceProvider, raw []byte, enc int) error {
	b64 := base64.StdEncoding.EncodeToString(raw)
	defl := base64.StdEncoding.EncodeToString(so.Deflate(raw))
	switch enc {
	case 0:
		return sp.ValidateLogoutResponseForm(b64)
	case 1:
		return sp.ValidateLogoutResponseRedirect(defl)
	case 2:
		return sp.ValidateLogoutResponseRequest(httptest.NewRequest("GET", so.SPSLO+"?SAMLResponse="+url.QueryEscape(defl)+"&RelayState=x", nil))
	default:
		r := httptest.NewRequest("POST", so.SPSLO, strings.NewReader(url.Values{"SAMLResponse": {b64}, "RelayState": {"x"}}.Encode()))
		r.Header.Set("Content-Type", "application/x-www-form-urlencoded")
		return sp.ValidateLogoutResponseRequest(r)
	}
}

func c18Raw(c *core.Ctx, sp *saml.ServiceProvider, desc string, raw []byte, enc int) {
	fx.SetNow(time.Now())
	c.Journal("C18 raw " + desc)
	var err error
	p, v, frame, _ := core.Guard(func() { err = c18Call(sp, raw, enc) })
	c.Eval()
	c.Nontrivial("raw|" + desc + fmt.Sprint(enc))
	replay := map[string]any{"case": desc, "enc": enc, "document_b64": base64.StdEncoding.EncodeToString(trunc(raw, 100000))}
	if p {
		c.Violation("C18/panic/"+frame+"/"+panicClass(v), fmt.Sprintf("panic %v (%s)", v, desc), replay)
		return
	}
	if err == nil {
		c.Violation("C18/accepted/malformed-or-unsigned", "reported valid: "+desc, replay)
		return
	}
	c.Count("raw_rejected_ok")
}

func c18Run(c *core.Ctx, o *so.Oracle, sps map[string]*saml.ServiceProvider, actx *attack.Ctx, k c18Case, nops int) {
	o.Reset()
	fx.SetNow(time.Now()) // certificate validity clock for goxmldsig; the freshness check reads the wall clock itself
	saml.MaxIssueDelay = k.delay
	raw, expiry, err := c18Build(o, k)
	if err != nil {
		c.Inconclusive("build: " + err.Error())
		return
	}
	doc := raw
	var ops []string
	if nops == c18ByteMutation {
		var d string
		doc, d = mut.Bytes(c.Rng, doc)
		ops = []string{"bytes-" + d}
	} else if nops < 0 {
		var d string
		doc, d = attack.ApplyOp(actx, doc, -nops-1)
		if d == "" {
			d = "op-not-applicable:" + attack.Ops[-nops-1].Name
		}
		ops = []string{d}
	} else if nops > 0 {
		doc, ops = attack.Apply(actx, doc, nops)
	}
	desc := fmt.Sprintf("%s ops=[%s]", k, strings.Join(ops, "; "))
	c.Journal("C18 " + desc + "\n" + string(trunc(doc, 8000)))
	sp := sps[k.trust.Name]
	var verr error
	if (k.enc == 1 || k.enc == 2) && len(k.trust.Roots) > 0 && c.Rng.Intn(3) == 0 {
		// just before: a genuine, valid, trusted-signed response whose DEFLATE stream is cut short (flushed, no final block,
		// or simply truncated) arrives at the same SP; whatever it leaves behind must not colour the next message
		g := k
		g.signer, g.dest, g.issuer, g.status, g.iiKind = k.trust.Roots[0], fieldVal{kind: "correct", val: so.SPSLO}, fieldVal{kind: "correct", val: so.IDPEntity}, fieldVal{kind: "correct", val: saml.StatusSuccess}, ""
		if graw, _, gerr := c18Build(o, g); gerr == nil {
			for _, cut := range [][]byte{so.DeflateNoFinal(graw), so.Deflate(graw)[:len(so.Deflate(graw))-3]} {
				_, _, _, _ = core.Guard(func() { _ = sp.ValidateLogoutResponseRedirect(base64.StdEncoding.EncodeToString(cut)) })
			}
			c.Count("truncated_genuine_deflate_streams_delivered_first")
		}
	}
	t0 := time.Now()
	p, pv, frame, _ := core.Guard(func() { verr = c18Call(sp, doc, k.enc) })
	t1 := time.Now()
	c.Eval()
	replay := map[string]any{"case": desc, "document": string(doc), "max_issue_delay": k.delay.String(), "expiry": expiry.Format(time.RFC3339Nano), "called_between": []string{t0.Format(time.RFC3339Nano), t1.Format(time.RFC3339Nano)}}
	if p {
		c.Violation("C18/panic/"+frame+"/"+panicClass(pv), fmt.Sprintf("panic %v (%s)", pv, desc), replay)
		return
	}
	c.Nontrivial(desc)
	fresh := !expiry.Before(t1)
	stale := expiry.Before(t0)
	if !fresh && !stale {
		c.Inconclusive("wall clock overtook the freshness margin during the call")
		return
	}
	trusted := map[string]bool{}
	for _, r := range k.trust.Roots {
		trusted[r] = true
	}
	isOK := func(f fieldVal) bool { return f.kind == "correct" }
	fieldsOK := isOK(k.dest) && isOK(k.issuer) && isOK(k.status)
	genuineValid := k.signer != "" && trusted[k.signer] && fieldsOK && fresh

	if len(ops) == 0 {
		switch {
		case genuineValid && verr != nil:
			c.Violation("C18/rejected-valid/"+truncate(strings.Map(keyChar, errText(verr)), 50), fmt.Sprintf("valid logout response rejected: %s (%s)", errText(verr), desc), replay)
		case !genuineValid && verr == nil:
			var why []string
			if k.signer == "" {
				why = append(why, "unsigned")
			} else if !trusted[k.signer] {
				tn := k.trust.Name
				if strings.HasPrefix(tn, "rotating(") {
					tn = "rotating"
				}
				why = append(why, "signer="+k.signer+"/"+tn)
			}
			if !isOK(k.dest) {
				why = append(why, "Destination="+k.dest.kind)
			}
			if !isOK(k.issuer) {
				why = append(why, "Issuer="+k.issuer.kind)
			}
			if !isOK(k.status) {
				why = append(why, "Status="+k.status.kind)
			}
			if !fresh {
				why = append(why, "stale")
			}
			cls := "several"
			if len(why) == 1 {
				cls = why[0]
			}
			c.Violation("C18/accepted-invalid/"+cls, fmt.Sprintf("reported valid although %v (%s)", why, desc), replay)
		case verr == nil:
			c.Count("valid_ok")
		default:
			c.Count("rejected_ok")
		}
		c.SampleSome(map[string]any{"case": desc, "valid": verr == nil})
		return
	}
	// transformed documents: valid => canonical content is one the oracle signed with a trusted key, with right fields and fresh
	if verr != nil {
		c.Count("attacked_rejected")
		return
	}
	el, perr := so.Parse(doc)
	if perr != nil {
		c.Violation("C18/accepted/unparseable", "reported valid but the harness cannot parse the document", replay)
		return
	}
	got, cerr := c14nSansSig(el)
	match := false
	if cerr == nil {
		for _, r := range o.Signed {
			if !trusted[r.Key] || r.Tag != "LogoutResponse" {
				continue
			}
			g, err := so.Parse(r.Bytes)
			if err != nil {
				continue
			}
			if want, err := c14nSansSig(g); err == nil && bytes.Equal(want, got) {
				match = true
			}
		}
	}
	if !match || !genuineValid {
		cls := "op/" + strings.Fields(ops[len(ops)-1])[0]
		if match {
			cls = "genuine-but-invalid-fields"
		}
		c.Violation("C18/accepted-unsigned-content/"+cls, fmt.Sprintf("reported valid although the root's content is not a trusted-signed, valid, fresh logout response (%s)", desc), replay)
		return
	}
	c.Count("attacked_but_content_genuine_accepted")
	c.Observe("transformations_that_left_genuine_content_acceptable", strings.Fields(ops[len(ops)-1])[0])
}

func errText(err error) string {
	if p := errPrivate(err); p != "" {
		return p
	}
	return err.Error()
}
