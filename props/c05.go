package props

import (
	"fmt"
	"net/http"
	"net/http/httptest"
	"net/url"
	"strconv"
	"strings"
	"time"

	"github.com/beevik/etree"
	"github.com/crewjam/saml"

	"verif/internal/core"
	"verif/internal/fx"
	"verif/internal/htmlmon"
	"verif/internal/so"
)

// C05 — IdP answers only valid requests and routes only to registered ACS endpoints.

func init() {
	core.RegisterSpec(&core.Spec{
		ID:    "C05",
		Level: "exploration",
		Rule: "authentication requests with Issuer {registered, second registered, unknown, empty, absent}, Destination {SSO URL, near-miss, other, absent}, Version {2.0, 1.1, empty, absent}, IssueInstant {now, now-MaxIssueDelay-+1ms, ten windows old, absent, future}, AssertionConsumerServiceURL {each registered, unregistered, near-miss, absent}, AssertionConsumerServiceIndex {matching, other, non-numeric, negative, absent}, in GET-deflate and POST encodings, " +
			"against generated registry metadata (0..3 SPSSODescriptors x 0..4 ACS endpoints with bindings POST/Redirect/Artifact/SOAP/unknown, duplicate and negative indices, isDefault nil/true/false, duplicate locations), under several MaxIssueDelay settings; plus IdP-initiated launches on the same metadata. " +
			"Oracle: Validate()==nil => not stale, version 2.0, Destination absent or SSO URL, issuer looked up and found in the registry (observed at the stub), ACSEndpoint is a registered (binding, location, index) triple and equals the independent precedence function; ServeSSO / ServeIDPInitiated form action is a registered location. Non-trivial = request decoded and reached Validate; distinct by request vector x metadata shape.",
		Assumptions: []string{"future-dated requests are not judged (one-sided freshness)", "when the independent selection function finds no endpoint but the library does, only registration of the chosen endpoint is judged"},
		FloorQuick:  3000,
		FloorThor:   10000,
		Run:         runC05,
		LevelText:   "All single deviations and seeded combinations of request fields against generated multi-descriptor / multi-endpoint registry metadata, with +-1ms probes of the freshness limit under several tolerance settings; every success is compared with an independently written endpoint-precedence function and with registry lookups observed at the stub provider. Held-on-observed.",
		LevelNote:   "Trusts the harness's selection function (30 lines, written from the statement) and x/net/html for reading the emitted form.",
		Technique:   "runtime monitoring: independent reference selection function + observed registry lookups",
		DesignRef:   "DESIGN.md §5 C05",
	})
}

type c05Req struct {
	issuer   fieldVal
	dest     fieldVal
	version  fieldVal
	issueOff string // now | edge-ok | edge-stale | old | absent | future
	acsURL   fieldVal
	acsIndex fieldVal
	post     bool
	delay    time.Duration
	extras   int    // bit set of optional request content that must not matter: 1 Conditions (requester's own validity window), 2 Subject, 4 Scoping/RequesterID, 8 Extensions, 16 ForceAuthn+IsPassive
	recvHost string // "" = the IdP's own host; "dest" = the host named by the (possibly forged) Destination; "other" = some third host; also sent as X-Forwarded-Host
}

func (r c05Req) String() string {
	return fmt.Sprintf("issuer=%s dest=%s version=%s issue=%s acsURL=%s(%s) acsIndex=%s(%s) post=%v D=%v extras=%d recvHost=%s", r.issuer.kind, r.dest.kind, r.version.kind, r.issueOff, r.acsURL.kind, r.acsURL.val, r.acsIndex.kind, r.acsIndex.val, r.post, r.delay, r.extras, r.recvHost)
}

const c05SP2 = "https://sp2.example.com/saml/metadata"

var c05Locations = []string{"https://sp.example.com/saml/acs", "https://sp.example.com/saml/acs2", "https://sp.example.com/other/acs", "http://sp.example.com/saml/acs"}
var c05Bindings = []string{saml.HTTPPostBinding, saml.HTTPPostBinding, saml.HTTPRedirectBinding, saml.HTTPArtifactBinding, saml.SOAPBinding, "urn:unknown:binding"}

func c05GenMetadata(c *core.Ctx, entityID string) *saml.EntityDescriptor {
	r := c.Rng
	m := &saml.EntityDescriptor{EntityID: entityID}
	nd := r.Intn(4)
	if r.Intn(3) == 0 {
		nd = 1
	}
	for d := 0; d < nd; d++ {
		desc := saml.SPSSODescriptor{}
		ne := r.Intn(5)
		for e := 0; e < ne; e++ {
			ep := saml.IndexedEndpoint{Binding: c05Bindings[r.Intn(len(c05Bindings))], Location: c05Locations[r.Intn(len(c05Locations))], Index: r.Intn(5) - 1}
			switch r.Intn(4) {
			case 0:
				ep.IsDefault = boolPtr(true)
			case 1:
				ep.IsDefault = boolPtr(false)
			}
			if r.Intn(4) == 0 {
				rl := "https://elsewhere.example.com/response-location"
				ep.ResponseLocation = &rl
			}
			desc.AssertionConsumerServices = append(desc.AssertionConsumerServices, ep)
		}
		m.SPSSODescriptors = append(m.SPSSODescriptors, desc)
	}
	return m
}

type epTriple struct {
	Binding, Location string
	Index             int
}

func registered(m *saml.EntityDescriptor) []epTriple {
	var out []epTriple
	if m == nil {
		return nil
	}
	for _, d := range m.SPSSODescriptors {
		for _, e := range d.AssertionConsumerServices {
			out = append(out, epTriple{e.Binding, e.Location, e.Index})
		}
	}
	return out
}

// c05SelectSet is the independent statement of the documented precedence: the endpoints that the stage which decides
// designates (all with the requested index; else all at the requested URL; else all flagged default among the browser
// bindings; else the first browser-binding endpoint).
func c05SelectSet(m *saml.EntityDescriptor, reqURL, reqIndex string) ([]epTriple, bool) {
	eps := registered(m)
	var out []epTriple
	if reqIndex != "" {
		for _, e := range eps {
			if strconv.Itoa(e.Index) == reqIndex {
				out = append(out, e)
			}
		}
		if len(out) > 0 {
			return out, true
		}
	}
	if reqURL != "" {
		for _, e := range eps {
			if e.Location == reqURL {
				out = append(out, e)
			}
		}
		if len(out) > 0 {
			return out, true
		}
	}
	if reqURL == "" && reqIndex == "" && m != nil {
		for _, d := range m.SPSSODescriptors {
			for _, e := range d.AssertionConsumerServices {
				if e.IsDefault != nil && *e.IsDefault && (e.Binding == saml.HTTPPostBinding || e.Binding == saml.HTTPRedirectBinding) {
					out = append(out, epTriple{e.Binding, e.Location, e.Index})
				}
			}
		}
		if len(out) > 0 {
			return out, true
		}
		for _, e := range eps {
			if e.Binding == saml.HTTPPostBinding || e.Binding == saml.HTTPRedirectBinding {
				return []epTriple{e}, true
			}
		}
	}
	return nil, false
}

// c05Select is the independent statement of the documented precedence.
func c05Select(m *saml.EntityDescriptor, reqURL, reqIndex string) (epTriple, bool) {
	eps := registered(m)
	if reqIndex != "" {
		for _, e := range eps {
			if strconv.Itoa(e.Index) == reqIndex {
				return e, true
			}
		}
	}
	if reqURL != "" {
		for _, e := range eps {
			if e.Location == reqURL {
				return e, true
			}
		}
	}
	if reqURL == "" && reqIndex == "" {
		for _, d := range m.SPSSODescriptors {
			for _, e := range d.AssertionConsumerServices {
				if e.IsDefault != nil && *e.IsDefault && (e.Binding == saml.HTTPPostBinding || e.Binding == saml.HTTPRedirectBinding) {
					return epTriple{e.Binding, e.Location, e.Index}, true
				}
			}
		}
		for _, e := range eps {
			if e.Binding == saml.HTTPPostBinding || e.Binding == saml.HTTPRedirectBinding {
				return e, true
			}
		}
	}
	return epTriple{}, false
}

func runC05(c *core.Ctx) {
	so.Quiet()
	fx.SetNow(fx.Epoch)
	defer fx.ResetTolerances()
	idx := 0
	mine := func() bool { idx++; return c.Mine(idx) }
	delays := []time.Duration{90 * time.Second, time.Second, 0, time.Hour, 7 * time.Millisecond}
	okv := func(v string) fieldVal { return fieldVal{kind: "correct", val: v} }
	issueKinds := []string{"now", "edge-ok", "edge-stale", "old", "absent", "future", "year-1700", "year-1582", "year-1000", "year-0001", "year-1431"}

	genReq := func(m *saml.EntityDescriptor) c05Req {
		r := c.Rng
		q := c05Req{issuer: okv(so.SPMeta), dest: okv(so.IDPSSO), version: okv("2.0"), issueOff: "now", post: r.Intn(2) == 0, delay: delays[r.Intn(len(delays))]}
		eps := registered(m)
		// ACS URL
		switch r.Intn(5) {
		case 0:
			q.acsURL = fieldVal{kind: "absent", absent: true}
		case 1:
			q.acsURL = fieldVal{kind: "unregistered", val: "https://attacker.example/acs"}
		case 2:
			if len(eps) > 0 {
				l := eps[r.Intn(len(eps))].Location
				nm := nearMisses(l)
				q.acsURL = nm[1+r.Intn(len(nm)-3)]
				q.acsURL.kind = "near-miss-" + q.acsURL.kind
			} else {
				q.acsURL = fieldVal{kind: "unregistered", val: c05Locations[0]}
			}
		default:
			if len(eps) > 0 {
				q.acsURL = fieldVal{kind: "registered", val: eps[r.Intn(len(eps))].Location}
			} else {
				q.acsURL = fieldVal{kind: "unregistered", val: c05Locations[r.Intn(len(c05Locations))]}
			}
		}
		switch r.Intn(6) {
		case 0:
			if len(eps) > 0 {
				q.acsIndex = fieldVal{kind: "matching", val: strconv.Itoa(eps[r.Intn(len(eps))].Index)}
			} else {
				q.acsIndex = fieldVal{kind: "other", val: "1"}
			}
		case 1:
			q.acsIndex = fieldVal{kind: "other", val: strconv.Itoa(7 + r.Intn(3))}
		case 2:
			q.acsIndex = fieldVal{kind: "non-numeric", val: []string{"abc", "1x", " 1", "01", "+1", "1.0", ""}[r.Intn(7)]}
		default:
			q.acsIndex = fieldVal{kind: "absent", absent: true}
		}
		if r.Intn(3) == 0 {
			q.extras = r.Intn(32)
		}
		q.recvHost = []string{"", "", "dest", "dest", "other"}[r.Intn(5)]
		return q
	}
	deviate := func(q *c05Req, f, v int) {
		switch f {
		case 0:
			vs := []fieldVal{okv(so.SPMeta), {kind: "second-registered", val: c05SP2}, {kind: "unknown", val: "https://unknown.example/metadata"}, {kind: "near-miss", val: so.SPMeta + "/"}, {kind: "prefix", val: so.SPMeta[:len(so.SPMeta)-2]}, {kind: "empty", val: ""}, {kind: "absent", absent: true}}
			q.issuer = vs[v%len(vs)]
		case 1:
			vs := nearMisses(so.IDPSSO)
			vs = append(vs, fieldVal{kind: "metadata-url", val: so.IDPEntity})
			q.dest = vs[v%len(vs)]
		case 2:
			vs := []fieldVal{okv("2.0"), {kind: "1.1", val: "1.1"}, {kind: "2", val: "2"}, {kind: "2.00", val: "2.00"}, {kind: "3.0", val: "3.0"}, {kind: "space", val: "2.0 "}, {kind: "empty", val: ""}, {kind: "absent", absent: true}}
			q.version = vs[v%len(vs)]
		case 3:
			q.issueOff = issueKinds[v%len(issueKinds)]
		}
	}
	reps := c.Pick(25, 300)
	for f := 0; f < 4; f++ {
		for v := 0; v < 32; v++ {
			for r := 0; r < reps; r++ {
				if !mine() {
					continue
				}
				m := c05GenMetadata(c, so.SPMeta)
				q := genReq(m)
				deviate(&q, f, v)
				c05Run(c, m, q)
			}
		}
	}
	n := c.Pick(30000, 500000)
	for i := 0; i < n; i++ {
		if !mine() {
			continue
		}
		m := c05GenMetadata(c, so.SPMeta)
		q := genReq(m)
		for d := c.Rng.Intn(3); d > 0; d-- {
			deviate(&q, c.Rng.Intn(4), c.Rng.Intn(32))
		}
		c05Run(c, m, q)
		// the byte-identical request again, after the registry changed (other endpoints, or the SP deregistered)
		switch c.Rng.Intn(8) {
		case 0:
			c.Count("requests_redelivered_after_registry_change")
			c05Run(c, c05GenMetadata(c, so.SPMeta), q)
		case 1:
			c.Count("requests_redelivered_after_deregistration")
			c05Run(c, nil, q)
		}
	}
	// IdP-initiated
	ni := c.Pick(6000, 80000)
	for i := 0; i < ni; i++ {
		if !mine() {
			continue
		}
		c05IDPInitiated(c, c05GenMetadata(c, so.SPMeta))
	}
}

func c05Run(c *core.Ctx, m *saml.EntityDescriptor, q c05Req) {
	saml.MaxIssueDelay = q.delay
	now := fx.Epoch
	fx.SetNow(now)
	// one IdP per process: what it saw in earlier cases (requests, registry contents) must not matter now
	if c05LiveWorld == nil {
		c05LiveWorld = so.NewIDPWorld()
	}
	w := c05LiveWorld
	if m != nil {
		w.Registry[so.SPMeta] = m
	} else {
		delete(w.Registry, so.SPMeta) // deregistered
	}
	m2 := &saml.EntityDescriptor{EntityID: c05SP2, SPSSODescriptors: []saml.SPSSODescriptor{{AssertionConsumerServices: []saml.IndexedEndpoint{{Binding: saml.HTTPPostBinding, Location: "https://sp2.example.com/saml/acs", Index: 0}}}}}
	w.Registry[c05SP2] = m2
	var issue time.Time
	switch q.issueOff {
	case "now":
		issue = now
	case "edge-ok":
		issue = now.Add(-q.delay).Add(time.Millisecond)
	case "edge-stale":
		issue = now.Add(-q.delay).Add(-time.Millisecond)
	case "old":
		issue = now.Add(-10*q.delay - time.Hour)
	case "future":
		issue = now.Add(q.delay + time.Hour)
	default:
		if strings.HasPrefix(q.issueOff, "year-") { // centuries ago: stale by any arithmetic that does not wrap
			y, _ := strconv.Atoi(strings.TrimPrefix(q.issueOff, "year-"))
			issue = time.Date(y, 6, 1, 12, 0, 0, 0, time.UTC)
		}
	}
	f := string(saml.TransientNameIDFormat)
	ar := saml.AuthnRequest{ID: "id-req-c05", Version: "2.0", IssueInstant: issue, Destination: so.IDPSSO, ProtocolBinding: saml.HTTPPostBinding,
		Issuer: &saml.Issuer{Value: so.SPMeta}, NameIDPolicy: &saml.NameIDPolicy{Format: &f}}
	el := ar.Element()
	setOrRemoveText(el, "./Issuer", q.issuer)
	setOrRemoveAttr(el, "Destination", q.dest)
	setOrRemoveAttr(el, "Version", q.version)
	if q.issueOff == "absent" {
		el.RemoveAttr("IssueInstant")
	}
	setOrRemoveAttr(el, "AssertionConsumerServiceURL", q.acsURL)
	setOrRemoveAttr(el, "AssertionConsumerServiceIndex", q.acsIndex)
	// optional content a requester may add; none of it is the IdP's freshness, version, destination or issuer rule
	if q.extras&1 != 0 {
		cd := el.CreateElement("saml:Conditions")
		cd.CreateAttr("NotBefore", now.Add(-time.Hour).Format("2006-01-02T15:04:05Z"))
		cd.CreateAttr("NotOnOrAfter", now.Add(24*time.Hour).Format("2006-01-02T15:04:05Z"))
	}
	if q.extras&2 != 0 {
		sj := el.CreateElement("saml:Subject")
		sj.CreateElement("saml:NameID").SetText("someone@example.com")
		sc := sj.CreateElement("saml:SubjectConfirmation")
		sc.CreateAttr("Method", "urn:oasis:names:tc:SAML:2.0:cm:bearer")
		scd := sc.CreateElement("saml:SubjectConfirmationData")
		scd.CreateAttr("Recipient", "https://attacker.example/acs")
		scd.CreateAttr("NotOnOrAfter", now.Add(24*time.Hour).Format("2006-01-02T15:04:05Z"))
	}
	if q.extras&4 != 0 {
		sg := el.CreateElement("samlp:Scoping")
		sg.CreateAttr("ProxyCount", "2")
		sg.CreateElement("samlp:RequesterID").SetText(c05SP2)
	}
	if q.extras&8 != 0 {
		ex := el.CreateElement("samlp:Extensions")
		x := ex.CreateElement("x:Hint")
		x.CreateAttr("xmlns:x", "urn:example:ext")
		x.CreateAttr("AssertionConsumerServiceURL", "https://attacker.example/acs")
		x.CreateAttr("IssueInstant", now.Format("2006-01-02T15:04:05Z"))
	}
	if q.extras&16 != 0 {
		el.CreateAttr("ForceAuthn", "true")
		el.CreateAttr("IsPassive", "false")
	}
	raw := so.Bytes(el)
	mk := func() *http.Request {
		var hr *http.Request
		if q.post {
			hr = so.SSORequestPOST(so.IDPSSO, raw, "relay")
		} else {
			hr = so.SSORequestGET(so.IDPSSO, raw, "relay")
		}
		// the host the request claims to have been received at is client-controlled (Host, X-Forwarded-Host)
		h := ""
		switch q.recvHost {
		case "dest":
			if u, err := url.Parse(q.dest.val); err == nil && !q.dest.absent {
				h = u.Host
			}
		case "other":
			h = "idp.other.example"
		}
		if h != "" {
			hr.Host = h
			hr.URL.Host = h
			hr.Header.Set("X-Forwarded-Host", h)
		}
		return hr
	}
	desc := fmt.Sprintf("%s md=%s", q, mdShape(m))
	c.Journal("C05 " + desc)
	var req *saml.IdpAuthnRequest
	var nerr, verr error
	p, pv, frame, _ := core.Guard(func() {
		req, nerr = saml.NewIdpAuthnRequest(w.IDP, mk())
		if nerr == nil {
			verr = req.Validate()
		}
	})
	c.Eval()
	replay := map[string]any{"case": desc, "request": string(raw), "registered": registered(m)}
	if p {
		c.Violation("C05/panic/"+frame+"/"+panicClass(pv), fmt.Sprintf("panic %v (%s)", pv, desc), replay)
		return
	}
	if nerr != nil {
		c.Inconclusive("request did not decode: " + truncate(nerr.Error(), 60))
		return
	}
	c.Nontrivial(desc)
	// what the statement requires for processing
	regMD := map[string]*saml.EntityDescriptor{c05SP2: m2}
	if m != nil {
		regMD[so.SPMeta] = m
	}
	issuerKnown := !q.issuer.absent && regMD[q.issuer.val] != nil
	stale := q.issueOff == "edge-stale" || q.issueOff == "old" || (q.issueOff == "absent" && true) || strings.HasPrefix(q.issueOff, "year-")
	if q.issueOff == "absent" {
		// absent IssueInstant parses to the zero instant: stale for every window
		stale = true
	}
	versionOK := q.version.kind == "correct"
	destOK := q.dest.kind == "correct" || q.dest.absent || q.dest.kind == "empty"
	if verr == nil {
		var why []string
		if stale {
			why = append(why, "stale:"+q.issueOff)
		}
		if !versionOK {
			why = append(why, "version="+q.version.kind)
		}
		if !destOK {
			why = append(why, "destination="+q.dest.kind)
		}
		if !issuerKnown {
			why = append(why, "issuer="+q.issuer.kind)
		}
		if len(why) > 0 {
			cls := "several"
			if len(why) == 1 {
				cls = why[0]
			}
			c.Violation("C05/processed-invalid-request/"+cls, fmt.Sprintf("Validate() accepted although %v (%s)", why, desc), replay)
			return
		}
		// registry lookup observed
		found := false
		for _, l := range w.Lookups {
			if l.Asked == q.issuer.val && l.Found {
				found = true
			}
		}
		if !found {
			c.Violation("C05/no-registry-lookup", fmt.Sprintf("Validate() succeeded without a successful registry lookup of the issuer (lookups %v)", w.Lookups), replay)
			return
		}
		md := regMD[q.issuer.val]
		if req.ServiceProviderMetadata != md {
			c.Violation("C05/wrong-metadata", "ServiceProviderMetadata is not the registry entry of the issuer", replay)
			return
		}
		if req.ACSEndpoint == nil {
			c.Violation("C05/nil-endpoint", "Validate() succeeded with nil ACSEndpoint", replay)
			return
		}
		got := epTriple{req.ACSEndpoint.Binding, req.ACSEndpoint.Location, req.ACSEndpoint.Index}
		isReg := false
		for _, e := range registered(md) {
			if e == got {
				isReg = true
			}
		}
		if !isReg {
			c.Violation("C05/unregistered-endpoint/acsURL="+q.acsURL.kind, fmt.Sprintf("selected endpoint %+v is not registered (%s)", got, desc), replay)
			return
		}
		// with duplicate indices / locations / several isDefault flags the precedence names a set, not one endpoint: any
		// member is a correct choice
		wantSet, ok := c05SelectSet(md, q.acsURL.val, q.acsIndex.val)
		// an index written " 1", "01" or "+1" is the number 1 to a reader that takes the attribute as xs:unsignedShort and
		// no index at all to one that compares text: either reading is a correct implementation of "the requested index"
		if t := strings.TrimLeft(strings.TrimSpace(q.acsIndex.val), "+"); t != "" && strings.Trim(t, "0123456789") == "" {
			if n, err := strconv.Atoi(t); err == nil && n <= 65535 && strconv.Itoa(n) != q.acsIndex.val {
				if alt, ok2 := c05SelectSet(md, q.acsURL.val, strconv.Itoa(n)); ok2 {
					wantSet, ok = append(wantSet, alt...), true
				}
			}
		}
		inSet := false
		for _, w := range wantSet {
			inSet = inSet || w == got
		}
		if ok && !inSet {
			c.Violation("C05/wrong-endpoint/index="+q.acsIndex.kind+"/url="+q.acsURL.kind, fmt.Sprintf("selected %+v, documented precedence gives %+v (%s)", got, wantSet, desc), replay)
			return
		}
		if len(wantSet) > 1 {
			c.Count("selection_ambiguous_by_duplicates(any member accepted)")
		}
		if !ok {
			c.Count("library_selected_where_reference_finds_none(registered, no verdict)")
		}
		c.Count("validated_ok")
		c.Observe("selection_paths", fmt.Sprintf("index=%s url=%s", q.acsIndex.kind, q.acsURL.kind))
		// the served form must target that endpoint's location (POST binding only)
		rec := httptest.NewRecorder()
		w.Lookups = nil
		if pp, _, fr, _ := core.Guard(func() { w.IDP.ServeSSO(rec, mk()) }); pp {
			c.Violation("C05/panic/"+fr+"/servesso", "panic in ServeSSO", replay)
			return
		}
		c05CheckForm(c, rec, registered(md), got, desc, replay)
	} else {
		c.Count("rejected")
		c.Observe("reject_reasons", truncate(strings.Map(keyChar, verr.Error()), 40))
		if !stale && versionOK && destOK && issuerKnown && q.issueOff != "future" {
			if _, ok := c05Select(regMD[q.issuer.val], q.acsURL.val, q.acsIndex.val); ok {
				c.Count("valid_request_with_selectable_endpoint_rejected(observation)")
				c.Observe("valid_but_rejected", truncate(verr.Error(), 80))
			}
		}
	}
	c.SampleSome(map[string]any{"case": desc, "validated": verr == nil})
}

func mdShape(m *saml.EntityDescriptor) string {
	var ds []string
	if m == nil {
		return "deregistered"
	}
	for _, d := range m.SPSSODescriptors {
		var es []string
		for _, e := range d.AssertionConsumerServices {
			def := "-"
			if e.IsDefault != nil {
				def = fmt.Sprint(*e.IsDefault)[:1]
			}
			es = append(es, fmt.Sprintf("%s#%d%s@%s", shortAlg(strings.ReplaceAll(e.Binding, ":", "/")), e.Index, def, e.Location[len(e.Location)-4:]))
		}
		ds = append(ds, "["+strings.Join(es, ",")+"]")
	}
	return strings.Join(ds, "")
}

func c05CheckForm(c *core.Ctx, rec *httptest.ResponseRecorder, regs []epTriple, sel epTriple, desc string, replay map[string]any) {
	body := rec.Body.Bytes()
	page, err := htmlmon.Parse(body)
	if err != nil {
		return
	}
	for _, f := range page.Forms {
		hasResp := false
		for _, in := range f.Inputs {
			if in.Attrs["name"] == "SAMLResponse" {
				hasResp = true
			}
		}
		if !hasResp {
			continue
		}
		action := f.Attrs["action"]
		ok := false
		for _, e := range regs {
			if e.Location == action {
				ok = true
			}
		}
		if !ok {
			c.Violation("C05/form-action-unregistered", fmt.Sprintf("response form posts to %q which is not a registered location (%s)", action, desc), replay)
			return
		}
		if sel.Location != "" && action != sel.Location {
			c.Violation("C05/form-action-not-selected", fmt.Sprintf("response form posts to %q, selected endpoint is %q (%s)", action, sel.Location, desc), replay)
			return
		}
		if sel.Binding != "" && sel.Binding != saml.HTTPPostBinding {
			c.Violation("C05/form-for-non-post-endpoint", fmt.Sprintf("response form emitted for endpoint with binding %s (%s)", sel.Binding, desc), replay)
			return
		}
		c.Count("forms_checked")
	}
	c.Observe("sso_status", fmt.Sprint(rec.Code))
}

func c05IDPInitiated(c *core.Ctx, m *saml.EntityDescriptor) {
	fx.SetNow(fx.Epoch)
	fx.ResetTolerances()
	if c05LiveWorld == nil {
		c05LiveWorld = so.NewIDPWorld()
	}
	w := c05LiveWorld
	w.Registry[so.SPMeta] = m
	target := so.SPMeta
	if c.Rng.Intn(6) == 0 {
		target = "https://unknown.example/metadata"
	}
	desc := fmt.Sprintf("idp-initiated target=%s md=%s", target, mdShape(m))
	c.Journal("C05 " + desc)
	rec := httptest.NewRecorder()
	p, pv, frame, _ := core.Guard(func() {
		w.IDP.ServeIDPInitiated(rec, httptest.NewRequest("GET", "https://idp.example.com/login/x", nil), target, "relay-state")
	})
	c.Eval()
	replay := map[string]any{"case": desc, "registered": registered(m)}
	if p {
		c.Violation("C05/panic/"+frame+"/"+panicClass(pv), fmt.Sprintf("panic %v (%s)", pv, desc), replay)
		return
	}
	c.Nontrivial(desc)
	// expected endpoint: the first HTTP-POST ACS in registry order
	var want epTriple
	has := false
	if target == so.SPMeta {
		for _, e := range registered(m) {
			if e.Binding == saml.HTTPPostBinding {
				want, has = e, true
				break
			}
		}
	}
	page, _ := htmlmon.Parse(rec.Body.Bytes())
	formed := false
	if page != nil {
		for _, f := range page.Forms {
			for _, in := range f.Inputs {
				if in.Attrs["name"] == "SAMLResponse" {
					formed = true
				}
			}
		}
	}
	if formed && !has {
		c.Violation("C05/idp-initiated/response-without-registered-post-endpoint", "IdP-initiated response emitted although the registry has no HTTP-POST ACS for the target ("+desc+")", replay)
		return
	}
	if formed {
		c05CheckForm(c, rec, registered(m), want, desc, replay)
		c.Count("idp_initiated_forms")
	} else {
		c.Count("idp_initiated_no_response")
		c.Observe("idp_initiated_status_without_response", fmt.Sprint(rec.Code))
	}
	_ = etree.NewDocument
}

var c05LiveWorld *so.IDPWorld
