//go:build verif

package props

import (
	"bytes"
	"encoding/json"
	"encoding/xml"
	"fmt"
	"net/http"
	"net/http/httptest"
	"net/url"
	"reflect"
	"sort"
	"strings"
	"time"

	"github.com/crewjam/saml"
	"github.com/crewjam/saml/samlidp"
	"golang.org/x/crypto/bcrypt"

	"verif/internal/core"
	"verif/internal/fx"
	"verif/internal/sched"
	"verif/internal/so"
)

// C19 — the bundled IdP server issues assertions only to authenticated users.

func init() {
	core.RegisterSpec(&core.Spec{
		ID:    "C19",
		Level: "fault_enumeration",
		Rule: "histories over {put/delete user (with / without password), put/delete service (fresh metadata, same name with a different entity ID), put/delete shortcut, POST /login (right / wrong / empty password, unknown user, user without hash), SSO by redirect and POST binding with {no cookie, live cookie, forged id, older session} and optional credentials in the POST, /login/{shortcut}[/suffix], delete session, list/get of every collection, advance clock under / past the session lifetime, restart} with 2 users, 3 SPs, 2 service names, 1 shortcut: " +
			"exhaustive short histories over a reduced alphabet + seeded random histories checked reply by reply against an executable reference model (S5) and against the actual store content (S1: a SAMLResponse form implies valid credentials or a stored unexpired session, and a currently registered target; S2: the SP accepts it and the identity equals the profile at login; S3: no hash disclosure; S4: exactly one well-formed reply); " +
			"fault enumeration: for sampled requests every store operation the fault-free run performed is failed in turn with ErrNotFound and with an I/O error (S1-S4 judged); restart insertion at every cut position of sampled histories must leave the observation sequence unchanged (S6). Non-trivial = request served and judged; distinct by (history prefix, action) and by (request, fault position, fault kind).",
		Assumptions: []string{"histories never register one entity ID under two service names", "under injected faults only safety clauses S1-S4 are judged", "users are seeded with low-cost bcrypt hashes directly in the store (the API's default-cost hashing is exercised on a sample)"},
		FloorQuick:  3500,
		FloorThor:   12000,
		Run:         runC19,
		TimeoutQ:    15 * time.Minute,
		LevelText:   "The real server runs over an instrumented store; every reply of exhaustive short and random long histories is compared with a reference model and with the store's actual content, every store operation of sampled requests is failed in turn (two fault kinds), and a restart is inserted at every cut of sampled histories. Held-on-observed.",
		LevelNote:   "Trusts the 150-line reference model, the library SP as validator of emitted assertions, bcrypt.",
		Technique:   "runtime monitoring: reference-model trace checker with store fault injection and restart insertion",
		DesignRef:   "DESIGN.md §5 C19",
	})
}

const c19Root = "https://idp.example.com"

type c19Profile struct {
	Name, Email, CommonName, Surname, GivenName string
	Groups                                      []string
}

type c19MUser struct {
	hasHash  bool
	password string
	previous string // the password that the current one replaced ("" = none): no longer a credential
	profile  c19Profile
}

type c19MSession struct {
	profile c19Profile
	expire  time.Time
}

type c19Model struct {
	users     map[string]*c19MUser
	sessions  map[string]*c19MSession
	services  map[string]string // name -> entity ID
	svcSP     map[string]string // name -> which SP (metadata document) is registered under it
	shortcuts map[string]samlidp.Shortcut
}

type c19SP struct {
	name   string
	sp     *saml.ServiceProvider
	entity string
	acs    string
	mdXML  []byte
}

type c19World struct {
	logins  int
	c       *core.Ctx
	store   *sched.MapStore
	wrap    *sched.Wrapper
	srv     *samlidp.Server
	model   *c19Model
	sps     []*c19SP
	now     time.Time
	cookie  string // session id held by the browser ("" none)
	older   []string
	hist    []string
	obs     []string
	dead    bool
	noModel bool // a store fault was injected earlier: the reference model is no longer in step with the store
	hashes  [][]byte
	counter int
}

func c19Hash(pw string) []byte {
	h, _ := bcrypt.GenerateFromPassword([]byte(pw), bcrypt.MinCost)
	return h
}

var c19SeedHashes = map[string][]byte{}

func c19NewWorld(c *core.Ctx) *c19World {
	w := &c19World{c: c, store: sched.NewMapStore(), now: fx.Epoch}
	w.wrap = sched.NewWrapper(w.store)
	w.model = &c19Model{users: map[string]*c19MUser{}, sessions: map[string]*c19MSession{}, services: map[string]string{}, svcSP: map[string]string{}, shortcuts: map[string]samlidp.Shortcut{}}
	fx.SetNow(w.now)
	saml.RandReader = fx.NewRecReader(4242)
	// seed users directly in the store (cheap hashes)
	for _, u := range []struct{ n, pw string }{{"alice", "pw-alice"}, {"bob", "pw-bob"}, {"carol", "pw-carol"}} {
		if c19SeedHashes[u.n] == nil {
			c19SeedHashes[u.n] = c19Hash(u.pw)
		}
		p := c19Profile{Name: u.n, Email: u.n + "@example.com", CommonName: strings.ToUpper(u.n[:1]) + u.n[1:] + " Doe", Surname: "Doe", GivenName: u.n, Groups: []string{"staff", "grp-" + u.n}}
		if u.n != "alice" { // two users without an e-mail address: nothing but their names tells them apart
			p.Email = ""
		}
		usr := samlidp.User{Name: p.Name, HashedPassword: c19SeedHashes[u.n], Email: p.Email, CommonName: p.CommonName, Surname: p.Surname, GivenName: p.GivenName, Groups: p.Groups}
		_ = w.store.Put("/users/"+u.n, &usr)
		w.model.users[u.n] = &c19MUser{hasHash: true, password: u.pw, profile: p}
		w.hashes = append(w.hashes, c19SeedHashes[u.n])
	}
	w.restart(false)
	// service providers
	ib, _ := xml.Marshal(w.srv.IDP.Metadata())
	// spa2 is spa after a move: the same entity ID, another assertion consumer URL
	for i, n := range []string{"spa", "spb", "spc", "spa2"} {
		var idpMD saml.EntityDescriptor
		_ = xml.Unmarshal(ib, &idpMD)
		kp := fx.K("sp_rsa1024")
		host, acsPath := n, "/saml/acs"
		if n == "spa2" {
			host, acsPath = "spa", "/saml/acs2"
		}
		sp := &saml.ServiceProvider{Key: kp.Key, MetadataURL: mustURL("https://" + host + ".example.com/saml/metadata"), AcsURL: mustURL("https://" + host + ".example.com" + acsPath), SloURL: mustURL("https://" + host + ".example.com/saml/slo"), IDPMetadata: &idpMD}
		if i == 1 {
			sp.Certificate = kp.Cert // this one publishes an encryption key
		}
		mb, _ := xml.Marshal(sp.Metadata())
		w.sps = append(w.sps, &c19SP{name: n, sp: sp, entity: sp.MetadataURL.String(), acs: sp.AcsURL.String(), mdXML: mb})
	}
	return w
}

func (w *c19World) restart(log bool) {
	srv, err := samlidp.New(samlidp.Options{URL: mustURL(c19Root), Key: fx.K("idp_s1").Key, Certificate: fx.K("idp_s1").Cert, Store: w.wrap})
	if err != nil {
		w.fail("restart/error", "samlidp.New over the existing store failed: "+err.Error(), nil)
		return
	}
	w.srv = srv
	if log {
		w.hist = append(w.hist, "restart")
	}
}

func (w *c19World) fail(key, msg string, extra map[string]any) {
	r := map[string]any{"history": w.hist}
	for k, v := range extra {
		r[k] = v
	}
	w.c.Violation("C19/"+key, msg+" [history: "+truncate(strings.Join(w.hist, " ; "), 600)+"]", r)
	w.dead = true
}

type c19Reply struct {
	code     int
	body     []byte
	sw       *sched.StrictWriter
	hasForm  bool
	em       *so.Emitted
	setSess  string
	isLogin  bool // login form page
	ops      int
	panicked bool
}

// do serves one request through the strict writer and applies S3 / S4.
func (w *c19World) do(desc string, req *http.Request, faultAt int, faultErr error) *c19Reply {
	fx.SetNow(w.now)
	if w.cookie != "" && req.Header.Get("Cookie") == "" && req.Header.Get("X-No-Cookie") == "" {
		req.Header.Set("Cookie", "session="+w.cookie)
	}
	req.Header.Del("X-No-Cookie")
	sw := sched.NewStrictWriter()
	w.wrap.Arm(faultAt, faultErr)
	p, pv, frame, _ := core.Guard(func() { w.srv.ServeHTTP(sw, req) })
	sw.Finish()
	w.c.Eval()
	rep := &c19Reply{code: sw.Code, body: sw.Body.Bytes(), sw: sw, ops: w.wrap.Count()}
	w.wrap.Arm(0, nil)
	extra := map[string]any{"request": desc, "status": sw.Code, "body": string(trunc(rep.body, 3000))}
	if p {
		cls := "fault-free"
		if faultAt != 0 {
			cls = "under-store-fault"
		}
		w.fail("S4/panic/"+cls+"/"+frame+"/"+panicClass(pv), fmt.Sprintf("handler panicked: %v (%s)", pv, desc), extra)
		rep.panicked = true
		return rep
	}
	// S4: exactly one well-formed reply
	if sw.SuperfluousW > 0 || sw.WritesAfter > 0 {
		cls := "fault-free"
		if faultAt != 0 {
			cls = "under-store-fault"
		}
		w.fail("S4/multiple-status-lines/"+cls+"/"+reqClass(desc), fmt.Sprintf("%d superfluous WriteHeader calls, %d writes after return (%s)", sw.SuperfluousW, sw.WritesAfter, desc), extra)
		return rep
	}
	if sw.Code < 100 || sw.Code > 599 {
		w.fail("S4/status-range", fmt.Sprintf("status %d", sw.Code), extra)
		return rep
	}
	if ct := sw.SentHeader().Get("Content-Type"); strings.Contains(ct, "json") && len(rep.body) > 0 && !json.Valid(rep.body) {
		w.fail("S4/body-not-json", "Content-Type says JSON but the body is not", extra)
		return rep
	}
	// S3: no stored hash and no hashed_password member in any reply
	for _, h := range w.hashes {
		if len(h) > 0 && (bytes.Contains(rep.body, h) || bytes.Contains(rep.body, []byte(b64Std(h)))) {
			w.fail("S3/hash-disclosed/"+reqClass(desc), "a stored bcrypt hash appears in the reply to "+desc, extra)
			return rep
		}
	}
	if bytes.Contains(rep.body, []byte("hashed_password")) {
		w.fail("S3/hashed_password-member/"+reqClass(desc), "the reply to "+desc+" contains a hashed_password member", extra)
		return rep
	}
	for k, vs := range sw.SentHeader() {
		for _, v := range vs {
			for _, h := range w.hashes {
				if strings.Contains(v, string(h)) {
					w.fail("S3/hash-in-header", "hash in header "+k, extra)
					return rep
				}
			}
		}
	}
	for _, ck := range (&http.Response{Header: sw.SentHeader()}).Cookies() {
		if ck.Name == "session" && ck.Value != "" {
			rep.setSess = ck.Value
		}
	}
	if em, err := so.DecodeReply(rep.body, fx.K("sp_rsa1024")); err == nil && em != nil {
		rep.hasForm = true
		rep.em = em
	} else if bytes.Contains(rep.body, []byte(`name="password"`)) {
		rep.isLogin = true
	}
	// S4: one reply means one outcome - an error status line must not be followed by a session cookie or an assertion form
	if sw.Code >= 400 && (rep.hasForm || rep.setSess != "") {
		cls := "fault-free"
		if faultAt != 0 {
			cls = "under-store-fault"
		}
		w.fail("S4/error-status-with-success-payload/"+cls+"/"+reqClass(desc), fmt.Sprintf("status %d but the reply also carries form=%v session-cookie=%v (%s)", sw.Code, rep.hasForm, rep.setSess != "", desc), extra)
	}
	return rep
}

func b64Std(b []byte) string { return so.B64(b) }

func reqClass(desc string) string {
	if i := strings.IndexAny(desc, "( "); i > 0 {
		return desc[:i]
	}
	return desc
}

// ---- store-based S1 evaluation ----

func (w *c19World) storeSessionLive(id string, snap map[string]string) (bool, c19Profile) {
	raw, ok := snap["/sessions/"+id]
	if !ok {
		return false, c19Profile{}
	}
	var s saml.Session
	if json.Unmarshal([]byte(raw), &s) != nil {
		return false, c19Profile{}
	}
	if w.now.After(s.ExpireTime) {
		return false, c19Profile{}
	}
	return true, c19Profile{Name: s.UserName, Email: s.UserEmail, CommonName: s.UserCommonName, Surname: s.UserSurname, GivenName: s.UserGivenName, Groups: s.Groups}
}

func storeCredsOK(user, pw string, snap map[string]string) (bool, c19Profile) {
	raw, ok := snap["/users/"+user]
	if !ok || user == "" {
		return false, c19Profile{}
	}
	var u samlidp.User
	if json.Unmarshal([]byte(raw), &u) != nil {
		return false, c19Profile{}
	}
	if bcrypt.CompareHashAndPassword(u.HashedPassword, []byte(pw)) != nil {
		return false, c19Profile{}
	}
	return true, c19Profile{Name: u.Name, Email: u.Email, CommonName: u.CommonName, Surname: u.Surname, GivenName: u.GivenName, Groups: u.Groups}
}

func storeRegistered(entity string, snap map[string]string) (bool, string) {
	for k, raw := range snap {
		if !strings.HasPrefix(k, "/services/") {
			continue
		}
		var svc samlidp.Service
		if json.Unmarshal([]byte(raw), &svc) != nil {
			continue
		}
		if svc.Metadata.EntityID == entity {
			for _, d := range svc.Metadata.SPSSODescriptors {
				for _, e := range d.AssertionConsumerServices {
					if e.Binding == saml.HTTPPostBinding {
						return true, e.Location
					}
				}
			}
			return true, ""
		}
	}
	return false, ""
}

// judgeAssertion applies S1 and S2 to a reply carrying a SAMLResponse form.
func (w *c19World) judgeAssertion(desc string, rep *c19Reply, snap map[string]string, cookieSent, user, pw string, target *c19SP, reqID string, faulted bool) {
	cls := "fault-free"
	if faulted {
		cls = "under-store-fault"
	}
	extra := map[string]any{"request": desc, "response": string(rep.em.ResponseXML)}
	liveOK, sessProfile := false, c19Profile{}
	if cookieSent != "" {
		liveOK, sessProfile = w.storeSessionLive(cookieSent, snap)
	}
	credOK, credProfile := false, c19Profile{}
	if user != "" {
		credOK, credProfile = storeCredsOK(user, pw, snap)
	}
	if !liveOK && !credOK {
		why := "no credentials and no session cookie"
		switch {
		case user != "":
			why = "wrong or unverifiable credentials"
		case cookieSent != "":
			why = "session cookie names no stored unexpired session"
		}
		w.fail("S1/assertion-without-authentication/"+cls+"/"+strings.ReplaceAll(why, " ", "-"), fmt.Sprintf("a SAML response was issued although %s (%s)", why, desc), extra)
		return
	}
	if target == nil {
		w.fail("S1/assertion-for-unknown-target/"+cls, "response emitted for a request without known target", extra)
		return
	}
	reg, acs := storeRegistered(target.entity, snap)
	if !reg {
		w.fail("S1/assertion-for-unregistered-service/"+cls, fmt.Sprintf("a SAML response was issued towards %s which is not a stored service at that moment (%s)", target.entity, desc), extra)
		return
	}
	if rep.em.Action != acs {
		w.fail("S1/form-action/"+cls, fmt.Sprintf("form action %q, registered ACS %q", rep.em.Action, acs), extra)
		return
	}
	// S2: the SP accepts and the identity is the profile at login
	var ids []string
	if reqID != "" {
		ids = []string{reqID}
	} else {
		target.sp.AllowIDPInitiated = true
		defer func() { target.sp.AllowIDPInitiated = false }()
		ids = []string{""}
	}
	a, err := target.sp.ParseXMLResponse(rep.em.ResponseXML, ids, mustURL(target.acs))
	if err != nil {
		w.fail("S2/sp-rejects/"+cls, fmt.Sprintf("the SP rejects the server's response: %s (%s)", errPrivate(err), desc), extra)
		return
	}
	want := sessProfile
	if credOK {
		want = credProfile
	}
	got := c19Profile{}
	if a.Subject != nil && a.Subject.NameID != nil {
		got.Email = a.Subject.NameID.Value
	}
	for _, st := range a.AttributeStatements {
		for _, at := range st.Attributes {
			var vals []string
			for _, v := range at.Values {
				vals = append(vals, v.Value)
			}
			switch at.FriendlyName {
			case "uid":
				got.Name = first(vals)
			case "cn":
				got.CommonName = first(vals)
			case "sn":
				got.Surname = first(vals)
			case "givenName":
				got.GivenName = first(vals)
			case "eduPersonAffiliation":
				got.Groups = vals
			}
		}
	}
	if len(want.Groups) == 0 {
		want.Groups = nil
	}
	if !reflect.DeepEqual(got, want) {
		w.fail("S2/identity-differs/"+cls, fmt.Sprintf("assertion describes %+v, the user as stored at login is %+v (%s)", got, want, desc), extra)
		return
	}
	w.c.Count("assertions_judged")
}

func first(l []string) string {
	if len(l) == 0 {
		return ""
	}
	return l[0]
}

// ---- actions ----

type c19Action struct {
	kind string
	a, b string
	n    int
}

func (a c19Action) String() string { return fmt.Sprintf("%s(%s,%s,%d)", a.kind, a.a, a.b, a.n) }

func (w *c19World) spByName(n string) *c19SP {
	for _, s := range w.sps {
		if s.name == n {
			return s
		}
	}
	return nil
}

func jsonReq(method, path string, v any) *http.Request {
	b, _ := json.Marshal(v)
	r := httptest.NewRequest(method, c19Root+path, bytes.NewReader(b))
	return r
}

// step executes one action, compares with the model (S5) and the store (S1), and records an observation.
func (w *c19World) step(act c19Action, faultAt int, faultErr error) {
	if w.dead {
		return
	}
	desc := act.String()
	w.hist = append(w.hist, desc)
	w.c.Journal("C19 " + strings.Join(w.hist[max(0, len(w.hist)-12):], " ; "))
	snap := w.store.Snapshot()
	if faultAt != 0 {
		w.noModel = true
	}
	faulted := w.noModel
	m := w.model
	observe := func(rep *c19Reply, extra string) {
		w.obs = append(w.obs, fmt.Sprintf("%s -> %d form=%v login=%v setsess=%v %s", desc, rep.code, rep.hasForm, rep.isLogin, rep.setSess != "", extra))
	}
	expectStatus := func(rep *c19Reply, want int) {
		if faulted || rep.panicked || w.dead {
			return
		}
		// the model predicts the outcome (served / redirected / refused), not the particular status code: 404 instead of
		// 500 for something that is not there, or 200 instead of 204, is the same outcome
		class := func(code int) string {
			switch {
			case code >= 200 && code < 300:
				return "served"
			case code >= 300 && code < 400:
				return "redirected"
			}
			return "refused"
		}
		if class(rep.code) != class(want) {
			w.fail(fmt.Sprintf("S5/status/%s/got-%s-want-%s", act.kind, class(rep.code), class(want)), fmt.Sprintf("%s answered %d (%s), the reference model predicts %s", desc, rep.code, class(rep.code), class(want)), map[string]any{"body": string(trunc(rep.body, 1500))})
		}
	}
	switch act.kind {
	case "putUser":
		u := act.a
		p := c19Profile{Name: u, Email: u + fmt.Sprintf("+%d@example.com", act.n), CommonName: "CN " + u + fmt.Sprint(act.n), Surname: "S" + fmt.Sprint(act.n), GivenName: "G" + u, Groups: []string{"g" + fmt.Sprint(act.n)}}
		// sparse bodies: a PUT replaces the user, so members that are left out are gone afterwards (only the password hash is
		// documented to survive an omitted password)
		if act.n%3 == 1 {
			p.Email = ""
		}
		if act.n%4 == 2 {
			p.Groups = nil
		}
		if act.n%5 == 3 {
			p.Surname, p.GivenName = "", ""
		}
		body := map[string]any{"name": "ignored"}
		if p.Email != "" {
			body["email"] = p.Email
		}
		if p.CommonName != "" {
			body["common_name"] = p.CommonName
		}
		if p.Surname != "" {
			body["surname"] = p.Surname
		}
		if p.GivenName != "" {
			body["given_name"] = p.GivenName
		}
		if p.Groups != nil {
			body["groups"] = p.Groups
		}
		pw, setPw := "", false
		switch act.b {
		case "with-password":
			pw, setPw = fmt.Sprintf("pw-%s-%d", u, act.n), true
			body["password"] = pw
		case "empty-password": // a password member that is present and empty replaces the password like any other value
			setPw = true
			body["password"] = ""
		case "long-password": // longer than bcrypt's 72 bytes: refusing it is fine, accepting it means ALL of it is the password
			pw, setPw = fmt.Sprintf("pw-%s-%d-", u, act.n)+strings.Repeat("0123456789", 8), true
			body["password"] = pw
		}
		rep := w.do(desc, jsonReq("PUT", "/users/"+u, body), faultAt, faultErr)
		if act.b != "long-password" || (rep.code >= 200 && rep.code < 300) {
			expectStatus(rep, 204)
		}
		if !faulted && rep.code >= 200 && rep.code < 300 {
			mu := m.users[u]
			if mu == nil {
				mu = &c19MUser{}
				m.users[u] = mu
			}
			mu.profile = p
			var stored samlidp.User
			if err := json.Unmarshal([]byte(w.store.Snapshot()["/users/"+u]), &stored); err == nil {
				got := c19Profile{Name: stored.Name, Email: stored.Email, CommonName: stored.CommonName, Surname: stored.Surname, GivenName: stored.GivenName, Groups: stored.Groups}
				if len(got.Groups) == 0 {
					got.Groups = nil
				}
				if !reflect.DeepEqual(got, p) {
					w.fail("S5/stored-user-differs-from-put", fmt.Sprintf("after %s the stored user is %+v, the request body said %+v", desc, got, p), nil)
				}
			}
			if setPw {
				if mu.hasHash && mu.password != pw {
					mu.previous = mu.password
				}
				mu.hasHash, mu.password = true, pw
			}
		}
		w.syncHashes()
		observe(rep, "")
	case "delUser":
		rep := w.do(desc, httptest.NewRequest("DELETE", c19Root+"/users/"+act.a, nil), faultAt, faultErr)
		expectStatus(rep, 204)
		if !faulted {
			delete(m.users, act.a)
		}
		observe(rep, "")
	case "putService":
		sp := w.spByName(act.b)
		rep := w.do(desc, httptest.NewRequest("PUT", c19Root+"/services/"+act.a, bytes.NewReader(sp.mdXML)), faultAt, faultErr)
		expectStatus(rep, 204)
		if !faulted && rep.code == 204 {
			m.services[act.a] = sp.entity
			m.svcSP[act.a] = sp.name
		}
		observe(rep, "")
	case "delService":
		rep := w.do(desc, httptest.NewRequest("DELETE", c19Root+"/services/"+act.a, nil), faultAt, faultErr)
		if _, ok := m.services[act.a]; ok {
			expectStatus(rep, 204)
			if !faulted {
				delete(m.services, act.a)
				delete(m.svcSP, act.a)
			}
		} else {
			expectStatus(rep, 500)
		}
		observe(rep, "")
	case "putShortcut":
		sp := w.spByName(act.b)
		sc := samlidp.Shortcut{ServiceProviderID: sp.entity}
		switch act.n % 3 {
		case 1:
			sc.RelayState = strPtr("fixed-relay")
		case 2:
			sc.URISuffixAsRelayState = true
		}
		rep := w.do(desc, jsonReq("PUT", "/shortcuts/"+act.a, sc), faultAt, faultErr)
		expectStatus(rep, 204)
		if !faulted && rep.code == 204 {
			sc.Name = act.a
			m.shortcuts[act.a] = sc
		}
		observe(rep, "")
	case "delShortcut":
		rep := w.do(desc, httptest.NewRequest("DELETE", c19Root+"/shortcuts/"+act.a, nil), faultAt, faultErr)
		expectStatus(rep, 204)
		if !faulted {
			delete(m.shortcuts, act.a)
		}
		observe(rep, "")
	case "login":
		user, pw := w.creds(act.a, act.b)
		form := url.Values{"user": {user}, "password": {pw}}
		req := httptest.NewRequest("POST", c19Root+"/login", strings.NewReader(form.Encode()))
		req.Header.Set("Content-Type", "application/x-www-form-urlencoded")
		req.Header.Set("X-No-Cookie", "1")
		// a browser that logs in again may still hold the cookie of an earlier session (its own or someone else's, live or
		// expired); credentials decide, the cookie must not matter
		w.logins++ // chosen by position in the history, not by the PRNG: a replay with a restart inserted must make the same choice
		if ck := w.cookieFor([]string{"", "live", "older", "older", "forged"}[w.logins%5]); ck != "" {
			req.Header.Set("Cookie", "session="+ck)
			req.Header.Del("X-No-Cookie")
			w.c.Count("logins_with_a_session_cookie_attached")
		}
		rep := w.do(desc, req, faultAt, faultErr)
		mu := m.users[user]
		want := mu != nil && mu.hasHash && mu.password == pw && user != ""
		credOK, prof := storeCredsOK(user, pw, snap)
		if rep.setSess != "" && !credOK {
			w.fail("S1/session-without-valid-credentials/"+act.b, fmt.Sprintf("a session was created for %q although the stored hash does not match (%s)", user, desc), nil)
			return
		}
		if !faulted {
			if want != (rep.setSess != "") {
				w.fail(fmt.Sprintf("S5/login/%s/want-session-%v", act.b, want), fmt.Sprintf("login outcome differs from the model: session=%v predicted=%v (%s)", rep.setSess != "", want, desc), nil)
				return
			}
			expectStatus(rep, 200)
		}
		if rep.setSess != "" {
			if w.cookie != "" {
				w.older = append(w.older, w.cookie)
			}
			w.cookie = rep.setSess
			m.sessions[rep.setSess] = &c19MSession{profile: prof, expire: w.now.Add(time.Hour)}
			// the JSON session object must describe the user
			var s saml.Session
			if json.Unmarshal(rep.body, &s) != nil || s.UserName != prof.Name || s.ID != rep.setSess {
				w.fail("S2/login-session-object", "login reply does not describe the created session", map[string]any{"body": string(trunc(rep.body, 800))})
				return
			}
		}
		observe(rep, "")
	case "sso":
		sp := w.spByName(act.a)
		cookieSent := w.cookieFor(act.b)
		var ar *saml.AuthnRequest
		var req *http.Request
		user, pw := "", ""
		binding := act.n % 3
		fx.SetNow(w.now)
		switch binding {
		case 0:
			ar, _ = sp.sp.MakeAuthenticationRequest(sp.sp.GetSSOBindingLocation(saml.HTTPRedirectBinding), saml.HTTPRedirectBinding, saml.HTTPPostBinding)
			u, _ := ar.Redirect("relay-"+fmt.Sprint(w.counter), sp.sp)
			req = httptest.NewRequest("GET", u.String(), nil)
		default:
			ar, _ = sp.sp.MakeAuthenticationRequest(sp.sp.GetSSOBindingLocation(saml.HTTPPostBinding), saml.HTTPPostBinding, saml.HTTPPostBinding)
			form := url.Values{"SAMLRequest": {so.B64(so.Bytes(ar.Element()))}, "RelayState": {"relay"}}
			if binding == 2 { // credentials travel with the POST
				user, pw = w.creds(act.b2user(), "right")
				if act.n%2 == 0 {
					user, pw = w.creds(act.b2user(), "wrong")
				}
				if act.n%5 == 4 {
					user, pw = w.creds(act.b2user(), "previous-password")
				}
				form.Set("user", user)
				form.Set("password", pw)
			}
			req = httptest.NewRequest("POST", c19Root+"/sso", strings.NewReader(form.Encode()))
			req.Header.Set("Content-Type", "application/x-www-form-urlencoded")
		}
		w.counter++
		if cookieSent != "" {
			req.Header.Set("Cookie", "session="+cookieSent)
		} else {
			req.Header.Set("X-No-Cookie", "1")
		}
		rep := w.do(desc, req, faultAt, faultErr)
		if w.dead {
			return
		}
		if rep.hasForm {
			w.judgeAssertion(desc, rep, snap, cookieSent, user, pw, sp, ar.ID, faulted)
		}
		if !faulted && !w.dead {
			// S5: model prediction
			// registered: this SP's metadata document (entity ID and assertion consumer URL) is what a service holds now
			registered := false
			for _, n := range m.svcSP {
				if n == sp.name {
					registered = true
				}
			}
			auth := false
			if user != "" {
				mu := m.users[user]
				auth = mu != nil && mu.hasHash && mu.password == pw
			} else if s := m.sessions[cookieSent]; s != nil && cookieSent != "" {
				auth = !w.now.After(s.expire)
			}
			wantForm := registered && auth
			if wantForm != rep.hasForm {
				cls := "missing"
				if rep.hasForm {
					cls = "unexpected"
				}
				w.fail(fmt.Sprintf("S5/sso/%s-saml-response/registered=%v/auth=%v", cls, registered, auth), fmt.Sprintf("SAMLResponse present=%v, the reference model predicts %v (registered=%v authenticated=%v) (%s)", rep.hasForm, wantForm, registered, auth, desc), map[string]any{"status": rep.code, "body": string(trunc(rep.body, 1200))})
				return
			}
			// which reply a request gets that obtains no assertion (login page or an error status) is not the property's business
			if rep.setSess != "" && user != "" {
				_, prof := storeCredsOK(user, pw, snap)
				m.sessions[rep.setSess] = &c19MSession{profile: prof, expire: w.now.Add(time.Hour)}
				if w.cookie != "" {
					w.older = append(w.older, w.cookie)
				}
				w.cookie = rep.setSess
			}
		}
		observe(rep, "")
	case "shortcut":
		cookieSent := w.cookieFor(act.b)
		path := "/login/" + act.a
		if act.n%2 == 1 {
			path += "/suffix-x"
		}
		req := httptest.NewRequest("GET", c19Root+path, nil)
		if cookieSent != "" {
			req.Header.Set("Cookie", "session="+cookieSent)
		} else {
			req.Header.Set("X-No-Cookie", "1")
		}
		rep := w.do(desc, req, faultAt, faultErr)
		if w.dead {
			return
		}
		sc, have := m.shortcuts[act.a]
		var target *c19SP
		if raw, ok := snap["/shortcuts/"+act.a]; ok {
			var ssc samlidp.Shortcut
			if json.Unmarshal([]byte(raw), &ssc) == nil {
				_, storedACS := storeRegistered(ssc.ServiceProviderID, snap)
				for _, s := range w.sps {
					if s.entity == ssc.ServiceProviderID && (target == nil || s.acs == storedACS) {
						target = s
					}
				}
			}
		}
		if rep.hasForm {
			w.judgeAssertion(desc, rep, snap, cookieSent, "", "", target, "", faulted)
			if !w.dead && have && !faulted { // model-based: off once a fault has made the model's picture of the store unreliable
				wantRelay := ""
				switch {
				case sc.RelayState != nil:
					wantRelay = *sc.RelayState
				case sc.URISuffixAsRelayState && act.n%2 == 1:
					wantRelay = "/suffix-x"
				}
				if rep.em.RelayState != wantRelay {
					w.fail("S5/shortcut-relay-state", fmt.Sprintf("RelayState %q, shortcut rule gives %q", rep.em.RelayState, wantRelay), nil)
					return
				}
			}
		}
		if !faulted && !w.dead {
			auth := false
			if s := m.sessions[cookieSent]; s != nil && cookieSent != "" {
				auth = !w.now.After(s.expire)
			}
			registered := false
			if have {
				for _, e := range m.services {
					if e == sc.ServiceProviderID {
						registered = true
					}
				}
			}
			wantForm := have && auth && registered
			if wantForm != rep.hasForm {
				cls := "missing"
				if rep.hasForm {
					cls = "unexpected"
				}
				w.fail(fmt.Sprintf("S5/shortcut/%s-saml-response/shortcut=%v/auth=%v/registered=%v", cls, have, auth, registered), fmt.Sprintf("SAMLResponse present=%v, model predicts %v (%s)", rep.hasForm, wantForm, desc), map[string]any{"status": rep.code, "body": string(trunc(rep.body, 1200))})
				return
			}
			// which reply a request gets that obtains no assertion (login page, 404, 500 ...) is not the property's business
		}
		observe(rep, "")
	case "delSession":
		id := w.cookieFor(act.a)
		if id == "" {
			id = "nonexistent"
		}
		rep := w.do(desc, httptest.NewRequest("DELETE", c19Root+"/sessions/"+url.PathEscape(id), nil), faultAt, faultErr)
		if !faulted {
			expectStatus(rep, 204)
			delete(m.sessions, id)
		}
		observe(rep, "")
	case "read":
		paths := []string{"/users/", "/users/alice", "/users/bob", "/users/nobody", "/services/", "/services/svc1", "/services/svc2", "/sessions/", "/shortcuts/", "/shortcuts/sc1", "/metadata", "/sessions/" + url.PathEscape(w.cookie)}
		pth := paths[act.n%len(paths)]
		rep := w.do(desc+" "+pth, httptest.NewRequest("GET", c19Root+pth, nil), faultAt, faultErr)
		if !faulted && !w.dead {
			want := 200
			switch {
			case strings.HasPrefix(pth, "/users/") && pth != "/users/":
				if m.users[strings.TrimPrefix(pth, "/users/")] == nil {
					want = 500
				}
			case strings.HasPrefix(pth, "/services/") && pth != "/services/":
				if _, ok := m.services[strings.TrimPrefix(pth, "/services/")]; !ok {
					want = 500
				}
			case strings.HasPrefix(pth, "/shortcuts/") && pth != "/shortcuts/":
				if _, ok := m.shortcuts[strings.TrimPrefix(pth, "/shortcuts/")]; !ok {
					want = 500
				}
			case strings.HasPrefix(pth, "/sessions/") && pth != "/sessions/":
				if m.sessions[w.cookie] == nil || w.cookie == "" {
					want = 500
					if w.cookie == "" {
						want = 200 // "/sessions/" list
					}
				}
			}
			expectStatus(rep, want)
			// list contents equal the model's key sets
			switch pth {
			case "/users/":
				w.checkList(rep, "users", keys(m.users))
			case "/services/":
				w.checkList(rep, "services", keys(m.services))
			case "/shortcuts/":
				w.checkList(rep, "shortcuts", keys(m.shortcuts))
			case "/sessions/":
				w.checkList(rep, "sessions", keys(m.sessions))
			}
		}
		observe(rep, sortedBody(rep.body, pth))
	case "clock":
		d := []time.Duration{10 * time.Minute, 59 * time.Minute, 61 * time.Minute, 3 * time.Hour}[act.n%4]
		w.now = w.now.Add(d)
	case "restart":
		w.hist = w.hist[:len(w.hist)-1]
		w.restart(true)
	}
}

func (a c19Action) b2user() string {
	if a.n%4 < 2 {
		return "alice"
	}
	return "bob"
}

func keys[V any](m map[string]V) []string {
	var k []string
	for n := range m {
		k = append(k, n)
	}
	sort.Strings(k)
	return k
}

func (w *c19World) checkList(rep *c19Reply, member string, want []string) {
	var got map[string][]string
	if json.Unmarshal(rep.body, &got) != nil {
		w.fail("S5/list-not-json/"+member, "list reply is not JSON", map[string]any{"body": string(trunc(rep.body, 500))})
		return
	}
	l := append([]string{}, got[member]...)
	sort.Strings(l)
	if len(l) == 0 && len(want) == 0 {
		return
	}
	if !reflect.DeepEqual(l, want) {
		w.fail("S5/list-content/"+member, fmt.Sprintf("list %v, model %v", l, want), nil)
	}
}

func sortedBody(b []byte, pth string) string {
	if !strings.HasSuffix(pth, "/") {
		return ""
	}
	var got map[string][]string
	if json.Unmarshal(b, &got) != nil {
		return "unparsable"
	}
	var parts []string
	for k, v := range got {
		sort.Strings(v)
		parts = append(parts, k+"="+strings.Join(v, ","))
	}
	sort.Strings(parts)
	return strings.Join(parts, " ")
}

func (w *c19World) syncHashes() {
	for k, raw := range w.store.Snapshot() {
		if strings.HasPrefix(k, "/users/") {
			var u samlidp.User
			if json.Unmarshal([]byte(raw), &u) == nil && len(u.HashedPassword) > 0 {
				found := false
				for _, h := range w.hashes {
					if bytes.Equal(h, u.HashedPassword) {
						found = true
					}
				}
				if !found {
					w.hashes = append(w.hashes, u.HashedPassword)
				}
			}
		}
	}
}

func (w *c19World) creds(user, kind string) (string, string) {
	mu := w.model.users[user]
	right := "pw-" + user
	if mu != nil && mu.hasHash {
		right = mu.password
	}
	switch kind {
	case "long-prefix": // the first 72 bytes of a longer password are not the password
		if mu != nil && len(mu.password) > 72 {
			return user, mu.password[:72]
		}
		return user, right + "-no"
	case "previous-password":
		if mu != nil && mu.previous != "" {
			return user, mu.previous
		}
		return user, right + "-old"
	case "right":
		return user, right
	case "wrong":
		return user, right + "x"
	case "empty":
		return user, ""
	case "other-users-password":
		o := "alice"
		if user == "alice" {
			o = "bob"
		}
		if ou := w.model.users[o]; ou != nil && ou.password != "" {
			return user, ou.password
		}
		return user, "pw-" + o
	case "unknown-user":
		return "mallory", "whatever"
	case "empty-user":
		return "", right
	}
	return user, right
}

func (w *c19World) cookieFor(kind string) string {
	switch kind {
	case "live":
		return w.cookie
	case "forged":
		return "Zm9yZ2VkLXNlc3Npb24taWQ="
	case "older":
		if len(w.older) > 0 {
			return w.older[len(w.older)-1]
		}
		return ""
	case "path-trick":
		return "../users/alice"
	}
	return ""
}

// ---- drivers ----

func c19RandomAction(c *core.Ctx, w *c19World) c19Action {
	r := c.Rng
	users := []string{"alice", "bob", "carol"}
	sps := []string{"spa", "spb", "spc", "spa2"}
	svcs := []string{"svc1", "svc2"}
	cookies := []string{"live", "live", "live", "none", "forged", "older", "path-trick"}
	switch k := r.Intn(40); {
	case k < 3:
		b := "without-password"
		switch r.Intn(12) {
		case 0, 1:
			b = "with-password" // default-cost bcrypt: expensive, sampled
		case 2:
			b = "empty-password"
		case 3:
			b = "long-password"
		}
		return c19Action{"putUser", users[r.Intn(3)], b, r.Intn(100)}
	case k < 5:
		return c19Action{"delUser", users[r.Intn(3)], "", 0}
	case k < 9:
		// never register one entity under two names: svc1 takes spa/spc, svc2 takes spb
		if r.Intn(2) == 0 {
			return c19Action{"putService", "svc1", []string{"spa", "spc", "spa2", "spa"}[r.Intn(4)], 0}
		}
		return c19Action{"putService", "svc2", "spb", 0}
	case k < 11:
		return c19Action{"delService", svcs[r.Intn(2)], "", 0}
	case k < 13:
		return c19Action{"putShortcut", "sc1", sps[r.Intn(3)], r.Intn(3)}
	case k < 14:
		return c19Action{"delShortcut", "sc1", "", 0}
	case k < 19:
		return c19Action{"login", users[r.Intn(3)], []string{"right", "right", "wrong", "empty", "other-users-password", "unknown-user", "empty-user", "previous-password", "long-prefix"}[r.Intn(9)], 0}
	case k < 28:
		return c19Action{"sso", sps[r.Intn(4)], cookies[r.Intn(len(cookies))], r.Intn(12)}
	case k < 32:
		return c19Action{"shortcut", []string{"sc1", "sc1", "sc-missing"}[r.Intn(3)], cookies[r.Intn(len(cookies))], r.Intn(4)}
	case k < 33:
		return c19Action{"delSession", []string{"live", "older", "forged"}[r.Intn(3)], "", 0}
	case k < 36:
		return c19Action{"read", "", "", r.Intn(12)}
	case k < 38:
		return c19Action{"clock", "", "", r.Intn(4)}
	default:
		return c19Action{"restart", "", "", 0}
	}
}

func runC19(c *core.Ctx) {
	so.Quiet()
	fx.ResetTolerances()
	idx := 0
	mine := func() bool { idx++; return c.Mine(idx) }
	finish := func(w *c19World, tag string) {
		for i := range w.obs {
			c.Nontrivial(fmt.Sprintf("%s|%s|%d", tag, strings.Join(w.hist[:min(len(w.hist), i+1)], ";"), i))
		}
	}
	// (a) exhaustive short histories over a reduced alphabet, from a prepared state (service registered, user logged in)
	alphabet := []c19Action{
		{"putService", "svc1", "spc", 0}, {"putService", "svc1", "spa", 0}, {"putService", "svc1", "spa2", 0}, {"delService", "svc1", "", 0}, {"putShortcut", "sc1", "spa", 1}, {"delShortcut", "sc1", "", 0},
		{"login", "alice", "right", 0}, {"login", "alice", "wrong", 0}, {"sso", "spa", "live", 0}, {"sso", "spc", "live", 1}, {"sso", "spa", "none", 0}, {"shortcut", "sc1", "live", 0},
		{"delSession", "live", "", 0}, {"clock", "", "", 2}, {"restart", "", "", 0}, {"delUser", "alice", "", 0}, {"putUser", "alice", "without-password", 7},
	}
	depth := 3
	var rec func(prefix []c19Action)
	rec = func(prefix []c19Action) {
		if len(prefix) == depth {
			if !mine() {
				return
			}
			w := c19NewWorld(c)
			w.step(c19Action{"putService", "svc1", "spa", 0}, 0, nil)
			w.step(c19Action{"putService", "svc2", "spb", 0}, 0, nil)
			w.step(c19Action{"putShortcut", "sc1", "spa", 2}, 0, nil)
			w.step(c19Action{"login", "alice", "right", 0}, 0, nil)
			for _, a := range prefix {
				w.step(a, 0, nil)
			}
			// probe: after the history, who gets assertions?
			for _, p := range []c19Action{{"sso", "spa", "live", 0}, {"sso", "spa2", "live", 1}, {"sso", "spc", "live", 1}, {"shortcut", "sc1", "live", 1}, {"sso", "spb", "none", 0}} {
				w.step(p, 0, nil)
			}
			finish(w, "exh")
			return
		}
		for _, a := range alphabet {
			rec(append(prefix, a))
		}
	}
	rec(nil)

	// (b) random histories
	n := c.Pick(700, 12000)
	var pool [][]c19Action
	for i := 0; i < n; i++ {
		if !mine() {
			continue
		}
		w := c19NewWorld(c)
		var acts []c19Action
		steps := 8 + c.Rng.Intn(c.Pick(22, 40))
		for s := 0; s < steps && !w.dead; s++ {
			a := c19RandomAction(c, w)
			acts = append(acts, a)
			w.step(a, 0, nil)
		}
		finish(w, "rnd")
		if !w.dead && len(pool) < c.Pick(12, 150) {
			pool = append(pool, acts)
		}
		if i%97 == 0 {
			c.Sample(map[string]any{"history": w.hist, "observations": w.obs[:min(len(w.obs), 12)]})
		}
	}

	// (c) restart insertion at every cut (S6) and (d) fault enumeration at every store operation
	for _, acts := range pool {
		base := c19NewWorld(c)
		for _, a := range acts {
			base.step(a, 0, nil)
		}
		if base.dead {
			continue
		}
		for cut := 0; cut <= len(acts); cut++ {
			w := c19NewWorld(c)
			for i, a := range acts {
				if i == cut {
					w.restart(true)
				}
				w.step(a, 0, nil)
			}
			if cut == len(acts) {
				w.restart(true)
			}
			if w.dead {
				break
			}
			c.Eval()
			c.Nontrivial(fmt.Sprintf("restart|%s|cut=%d", strings.Join(base.hist, ";"), cut))
			if !reflect.DeepEqual(w.obs, base.obs) {
				d := ""
				for i := range base.obs {
					if i >= len(w.obs) || w.obs[i] != base.obs[i] {
						d = fmt.Sprintf("observation %d: original %q, with restart before action %d: %q", i, base.obs[i], cut, safeIdx(w.obs, i))
						break
					}
				}
				c.Violation("C19/S6/restart-changes-history", "a server re-created over the same store does not continue the history like the original: "+d, map[string]any{"history": base.hist, "cut": cut})
				break
			}
			c.Count("restart_cuts_equivalent")
		}
		// faults: pick requests of the history; for each store op index of the fault-free run fail it in turn
		for target := 0; target < len(acts); target++ {
			if acts[target].kind == "clock" || acts[target].kind == "restart" || c.Rng.Intn(3) != 0 {
				continue
			}
			// count ops in fault-free run
			probe := c19NewWorld(c)
			for i := 0; i < target; i++ {
				probe.step(acts[i], 0, nil)
			}
			if probe.dead {
				break
			}
			snapStore, snapNow := probe.store.Snapshot(), probe.now
			before := len(probe.wrap.Ops)
			probe.step(acts[target], 0, nil)
			nops := len(probe.wrap.Ops) - before
			for op := 1; op <= nops; op++ {
				for _, fe := range []error{samlidp.ErrNotFound, sched.ErrIO} {
					w := c19NewWorld(c)
					for i := 0; i < target; i++ {
						w.step(acts[i], 0, nil)
					}
					if w.dead {
						break
					}
					_ = snapStore
					_ = snapNow
					w.step(acts[target], op, fe)
					c.Nontrivial(fmt.Sprintf("fault|%s|%d|%d|%v", strings.Join(w.hist, ";"), target, op, fe))
					c.Count("fault_placements")
					if !w.dead {
						// after the fault the server must keep serving, and what it serves must follow the store as it is now
						// (the store-based clauses S1-S4 stay in force after a fault, only the model predictions are off):
						// a fresh login, every SP, the shortcut, then the rest of the history
						for _, pa := range []c19Action{{"login", "alice", "right", 0}, {"sso", "spa", "live", 0}, {"sso", "spb", "live", 1}, {"sso", "spc", "live", 0}, {"shortcut", "sc1", "live", 0}} {
							if !w.dead {
								w.step(pa, 0, nil)
							}
						}
						for i := target + 1; i < len(acts) && !w.dead; i++ {
							w.step(acts[i], 0, nil)
						}
					}
				}
			}
		}
	}
}

func safeIdx(l []string, i int) string {
	if i < len(l) {
		return l[i]
	}
	return "<missing>"
}
