package props

import (
	"compress/gzip"
	"compress/zlib"
	"bytes"
	"context"
	"encoding/base64"
	"encoding/xml"
	"errors"
	"fmt"
	"net/http"
	"net/http/httptest"
	"net/url"
	"os"
	"path/filepath"
	"strings"
	"time"

	"github.com/beevik/etree"
	"github.com/crewjam/saml"
	"github.com/crewjam/saml/samlidp"
	"github.com/crewjam/saml/samlsp"

	"verif/internal/core"
	"verif/internal/fx"
	"verif/internal/mut"
	"verif/internal/refenc"
	"verif/internal/so"
)

// C09 — message-consuming APIs are total: a result or an error, never a panic or blow-up.

func init() {
	core.RegisterSpec(&core.Spec{
		ID:    "C09",
		Level: "exploration",
		Rule: "three generators over every message-consuming entry point (ParseXMLResponse, ParseResponse POST/SAMLart with scripted resolver, ParseXMLArtifactResponse, ValidateLogoutResponse{Request,Form,Redirect}, NewIdpAuthnRequest+Validate, ServeSSO, ServeIDPInitiated and MakeAssertion/WriteResponse over hostile registered metadata, xml.Unmarshal into EntityDescriptor/EntitiesDescriptor, samlsp.ParseMetadata/FetchMetadata, samlidp PUT /services): " +
			"(1) schema-valid messages with every subset (quick: size<=2 + sample; thorough: all) of optional elements/attributes removed and a valid IdP signature re-applied; (2) structure and byte mutations of those and of the repository fixtures, degenerate/rootless documents, base64 and deflate framings incl. inflate bombs around the 10 MB limit; (3) resolver/transport fault behaviours. " +
			"Oracle: no panic, CPU and allocation below blow-up thresholds, response-parsing errors are *InvalidResponseError with the constant message and assertion nil iff error. Non-trivial = the input was handed to the entry point and it returned (distinct by entry point + case descriptor).",
		Assumptions: []string{"invalid configuration (nil IDPMetadata, nil keys) is not an input", "blocking on a peer that never answers is the caller's context's business", "blow-up thresholds: 20 s CPU or 1.5 GiB allocated in one call (unchanged tree stays below 1/10 of that on the corpus)"},
		FloorQuick:  7000,
		FloorThor:   20000,
		Run:         runC09,
		Post: func(d *core.DriveState) {
			fuzzStage(d, []string{"FuzzSPResponse", "FuzzSPArtifactResponse", "FuzzSPLogoutResponse", "FuzzIdPRequest", "FuzzMetadata"}, 120000)
		},
		TimeoutQ:  15 * time.Minute,
		LevelText: "Validly signed messages with optional parts missing (unreachable for fuzzers without the IdP key), plus structure/byte mutants and framing attacks, are executed against every consuming entry point under a panic/CPU/allocation sentinel and an error-contract oracle. Held-on-observed; thorough adds far larger samples.",
		LevelNote: "recover() catches ordinary panics; fatal runtime errors and watchdog kills are attributed through the per-case journal. Thresholds separate bounded from unbounded behaviour only.",
		Technique: "runtime monitoring: panic/CPU/allocation sentinel and error-contract oracle over signed-subset and mutation generators",
		DesignRef: "DESIGN.md §5 C09",
	})
}

const (
	c09CPULimit   = 20 * time.Second
	c09AllocLimit = 1536 << 20
)

// c09Call runs one entry-point invocation under the sentinel.
func c09Call(c *core.Ctx, entry, desc string, input []byte, f func()) (ok bool) {
	c.Journal("C09 " + entry + " | " + desc + "\n" + base64.StdEncoding.EncodeToString(trunc(input, 64<<10)))
	c.Eval()
	p, v, frame, cpu, alloc := core.Measure(f)
	c.Nontrivial(entry + "|" + desc)
	c.Count("calls_" + entry)
	c.Max("max_cpu_ms_"+entry, cpu.Milliseconds())
	c.Max("max_alloc_mb_"+entry, int64(alloc>>20))
	replay := map[string]any{"entry": entry, "case": desc, "input_b64": base64.StdEncoding.EncodeToString(trunc(input, 256<<10)), "input_len": len(input)}
	if p {
		c.Violation("C09/panic/"+frame+"/"+panicClass(v), fmt.Sprintf("panic in %s: %v (%s)", entry, v, desc), replay)
		return false
	}
	if cpu > c09CPULimit {
		c.Violation("C09/cpu-blowup/"+entry, fmt.Sprintf("%s used %v CPU on %d input bytes (%s)", entry, cpu, len(input), desc), replay)
		return false
	}
	if alloc > c09AllocLimit {
		c.Violation("C09/alloc-blowup/"+entry, fmt.Sprintf("%s allocated %d MiB on %d input bytes (%s)", entry, alloc>>20, len(input), desc), replay)
		return false
	}
	return true
}

// contract checks the response-parsing error contract.
func c09Contract(c *core.Ctx, entry, desc string, input []byte, a *saml.Assertion, err error) {
	replay := map[string]any{"entry": entry, "case": desc, "input_b64": base64.StdEncoding.EncodeToString(trunc(input, 256<<10))}
	switch {
	case err == nil && a == nil:
		c.Violation("C09/contract/nil-nil/"+entry, "nil assertion and nil error ("+desc+")", replay)
	case err != nil && a != nil:
		c.Violation("C09/contract/both/"+entry, "assertion and error both non-nil ("+desc+")", replay)
	case err != nil:
		ire, ok := err.(*saml.InvalidResponseError)
		if !ok {
			c.Violation("C09/contract/error-type/"+entry, fmt.Sprintf("error is %T (%v), not *InvalidResponseError (%s)", err, err, desc), replay)
		} else if ire == nil {
			c.Violation("C09/contract/typed-nil/"+entry, "typed nil error", replay)
		} else if err.Error() != "Authentication failed" {
			c.Violation("C09/contract/message/"+entry, "Error() = "+err.Error(), replay)
		} else {
			c.Count("contract_error_ok")
			if ire.PrivateErr != nil {
				c.Observe("reject_stage_"+entry, stageOf(ire.PrivateErr.Error()))
			}
		}
	default:
		c.Count("contract_accepted")
	}
}

func stageOf(p string) string {
	switch {
	case strings.Contains(p, "invalid xml"), strings.Contains(p, "XML syntax"), strings.Contains(p, "unexpected EOF"):
		return "xml"
	case strings.Contains(p, "base64"):
		return "base64"
	case strings.Contains(p, "cannot validate signature"), strings.Contains(p, "ignature"):
		return "signature"
	case strings.Contains(p, "Destination"):
		return "destination"
	case strings.Contains(p, "InResponseTo"), strings.Contains(p, "request IDs"):
		return "request-id"
	case strings.Contains(p, "expired"), strings.Contains(p, "not yet valid"), strings.Contains(p, "IssueInstant"):
		return "time"
	case strings.Contains(p, "ssuer"):
		return "issuer"
	case strings.Contains(p, "Recipient"):
		return "recipient"
	case strings.Contains(p, "udience"):
		return "audience"
	case strings.Contains(p, "decrypt"):
		return "decrypt"
	case strings.Contains(p, "unmarshal"):
		return "unmarshal"
	case strings.Contains(p, "SOAP"), strings.Contains(p, "cannot find"), strings.Contains(p, "expected exactly one"), strings.Contains(p, "expected at most one"):
		return "structure"
	case strings.Contains(p, "resolve artifact"), strings.Contains(p, "artifact resolution"):
		return "resolver"
	}
	return "other"
}

// ---- generator 1: optional parts of Response + Assertion ----

type optPart struct {
	name string
	rm   func(resp, ass *etree.Element)
}

func rmEl(root *etree.Element, path string) {
	if root == nil {
		return
	}
	for _, e := range root.FindElements(path) {
		if e.Parent() != nil {
			e.Parent().RemoveChild(e)
		}
	}
}

func rmAttr(root *etree.Element, path, attr string) {
	if root == nil {
		return
	}
	if path == "." {
		root.RemoveAttr(attr)
		return
	}
	for _, e := range root.FindElements(path) {
		e.RemoveAttr(attr)
	}
}

var c09Parts = []optPart{
	{"Response@Destination", func(r, a *etree.Element) { rmAttr(r, ".", "Destination") }},
	{"Response@InResponseTo", func(r, a *etree.Element) { rmAttr(r, ".", "InResponseTo") }},
	{"Response@IssueInstant", func(r, a *etree.Element) { rmAttr(r, ".", "IssueInstant") }},
	{"Response/Issuer", func(r, a *etree.Element) { rmEl(r, "./Issuer") }},
	{"Response/Status", func(r, a *etree.Element) { rmEl(r, "./Status") }},
	{"Response/Status/StatusCode", func(r, a *etree.Element) { rmEl(r, "./Status/StatusCode") }},
	{"Assertion/Issuer", func(r, a *etree.Element) { rmEl(a, "./Issuer") }},
	{"Assertion@IssueInstant", func(r, a *etree.Element) { rmAttr(a, ".", "IssueInstant") }},
	{"Assertion/Subject", func(r, a *etree.Element) { rmEl(a, "./Subject") }},
	{"Subject/NameID", func(r, a *etree.Element) { rmEl(a, "./Subject/NameID") }},
	{"Subject/SubjectConfirmation", func(r, a *etree.Element) { rmEl(a, "./Subject/SubjectConfirmation") }},
	{"SubjectConfirmationData", func(r, a *etree.Element) { rmEl(a, "./Subject/SubjectConfirmation/SubjectConfirmationData") }},
	{"SubjectConfirmationData@attrs", func(r, a *etree.Element) {
		for _, at := range []string{"Recipient", "NotOnOrAfter", "InResponseTo", "Address"} {
			rmAttr(a, "./Subject/SubjectConfirmation/SubjectConfirmationData", at)
		}
	}},
	{"Conditions", func(r, a *etree.Element) { rmEl(a, "./Conditions") }},
	{"Conditions@attrs", func(r, a *etree.Element) {
		rmAttr(a, "./Conditions", "NotBefore")
		rmAttr(a, "./Conditions", "NotOnOrAfter")
	}},
	{"AudienceRestriction", func(r, a *etree.Element) { rmEl(a, "./Conditions/AudienceRestriction") }},
	{"Audience", func(r, a *etree.Element) { rmEl(a, "./Conditions/AudienceRestriction/Audience") }},
	{"AuthnStatement", func(r, a *etree.Element) { rmEl(a, "./AuthnStatement") }},
	{"AuthnContext", func(r, a *etree.Element) { rmEl(a, "./AuthnStatement/AuthnContext") }},
	{"AttributeStatement", func(r, a *etree.Element) { rmEl(a, "./AttributeStatement") }},
	{"AttributeValue", func(r, a *etree.Element) { rmEl(a, "./AttributeStatement/Attribute/AttributeValue") }},
}

// c09BuildResponse builds a signed response with the parts in mask removed. layout: 0 response signed, 1 assertion signed, 2 both.
func c09BuildResponse(o *so.Oracle, mask uint32, layout int, encrypted bool, keyInfo bool, nAssertions int) ([]byte, error) {
	s1 := fx.K("idp_s1")
	var children []*etree.Element
	r := so.ResponseEl(o.Response("req-1", fx.Now()))
	for i := 0; i < nAssertions; i++ {
		ael := o.Assertion(so.AssertionSpec{RequestID: "req-1"}).Element()
		for bit, p := range c09Parts {
			if mask&(1<<bit) != 0 {
				p.rm(nil, ael)
			}
		}
		var err error
		if layout >= 1 {
			if ael, err = o.Sign(ael, s1, ""); err != nil {
				return nil, err
			}
			if !keyInfo {
				rmEl(ael, "./Signature/KeyInfo")
			}
		}
		if encrypted {
			if ael, err = o.Encrypt(ael, fx.K("sp_rsa2048"), "", "", ""); err != nil {
				return nil, err
			}
		}
		children = append(children, ael)
	}
	for bit, p := range c09Parts {
		if mask&(1<<bit) != 0 {
			p.rm(r, nil)
		}
	}
	for _, ch := range children {
		r.AddChild(ch)
	}
	if layout != 1 {
		var err error
		if r, err = o.Sign(r, s1, ""); err != nil {
			return nil, err
		}
		if !keyInfo {
			rmEl(r, "./Signature/KeyInfo")
		}
	}
	return so.Bytes(r), nil
}

func maskDesc(mask uint32) string {
	var n []string
	for bit, p := range c09Parts {
		if mask&(1<<bit) != 0 {
			n = append(n, p.name)
		}
	}
	if len(n) == 0 {
		return "none"
	}
	return strings.Join(n, "+")
}

func runC09(c *core.Ctx) {
	so.Quiet()
	fx.SetNow(fx.Epoch)
	fx.ResetTolerances()
	o := so.New(c.Rng)
	sp := so.NewSP("meta-one-signing", fx.K("sp_rsa2048"))
	spIDP := so.NewSP("meta-one-signing", fx.K("sp_rsa2048"))
	spIDP.AllowIDPInitiated = true
	type namedSP struct {
		name string
		sp   *saml.ServiceProvider
	}
	var trustSPs []namedSP
	for _, t := range so.Trusts[1:] {
		trustSPs = append(trustSPs, namedSP{t.Name, so.NewSP(t.Name, fx.K("sp_rsa2048"))})
	}
	cur := mustURL(so.SPACS)
	idx := 0
	mine := func() bool { idx++; return c.Mine(idx) }

	deliver := func(entryMask int, desc string, raw []byte) {
		// entryMask bit0 xml, bit1 post, bit2 artifact-xml
		// one more SP per delivery, drawn from the other trust configurations (pinned certificate, fingerprints, two
		// roots, use omitted): they reach certificate handling code the metadata configuration never runs
		extra := trustSPs[c.Rng.Intn(len(trustSPs))]
		for _, s := range []*saml.ServiceProvider{sp, spIDP, extra.sp} {
			tag := ""
			if s == spIDP {
				if c.Rng.Intn(3) != 0 {
					continue
				}
				tag = "+idpinit"
			}
			if s == extra.sp {
				if c.Rng.Intn(2) != 0 {
					continue
				}
				tag = "+trust=" + extra.name
			}
			if entryMask&1 != 0 {
				var a *saml.Assertion
				var err error
				if c09Call(c, "ParseXMLResponse", desc+tag, raw, func() { a, err = s.ParseXMLResponse(raw, []string{"req-1"}, cur) }) {
					c09Contract(c, "ParseXMLResponse", desc+tag, raw, a, err)
				}
			}
			if entryMask&2 != 0 {
				var a *saml.Assertion
				var err error
				if c09Call(c, "ParseResponse-POST", desc+tag, raw, func() { a, err = so.DeliverPOST(s, raw, []string{"req-1"}, cur) }) {
					c09Contract(c, "ParseResponse-POST", desc+tag, raw, a, err)
				}
			}
			if entryMask&4 != 0 {
				inner, perr := so.Parse(raw)
				var soap []byte
				if perr == nil {
					ar := o.ArtifactResponseEl("art-1", fx.Now(), inner)
					if c.Rng.Intn(2) == 0 {
						if sar, err := o.Sign(ar, fx.K("idp_s1"), ""); err == nil {
							ar = sar
						}
					}
					soap = so.Bytes(so.SOAP(ar))
				} else {
					soap = append(append([]byte(`<soapenv:Envelope xmlns:soapenv="http://schemas.xmlsoap.org/soap/envelope/"><soapenv:Body><samlp:ArtifactResponse xmlns:samlp="urn:oasis:names:tc:SAML:2.0:protocol" ID="x" InResponseTo="art-1" Version="2.0" IssueInstant="2024-03-10T12:00:00Z"><samlp:Status><samlp:StatusCode Value="urn:oasis:names:tc:SAML:2.0:status:Success"/></samlp:Status>`), raw...), []byte(`</samlp:ArtifactResponse></soapenv:Body></soapenv:Envelope>`)...)
				}
				var a *saml.Assertion
				var err error
				if c09Call(c, "ParseXMLArtifactResponse", desc+tag, soap, func() { a, err = s.ParseXMLArtifactResponse(soap, []string{"req-1"}, "art-1", cur) }) {
					c09Contract(c, "ParseXMLArtifactResponse", desc+tag, soap, a, err)
				}
			}
		}
	}

	// ---- generator 1 ----
	nparts := len(c09Parts)
	var masks []uint32
	masks = append(masks, 0)
	for i := 0; i < nparts; i++ {
		masks = append(masks, 1<<i)
		for j := i + 1; j < nparts; j++ {
			masks = append(masks, 1<<i|1<<j)
		}
	}
	nrand := c.Pick(1500, 30000)
	for i := 0; i < nrand; i++ {
		masks = append(masks, uint32(c.Rng.Int63())&(1<<nparts-1))
	}
	var signedCorpus [][]byte
	for mi, mask := range masks {
		for layout := 0; layout < 3; layout++ {
			if mi > 300 && layout != mi%3 {
				continue
			}
			if !mine() {
				continue
			}
			enc := (mi+layout)%3 == 0
			keyInfo := (mi+layout)%5 != 0
			nA := 1
			if mi%7 == 0 {
				nA = 2
			}
			o.Reset()
			raw, err := c09BuildResponse(o, mask, layout, enc, keyInfo, nA)
			if err != nil {
				c.Inconclusive("build: " + err.Error())
				continue
			}
			desc := fmt.Sprintf("signed-subset -%s layout=%d enc=%v keyinfo=%v n=%d", maskDesc(mask), layout, enc, keyInfo, nA)
			deliver(1|2|4, desc, raw)
			if len(signedCorpus) < 400 {
				signedCorpus = append(signedCorpus, raw)
			}
			c.SampleSome(map[string]any{"entry": "ParseXMLResponse", "case": desc})
		}
	}

	// ---- generator 2: mutate, re-sign (validly signed but structurally odd) and mutate after signing ----
	nm := c.Pick(25000, 300000)
	fixtures := c09Fixtures()
	for i := 0; i < nm/c.NShards; i++ {
		o.Reset()
		var raw []byte
		var desc string
		switch i % 4 {
		case 0, 1: // mutate unsigned tree then sign
			r := so.ResponseEl(o.Response("req-1", fx.Now()))
			ael := o.Assertion(so.AssertionSpec{RequestID: "req-1"}).Element()
			target := ael
			var ops []string
			layout := c.Rng.Intn(3)
			if layout == 0 || c.Rng.Intn(2) == 0 {
				r.AddChild(ael)
				target = r
			}
			for k := 1 + c.Rng.Intn(3); k > 0; k-- {
				ops = append(ops, mut.Struct(c.Rng, target))
			}
			if target != r {
				if layout >= 1 {
					if s, err := o.Sign(ael, fx.K("idp_s1"), ""); err == nil {
						ael = s
					}
				}
				if c.Rng.Intn(3) == 0 {
					if e, err := o.Encrypt(ael, fx.K("sp_rsa2048"), "", "", ""); err == nil {
						ael = e
					}
				}
				r.AddChild(ael)
			}
			if layout != 1 || target == r {
				if s, err := o.Sign(r, fx.K("idp_s1"), ""); err == nil {
					r = s
				} else {
					ops = append(ops, "unsignable")
				}
			}
			raw = so.Bytes(r)
			desc = "mutate-then-sign " + strings.Join(ops, ";")
		case 2: // mutate a signed corpus member structurally
			if len(signedCorpus) == 0 {
				continue
			}
			b := signedCorpus[c.Rng.Intn(len(signedCorpus))]
			el, err := so.Parse(b)
			if err != nil {
				continue
			}
			var ops []string
			for k := 1 + c.Rng.Intn(2); k > 0; k-- {
				ops = append(ops, mut.Struct(c.Rng, el))
			}
			raw = so.Bytes(el)
			desc = "sign-then-mutate " + strings.Join(ops, ";")
		case 3: // byte-level mutation of corpus or fixture
			var b []byte
			src := "corpus"
			if c.Rng.Intn(2) == 0 && len(fixtures) > 0 {
				f := fixtures[c.Rng.Intn(len(fixtures))]
				b, src = f.data, f.name
			} else if len(signedCorpus) > 0 {
				b = signedCorpus[c.Rng.Intn(len(signedCorpus))]
			}
			var op string
			raw, op = mut.Bytes(c.Rng, b)
			desc = "bytes " + src + " " + op
		}
		deliver(1<<uint(c.Rng.Intn(3)), desc, raw)
	}
	for i, d := range mut.Degenerate {
		if mine() {
			deliver(1|2|4, fmt.Sprintf("degenerate#%d", i), d)
		}
	}
	// degenerate plaintexts encrypted to the SP certificate by "anyone" (inside unsigned and IdP-signed responses)
	for i, d := range mut.Degenerate {
		for _, signed := range []bool{false, true} {
			if !mine() {
				continue
			}
			o.Reset()
			ed, _, err := refenc.Encrypt(refenc.AES128CBC, refenc.OAEPMGF1P, refenc.DigestSHA1, fx.K("sp_rsa2048").Cert, nil, d, c.Rng, true)
			if err != nil {
				continue
			}
			ea := etree.NewElement("saml:EncryptedAssertion")
			ea.AddChild(ed)
			r := so.ResponseEl(o.Response("req-1", fx.Now()), ea)
			if signed {
				if s, err := o.Sign(r, fx.K("idp_s1"), ""); err == nil {
					r = s
				}
			}
			deliver(1|4, fmt.Sprintf("encrypted-degenerate#%d signed=%v", i, signed), so.Bytes(r))
		}
	}
	// ---- dictionary sweeps: every hostile string in the positions that certificate- and reference-handling code reads
	dict := mut.Dictionary()
	s1b64 := fx.K("idp_s1").CertB64()
	dict = append(dict, "-----BEGIN CERTIFICATE-----\n"+s1b64+"\n-----END CERTIFICATE-----", "-----BEGIN CERTIFICATE-----\n"+s1b64, s1b64+"\n-----END CERTIFICATE-----",
		"-----BEGIN CERTIFICATE-----"+s1b64[:40], s1b64[:len(s1b64)/2], s1b64+s1b64, fx.K("idp_ec").CertB64(), fx.K("att_x").CertB64())
	allSPs := append([]namedSP{{"meta-one-signing", sp}}, trustSPs...)
	deliverAll := func(desc string, raw []byte) {
		for _, ns := range allSPs {
			var a *saml.Assertion
			var err error
			d := desc + "+trust=" + ns.name
			if c09Call(c, "ParseXMLResponse", d, raw, func() { a, err = ns.sp.ParseXMLResponse(raw, []string{"req-1"}, cur) }) {
				c09Contract(c, "ParseXMLResponse", d, raw, a, err)
			}
		}
	}
	// (a) the certificate text inside the signature's KeyInfo, under every trust configuration (pinned and fingerprint
	// configurations parse it with their own code)
	for layout := 0; layout < 2; layout++ {
		o.Reset()
		base, err := c09BuildResponse(o, 0, layout, false, true, 1)
		if err != nil {
			continue
		}
		for di, d := range dict {
			if !mine() {
				continue
			}
			el, perr := so.Parse(base)
			if perr != nil {
				break
			}
			for _, x := range el.FindElements("//X509Certificate") {
				x.SetText(d)
			}
			deliverAll(fmt.Sprintf("dict-x509certificate layout=%d #%d %s", layout, di, truncate(d, 30)), so.Bytes(el))
		}
	}
	// (b) encrypted assertions in the layout some IdPs use: the EncryptedKey next to the EncryptedData, referenced from
	// its KeyInfo by a RetrievalMethod; identifiers and references from the dictionary
	for di, d := range dict {
		for variant := 0; variant < 5; variant++ {
			if !mine() {
				continue
			}
			o.Reset()
			base, err := c09BuildResponse(o, 0, 1, true, true, 1)
			if err != nil {
				continue
			}
			el, perr := so.Parse(base)
			if perr != nil {
				continue
			}
			ea := el.FindElement("./EncryptedAssertion")
			ek := el.FindElement("./EncryptedAssertion/EncryptedData/KeyInfo/EncryptedKey")
			ki := el.FindElement("./EncryptedAssertion/EncryptedData/KeyInfo")
			if ea == nil || ek == nil || ki == nil {
				c.Inconclusive("encrypted base has no EncryptedData/KeyInfo/EncryptedKey")
				break
			}
			ki.RemoveChild(ek)
			ek.CreateAttr("Id", d)
			rm := ki.CreateElement("ds:RetrievalMethod")
			rm.CreateAttr("Type", "http://www.w3.org/2001/04/xmlenc#EncryptedKey")
			switch variant {
			case 0:
				rm.CreateAttr("URI", "#"+d)
			case 1:
				rm.CreateAttr("URI", d)
			case 2:
				rm.CreateAttr("URI", "#"+d)
				other := ek.Copy() // a second key for another recipient, listed first
				other.CreateAttr("Id", "_other-recipient")
				if cv := other.FindElement("./CipherData/CipherValue"); cv != nil {
					cv.SetText("AAAA")
				}
				ea.AddChild(other)
			case 3:
				rm.CreateAttr("URI", "#_nothing-has-this-id")
			case 4:
				// no URI at all
			}
			ea.AddChild(ek)
			deliver(1, fmt.Sprintf("dict-retrievalmethod variant=%d #%d %s", variant, di, truncate(d, 30)), so.Bytes(el))
		}
	}
	// (b2) data cipher values of every length 0..4 blocks+1 (and a few around a KiB) behind a VALID EncryptedKey, so that the
	// block-cipher code is reached with its key: IV only, IV plus partial block, one block, ...
	{
		o.Reset()
		encBase, _ := c09BuildResponse(o, 0, 1, true, true, 1)
		lens := []int{1023, 1024, 1025}
		for n := 0; n <= 65; n++ {
			lens = append(lens, n)
		}
		for _, n := range lens {
			if !mine() || encBase == nil {
				continue
			}
			el, perr := so.Parse(encBase)
			if perr != nil {
				break
			}
			cv := el.FindElement("./EncryptedAssertion/EncryptedData/CipherData/CipherValue")
			if cv == nil {
				break
			}
			b := make([]byte, n)
			c.Rng.Read(b)
			cv.SetText(base64.StdEncoding.EncodeToString(b))
			deliver(1, fmt.Sprintf("cipher-value-length %d behind a valid EncryptedKey", n), so.Bytes(el))
		}
	}
	// (c) every algorithm identifier of the dictionary in every position of a response that names an algorithm
	{
		o.Reset()
		encBase, _ := c09BuildResponse(o, 0, 1, true, true, 1)
		o.Reset()
		sigBase, _ := c09BuildResponse(o, 0, 2, false, true, 1)
		type pos struct {
			base []byte
			path string
		}
		poss := []pos{
			{encBase, "./EncryptedAssertion/EncryptedData/EncryptionMethod"},
			{encBase, "./EncryptedAssertion/EncryptedData/KeyInfo/EncryptedKey/EncryptionMethod"},
			{encBase, "./EncryptedAssertion/EncryptedData/KeyInfo/EncryptedKey/EncryptionMethod/DigestMethod"},
			{sigBase, "./Signature/SignedInfo/SignatureMethod"},
			{sigBase, "./Signature/SignedInfo/CanonicalizationMethod"},
			{sigBase, "./Signature/SignedInfo/Reference/DigestMethod"},
			{sigBase, "./Signature/SignedInfo/Reference/Transforms/Transform"},
			{sigBase, "./Assertion/Signature/SignedInfo/SignatureMethod"},
			{sigBase, "./Assertion/Signature/SignedInfo/Reference/DigestMethod"},
		}
		for pi, ps := range poss {
			for ui, uri := range algURIs {
				if !mine() || ps.base == nil {
					continue
				}
				el, perr := so.Parse(ps.base)
				if perr != nil {
					continue
				}
				t := el.FindElement(ps.path)
				if t == nil {
					c.Count("algorithm_dictionary_position_missing")
					continue
				}
				t.CreateAttr("Algorithm", uri)
				deliver(1|4, fmt.Sprintf("dict-algorithm pos=%d %s #%d %q", pi, ps.path[strings.LastIndex(ps.path, "/")+1:], ui, uri), so.Bytes(el))
			}
		}
	}
	// base64 framings on the POST entry point
	if len(signedCorpus) > 0 {
		good := signedCorpus[0]
		b64 := base64.StdEncoding.EncodeToString(good)
		framings := map[string]string{
			"std": b64, "nopad": strings.TrimRight(b64, "="), "url-alphabet": base64.URLEncoding.EncodeToString(good), "linebreaks": wrap76(b64), "leading-space": " " + b64, "garbage": "!!!" + b64,
			"double": base64.StdEncoding.EncodeToString([]byte(b64)), "empty": "", "padding-only": "====", "plus-as-space": strings.ReplaceAll(b64, "+", " "),
		}
		for name, f := range framings {
			if !mine() {
				continue
			}
			var a *saml.Assertion
			var err error
			req := so.PostRequest(cur, url.Values{"SAMLResponse": {f}})
			if c09Call(c, "ParseResponse-POST", "base64-framing "+name, []byte(f), func() { a, err = sp.ParseResponse(req, []string{"req-1"}) }) {
				c09Contract(c, "ParseResponse-POST", "base64-framing "+name, []byte(f), a, err)
			}
		}
	}

	c09Resolver(c, o, sp, signedCorpus)
	c09Logout(c, o, mine)
	c09IdP(c, o, mine)
	c09Meta(c, mine)
}

func wrap76(s string) string {
	var b strings.Builder
	for len(s) > 76 {
		b.WriteString(s[:76] + "\r\n")
		s = s[76:]
	}
	b.WriteString(s)
	return b.String()
}

type fixture struct {
	name string
	data []byte
}

func c09Fixtures() []fixture {
	var out []fixture
	for _, pat := range []string{"/repo/testdata/*response*", "/repo/testdata/*Response*", "/repo/testdata/*_request*", "/repo/testdata/*metadata*", "/repo/samlsp/testdata/*.xml", "/repo/samlidp/testdata/*.xml"} {
		files, _ := filepath.Glob(pat)
		for _, f := range files {
			b, err := os.ReadFile(f)
			if err != nil || len(b) == 0 {
				continue
			}
			if !bytes.Contains(b[:min(len(b), 200)], []byte("<")) { // base64 fixtures
				if d, err := base64.StdEncoding.DecodeString(strings.TrimSpace(string(b))); err == nil {
					b = d
				}
			}
			out = append(out, fixture{filepath.Base(f), b})
		}
	}
	return out
}

// ---- artifact resolver behaviours ----

func c09Resolver(c *core.Ctx, o *so.Oracle, sp *saml.ServiceProvider, corpus [][]byte) {
	if c.Shard != 0 && c.Quick() {
		// cheap: run on every shard in thorough, on shard 0..3 in quick
		if c.Shard > 3 {
			return
		}
	}
	cur := mustURL(so.SPACS)
	good := func(id string) []byte {
		o.Reset()
		raw, _ := c09BuildResponse(o, 0, 0, false, true, 1)
		inner, _ := so.Parse(raw)
		return so.Bytes(so.SOAP(o.ArtifactResponseEl(id, fx.Now(), inner)))
	}
	type beh struct {
		name string
		f    func(id string, r *http.Request, body []byte) (*http.Response, error)
	}
	behs := []beh{
		{"good", func(id string, _ *http.Request, _ []byte) (*http.Response, error) { return so.OK200(good(id)) }},
		{"dial-error", func(string, *http.Request, []byte) (*http.Response, error) {
			return nil, errors.New("dial tcp: connection refused")
		}},
		{"context-canceled", func(string, *http.Request, []byte) (*http.Response, error) { return nil, context.Canceled }},
		{"empty-200", func(string, *http.Request, []byte) (*http.Response, error) { return so.OK200(nil) }},
		{"garbage-200", func(string, *http.Request, []byte) (*http.Response, error) {
			return so.OK200([]byte("\x00\x01garbage<<<"))
		}},
		{"html-200", func(string, *http.Request, []byte) (*http.Response, error) {
			return so.OK200([]byte("<html><body>error</body></html>"))
		}},
		{"truncated", func(id string, _ *http.Request, _ []byte) (*http.Response, error) {
			g := good(id)
			return so.OK200(g[:len(g)/2])
		}},
		{"body-read-error", func(id string, _ *http.Request, _ []byte) (*http.Response, error) {
			g := good(id)
			return so.HTTPResponse(200, &so.ErrReader{Data: g, N: len(g) / 3}), nil
		}},
		{"soap-fault", func(string, *http.Request, []byte) (*http.Response, error) {
			return so.OK200([]byte(`<soapenv:Envelope xmlns:soapenv="http://schemas.xmlsoap.org/soap/envelope/"><soapenv:Body><soapenv:Fault><faultcode>soapenv:Server</faultcode><faultstring>x</faultstring></soapenv:Fault></soapenv:Body></soapenv:Envelope>`))
		}},
		{"wrong-envelope-ns", func(id string, _ *http.Request, _ []byte) (*http.Response, error) {
			return so.OK200(bytes.ReplaceAll(good(id), []byte("http://schemas.xmlsoap.org/soap/envelope/"), []byte("http://www.w3.org/2003/05/soap-envelope")))
		}},
		{"no-body", func(string, *http.Request, []byte) (*http.Response, error) {
			return so.OK200([]byte(`<soapenv:Envelope xmlns:soapenv="http://schemas.xmlsoap.org/soap/envelope/"/>`))
		}},
		{"empty-body", func(string, *http.Request, []byte) (*http.Response, error) {
			return so.OK200([]byte(`<soapenv:Envelope xmlns:soapenv="http://schemas.xmlsoap.org/soap/envelope/"><soapenv:Body/></soapenv:Envelope>`))
		}},
		{"two-bodies", func(id string, _ *http.Request, _ []byte) (*http.Response, error) {
			g := good(id)
			el, _ := so.Parse(g)
			el.AddChild(el.FindElement("./Body").Copy())
			return so.OK200(so.Bytes(el))
		}},
		{"two-artifact-responses", func(id string, _ *http.Request, _ []byte) (*http.Response, error) {
			el, _ := so.Parse(good(id))
			b := el.FindElement("./Body")
			b.AddChild(b.ChildElements()[0].Copy())
			return so.OK200(so.Bytes(el))
		}},
		{"artifact-response-without-response", func(id string, _ *http.Request, _ []byte) (*http.Response, error) {
			return so.OK200(so.Bytes(so.SOAP(o.ArtifactResponseEl(id, fx.Now(), nil))))
		}},
		{"two-responses", func(id string, _ *http.Request, _ []byte) (*http.Response, error) {
			el, _ := so.Parse(good(id))
			ar := el.FindElement("./Body/ArtifactResponse")
			ar.AddChild(ar.FindElement("./Response").Copy())
			return so.OK200(so.Bytes(el))
		}},
		{"response-directly-in-body", func(id string, _ *http.Request, _ []byte) (*http.Response, error) {
			el, _ := so.Parse(good(id))
			return so.OK200(so.Bytes(so.SOAP(el.FindElement("./Body/ArtifactResponse/Response").Copy())))
		}},
	}
	// well-formed answers that fail one semantic check each: every refusal path of the artifact code must keep the error contract
	type tweak struct {
		name string
		f    func(ar *etree.Element)
	}
	tweaks := []tweak{
		{"status-requester", func(ar *etree.Element) {
			ar.FindElement("./Status/StatusCode").CreateAttr("Value", saml.StatusRequester)
		}},
		{"status-responder-no-response", func(ar *etree.Element) {
			ar.FindElement("./Status/StatusCode").CreateAttr("Value", saml.StatusResponder)
			ar.RemoveChild(ar.FindElement("./Response"))
		}},
		{"status-unknown-value", func(ar *etree.Element) {
			ar.FindElement("./Status/StatusCode").CreateAttr("Value", "urn:x:<b>status</b>")
		}},
		{"status-empty", func(ar *etree.Element) { ar.FindElement("./Status/StatusCode").CreateAttr("Value", "") }},
		{"no-status", func(ar *etree.Element) { ar.RemoveChild(ar.FindElement("./Status")) }},
		{"wrong-inresponseto", func(ar *etree.Element) { ar.CreateAttr("InResponseTo", "id-some-other-resolve") }},
		{"no-inresponseto", func(ar *etree.Element) { ar.RemoveAttr("InResponseTo") }},
		{"stale-issueinstant", func(ar *etree.Element) { ar.CreateAttr("IssueInstant", "2001-01-01T00:00:00Z") }},
		{"bad-issueinstant", func(ar *etree.Element) { ar.CreateAttr("IssueInstant", "yesterday") }},
		{"wrong-issuer", func(ar *etree.Element) { ar.FindElement("./Issuer").SetText("https://other-idp.example/metadata") }},
		{"wrong-version", func(ar *etree.Element) { ar.CreateAttr("Version", "1.1") }},
		{"inner-status-authnfailed", func(ar *etree.Element) {
			ar.FindElement("./Response/Status/StatusCode").CreateAttr("Value", saml.StatusAuthnFailed)
		}},
		{"inner-wrong-issuer", func(ar *etree.Element) {
			ar.FindElement("./Response/Issuer").SetText("https://other-idp.example/metadata")
		}},
		{"inner-stale-issueinstant", func(ar *etree.Element) {
			ar.FindElement("./Response").CreateAttr("IssueInstant", "2001-01-01T00:00:00Z")
		}},
		{"inner-wrong-inresponseto", func(ar *etree.Element) { ar.FindElement("./Response").CreateAttr("InResponseTo", "id-unknown") }},
		{"inner-wrong-destination", func(ar *etree.Element) {
			ar.FindElement("./Response").CreateAttr("Destination", "https://elsewhere.example/acs")
		}},
		{"inner-no-assertion", func(ar *etree.Element) {
			r := ar.FindElement("./Response")
			for _, a := range r.FindElements("./Assertion") {
				r.RemoveChild(a)
			}
		}},
	}
	for _, tw := range tweaks {
		tw := tw
		behs = append(behs, beh{"well-formed/" + tw.name, func(id string, _ *http.Request, _ []byte) (*http.Response, error) {
			el, _ := so.Parse(good(id))
			ar := el.FindElement("./Body/ArtifactResponse")
			if p, _, _, _ := core.Guard(func() { tw.f(ar) }); p {
				return so.OK200(good(id))
			}
			return so.OK200(so.Bytes(el))
		}})
	}
	// declared lengths that do not match what is sent
	for _, cl := range []int64{1 << 62, 768 << 20, -1, -5, 0, 3, 1 << 31} {
		cl := cl
		behs = append(behs, beh{fmt.Sprintf("content-length-%d-good-body", cl), func(id string, _ *http.Request, _ []byte) (*http.Response, error) {
			r := so.HTTPResponse(200, bytes.NewReader(good(id)))
			r.ContentLength = cl
			r.Header.Set("Content-Length", fmt.Sprint(cl))
			return r, nil
		}}, beh{fmt.Sprintf("content-length-%d-short-body", cl), func(id string, _ *http.Request, _ []byte) (*http.Response, error) {
			r := so.HTTPResponse(200, &so.ErrReader{Data: []byte("<soapenv:Envelo"), N: 14})
			r.ContentLength = cl
			return r, nil
		}})
	}
	for _, st := range []int{204, 301, 302, 400, 403, 404, 500, 503} {
		st := st
		behs = append(behs, beh{fmt.Sprintf("status-%d", st), func(id string, _ *http.Request, _ []byte) (*http.Response, error) {
			return so.HTTPResponse(st, bytes.NewReader(good(id))), nil
		}})
	}
	for _, b := range behs {
		var a *saml.Assertion
		var err error
		desc := "resolver " + b.name
		if c09Call(c, "ParseResponse-SAMLart", desc, nil, func() { a, err = so.DeliverArtifactHTTP(sp, []string{"req-1"}, cur, b.f) }) {
			c09Contract(c, "ParseResponse-SAMLart", desc, nil, a, err)
			c.Observe("resolver_behaviours", b.name)
			if b.name == "good" && err != nil {
				c.Inconclusive("resolver positive control rejected: " + err.(*saml.InvalidResponseError).PrivateErr.Error())
			}
			if b.name != "good" && !strings.Contains(b.name, "wrong-version") && !strings.Contains(b.name, "good-body") && err == nil { // the Version of the envelope is not something C09 (or the SP) judges
				c.Violation("C09/resolver-fault-accepted/"+b.name, "assertion returned although artifact resolution "+b.name, nil)
			}
		}
		c.Observe("resolver_behaviours", b.name)
	}
	// what the IdP metadata says about artifact resolution: no endpoint, none for SOAP, unusable locations, several
	arsShapes := []struct {
		name string
		set  func(md *saml.EntityDescriptor)
	}{
		{"no-endpoint", func(md *saml.EntityDescriptor) { md.IDPSSODescriptors[0].ArtifactResolutionServices = nil }},
		{"empty-endpoint-list", func(md *saml.EntityDescriptor) { md.IDPSSODescriptors[0].ArtifactResolutionServices = []saml.Endpoint{} }},
		{"no-soap-endpoint", func(md *saml.EntityDescriptor) {
			md.IDPSSODescriptors[0].ArtifactResolutionServices = []saml.Endpoint{{Binding: saml.HTTPPostBinding, Location: so.IDPArt}}
		}},
		{"no-idp-descriptor", func(md *saml.EntityDescriptor) { md.IDPSSODescriptors = nil }},
		{"empty-location", func(md *saml.EntityDescriptor) {
			md.IDPSSODescriptors[0].ArtifactResolutionServices = []saml.Endpoint{{Binding: saml.SOAPBinding, Location: ""}}
		}},
		{"unparseable-location", func(md *saml.EntityDescriptor) {
			md.IDPSSODescriptors[0].ArtifactResolutionServices = []saml.Endpoint{{Binding: saml.SOAPBinding, Location: "://%zz"}}
		}},
		{"two-soap-endpoints", func(md *saml.EntityDescriptor) {
			md.IDPSSODescriptors[0].ArtifactResolutionServices = []saml.Endpoint{{Binding: saml.SOAPBinding, Location: so.IDPArt}, {Binding: saml.SOAPBinding, Location: so.IDPArt + "2"}}
		}},
	}
	for _, sh := range arsShapes {
		sp2 := so.NewSP("meta-one-signing", fx.K("sp_rsa2048"))
		sh.set(sp2.IDPMetadata)
		for _, bn := range []string{"good", "connection-error"} {
			var a *saml.Assertion
			var err error
			desc := "artifact-resolution-metadata " + sh.name + " resolver " + bn
			f := func(id string, _ *http.Request, _ []byte) (*http.Response, error) { return so.OK200(good(id)) }
			if bn != "good" {
				f = func(string, *http.Request, []byte) (*http.Response, error) { return nil, errors.New("connection refused") }
			}
			if c09Call(c, "ParseResponse-SAMLart", desc, nil, func() { a, err = so.DeliverArtifactHTTP(sp2, []string{"req-1"}, cur, f) }) {
				c09Contract(c, "ParseResponse-SAMLart", desc, nil, a, err)
				c.Observe("artifact_resolution_metadata_shapes", sh.name)
			}
		}
	}
}

// ---- logout responses ----

func c09LogoutResponse(o *so.Oracle) *saml.LogoutResponse {
	return &saml.LogoutResponse{ID: o.NextID("id-lr"), InResponseTo: "id-logout-req", Version: "2.0", IssueInstant: time.Now().UTC(), Destination: so.SPSLO,
		Issuer: &saml.Issuer{Format: "urn:oasis:names:tc:SAML:2.0:nameid-format:entity", Value: so.IDPEntity}, Status: saml.Status{StatusCode: saml.StatusCode{Value: saml.StatusSuccess}}}
}

var c09LogoutParts = []struct {
	name string
	rm   func(e *etree.Element)
}{
	{"@Destination", func(e *etree.Element) { e.RemoveAttr("Destination") }},
	{"@InResponseTo", func(e *etree.Element) { e.RemoveAttr("InResponseTo") }},
	{"@IssueInstant", func(e *etree.Element) { e.RemoveAttr("IssueInstant") }},
	{"@ID", func(e *etree.Element) { e.RemoveAttr("ID") }},
	{"@Version", func(e *etree.Element) { e.RemoveAttr("Version") }},
	{"Issuer", func(e *etree.Element) { rmEl(e, "./Issuer") }},
	{"Status", func(e *etree.Element) { rmEl(e, "./Status") }},
	{"StatusCode", func(e *etree.Element) { rmEl(e, "./Status/StatusCode") }},
}

func c09Logout(c *core.Ctx, o *so.Oracle, mine func() bool) {
	sp := so.NewSP("meta-one-signing", fx.K("sp_rsa2048"))
	call := func(desc string, raw []byte) {
		b64 := base64.StdEncoding.EncodeToString(raw)
		defl := base64.StdEncoding.EncodeToString(so.Deflate(raw))
		var err error
		c09Call(c, "ValidateLogoutResponseForm", desc, raw, func() { err = sp.ValidateLogoutResponseForm(b64) })
		c09Call(c, "ValidateLogoutResponseRedirect", desc, raw, func() { err = sp.ValidateLogoutResponseRedirect(defl) })
		if c.Rng.Intn(3) == 0 {
			r1 := httptest.NewRequest("GET", so.SPSLO+"?SAMLResponse="+url.QueryEscape(defl), nil)
			c09Call(c, "ValidateLogoutResponseRequest-GET", desc, raw, func() { err = sp.ValidateLogoutResponseRequest(r1) })
			r2 := httptest.NewRequest("POST", so.SPSLO, strings.NewReader(url.Values{"SAMLResponse": {b64}}.Encode()))
			r2.Header.Set("Content-Type", "application/x-www-form-urlencoded")
			c09Call(c, "ValidateLogoutResponseRequest-POST", desc, raw, func() { err = sp.ValidateLogoutResponseRequest(r2) })
		}
		_ = err
	}
	// signed subsets
	for mask := 0; mask < 1<<len(c09LogoutParts); mask++ {
		for signed := 0; signed < 2; signed++ {
			if !mine() {
				continue
			}
			el := c09LogoutResponse(o).Element()
			var names []string
			for bit, p := range c09LogoutParts {
				if mask&(1<<bit) != 0 {
					p.rm(el)
					names = append(names, p.name)
				}
			}
			if signed == 1 {
				if s, err := o.Sign(el, fx.K("idp_s1"), ""); err == nil {
					el = s
				}
			}
			call(fmt.Sprintf("logout-subset -[%s] signed=%d", strings.Join(names, ","), signed), so.Bytes(el))
		}
	}
	for i, d := range mut.Degenerate {
		if mine() {
			call(fmt.Sprintf("logout-degenerate#%d", i), d)
		}
	}
	n := c.Pick(3000, 50000)
	for i := 0; i < n/c.NShards; i++ {
		el := c09LogoutResponse(o).Element()
		var ops []string
		pre := c.Rng.Intn(2) == 0
		if pre {
			ops = append(ops, "pre:"+mut.Struct(c.Rng, el))
		}
		if s, err := o.Sign(el, fx.K("idp_s1"), ""); err == nil {
			el = s
		}
		if !pre || c.Rng.Intn(3) == 0 {
			ops = append(ops, "post:"+mut.Struct(c.Rng, el))
		}
		raw := so.Bytes(el)
		if c.Rng.Intn(4) == 0 {
			var op string
			raw, op = mut.Bytes(c.Rng, raw)
			ops = append(ops, op)
		}
		call("logout-mutant "+strings.Join(ops, ";"), raw)
	}
	// framings on the redirect path: not deflated, zlib header, gzip header, truncated stream, bombs
	good := so.Bytes(c09LogoutResponse(o).Element())
	framings := map[string][]byte{
		"not-deflated": good, "zlib-header": append([]byte{0x78, 0x9c}, so.Deflate(good)...), "gzip-header": append([]byte{0x1f, 0x8b, 8, 0, 0, 0, 0, 0, 0, 3}, so.Deflate(good)...),
		"truncated-stream": so.Deflate(good)[:len(so.Deflate(good))/2], "empty": nil, "stored-block": storedBlock(good),
	}
	for name, f := range framings {
		if !mine() {
			continue
		}
		s := base64.StdEncoding.EncodeToString(f)
		c09Call(c, "ValidateLogoutResponseRedirect", "framing "+name, f, func() { _ = sp.ValidateLogoutResponseRedirect(s) })
	}
	for _, size := range c09BombSizes(c) {
		if !mine() {
			continue
		}
		bomb := so.Deflate(make([]byte, size))
		s := base64.StdEncoding.EncodeToString(bomb)
		var err error
		ok := c09Call(c, "ValidateLogoutResponseRedirect", fmt.Sprintf("inflate-bomb %d bytes of zeros", size), bomb, func() { err = sp.ValidateLogoutResponseRedirect(s) })
		if ok && err == nil {
			c.Violation("C09/bomb-accepted/logout", fmt.Sprintf("bomb of %d bytes reported valid", size), nil)
		}
		if ok && size > 10<<20 && err != nil && !strings.Contains(fmt.Sprint(err, errPrivate(err)), "uncompress limit") {
			c.Violation("C09/inflate-limit/logout-redirect", fmt.Sprintf("input inflating to %d bytes (>10MB) was not refused by the inflate limit: %v / %v", size, err, errPrivate(err)), nil)
		}
	}
	// the same bombs inside the containers other toolkits put around DEFLATE (RFC 1950 zlib, RFC 1952 gzip): whether
	// or not the container is understood, nothing beyond the limit may be inflated
	for name, bomb := range c09FramedBombs(c) {
		if !mine() {
			continue
		}
		s := base64.StdEncoding.EncodeToString(bomb)
		var err error
		a0 := core.HeapAllocs()
		ok := c09Call(c, "ValidateLogoutResponseRedirect", "inflate-bomb in "+name, bomb, func() { err = sp.ValidateLogoutResponseRedirect(s) })
		alloc := core.HeapAllocs() - a0
		if ok && err == nil {
			c.Violation("C09/bomb-accepted/logout", "bomb in "+name+" reported valid", nil)
		}
		if ok && alloc > c09FramedBombAlloc {
			c.Violation("C09/inflate-limit/logout-redirect/framed", fmt.Sprintf("%s: %d MiB allocated for %d input bytes: inflated beyond the 10 MB limit", name, alloc>>20, len(bomb)), nil)
		}
	}
}

// c09FramedBombAlloc: reading at most 10 MB through a growing buffer allocates a few tens of MiB in total.
const c09FramedBombAlloc = 192 << 20

func c09FramedBombs(c *core.Ctx) map[string][]byte {
	size := 100 << 20
	out := map[string][]byte{}
	var zb, gb bytes.Buffer
	zw := zlib.NewWriter(&zb)
	gw := gzip.NewWriter(&gb)
	chunk := make([]byte, 1<<20)
	for i := 0; i < size>>20; i++ {
		_, _ = zw.Write(chunk)
		_, _ = gw.Write(chunk)
	}
	_ = zw.Close()
	_ = gw.Close()
	out[fmt.Sprintf("zlib container (%d MiB of zeros)", size>>20)] = zb.Bytes()
	out[fmt.Sprintf("gzip container (%d MiB of zeros)", size>>20)] = gb.Bytes()
	return out
}

func errPrivate(err error) string {
	if ire, ok := err.(*saml.InvalidResponseError); ok && ire != nil && ire.PrivateErr != nil {
		return ire.PrivateErr.Error()
	}
	return ""
}

func storedBlock(b []byte) []byte {
	if len(b) > 65535 {
		b = b[:65535]
	}
	n := len(b)
	return append([]byte{1, byte(n), byte(n >> 8), byte(^n), byte(^n >> 8)}, b...)
}

func c09BombSizes(c *core.Ctx) []int {
	s := []int{10<<20 - 64<<10, 10<<20 + 64<<10, 100 << 20}
	if c.Thorough() || c.Shard == 0 {
		s = append(s, 1<<30)
	}
	return s
}

// ---- IdP side ----

var c09ReqParts = []struct {
	name string
	rm   func(e *etree.Element)
}{
	{"@ID", func(e *etree.Element) { e.RemoveAttr("ID") }},
	{"@Version", func(e *etree.Element) { e.RemoveAttr("Version") }},
	{"@IssueInstant", func(e *etree.Element) { e.RemoveAttr("IssueInstant") }},
	{"@Destination", func(e *etree.Element) { e.RemoveAttr("Destination") }},
	{"@AssertionConsumerServiceURL", func(e *etree.Element) { e.RemoveAttr("AssertionConsumerServiceURL") }},
	{"@ProtocolBinding", func(e *etree.Element) { e.RemoveAttr("ProtocolBinding") }},
	{"Issuer", func(e *etree.Element) { rmEl(e, "./Issuer") }},
	{"NameIDPolicy", func(e *etree.Element) { rmEl(e, "./NameIDPolicy") }},
}

func c09AuthnRequest(o *so.Oracle) *etree.Element {
	f := string(saml.TransientNameIDFormat)
	t := true
	r := saml.AuthnRequest{ID: o.NextID("id-req"), Version: "2.0", IssueInstant: fx.Now(), Destination: so.IDPSSO, AssertionConsumerServiceURL: so.SPACS, ProtocolBinding: saml.HTTPPostBinding,
		Issuer: &saml.Issuer{Format: "urn:oasis:names:tc:SAML:2.0:nameid-format:entity", Value: so.SPMeta}, NameIDPolicy: &saml.NameIDPolicy{Format: &f, AllowCreate: &t}}
	return r.Element()
}

func c09SPMetadata() *saml.EntityDescriptor {
	sp := saml.ServiceProvider{Key: fx.K("sp_rsa2048").Key, Certificate: fx.K("sp_rsa2048").Cert, MetadataURL: mustURL(so.SPMeta), AcsURL: mustURL(so.SPACS), SloURL: mustURL(so.SPSLO)}
	md := sp.Metadata()
	// through text, as a registry would hold it
	b, _ := xml.Marshal(md)
	var back saml.EntityDescriptor
	_ = xml.Unmarshal(b, &back)
	return &back
}

func c09IdP(c *core.Ctx, o *so.Oracle, mine func() bool) {
	w := so.NewIDPWorld()
	w.Registry[so.SPMeta] = c09SPMetadata()
	serve := func(desc string, reqXML []byte, post bool) {
		var r *http.Request
		if post {
			r = so.SSORequestPOST(so.IDPSSO, reqXML, "rs")
		} else {
			r = so.SSORequestGET(so.IDPSSO, reqXML, "rs")
		}
		rec := httptest.NewRecorder()
		entry := "ServeSSO-GET"
		if post {
			entry = "ServeSSO-POST"
		}
		if c09Call(c, entry, desc, reqXML, func() { w.IDP.ServeSSO(rec, r) }) {
			c.Observe("sso_statuses", fmt.Sprint(rec.Code))
		}
		// the two-step API
		var r2 *http.Request
		if post {
			r2 = so.SSORequestPOST(so.IDPSSO, reqXML, "rs")
		} else {
			r2 = so.SSORequestGET(so.IDPSSO, reqXML, "rs")
		}
		c09Call(c, "NewIdpAuthnRequest+Validate", desc, reqXML, func() {
			req, err := saml.NewIdpAuthnRequest(w.IDP, r2)
			if err == nil {
				_ = req.Validate()
			}
		})
	}
	// every subset of optional request parts
	for mask := 0; mask < 1<<len(c09ReqParts); mask++ {
		for _, post := range []bool{false, true} {
			if !mine() {
				continue
			}
			el := c09AuthnRequest(o)
			var names []string
			for bit, p := range c09ReqParts {
				if mask&(1<<bit) != 0 {
					p.rm(el)
					names = append(names, p.name)
				}
			}
			serve(fmt.Sprintf("request-subset -[%s] post=%v", strings.Join(names, ","), post), so.Bytes(el), post)
		}
	}
	for i, d := range mut.Degenerate {
		if mine() {
			serve(fmt.Sprintf("request-degenerate#%d", i), d, i%2 == 0)
		}
	}
	n := c.Pick(6000, 75000)
	for i := 0; i < n/c.NShards; i++ {
		el := c09AuthnRequest(o)
		var ops []string
		for k := 1 + c.Rng.Intn(3); k > 0; k-- {
			ops = append(ops, mut.Struct(c.Rng, el))
		}
		raw := so.Bytes(el)
		if c.Rng.Intn(4) == 0 {
			var op string
			raw, op = mut.Bytes(c.Rng, raw)
			ops = append(ops, op)
		}
		serve("request-mutant "+strings.Join(ops, ";"), raw, c.Rng.Intn(2) == 0)
	}
	// raw framings of the GET parameter
	goodReq := so.Bytes(c09AuthnRequest(o))
	for name, v := range map[string]string{"not-base64": "%%%", "not-deflated": base64.StdEncoding.EncodeToString(goodReq), "empty": "", "truncated": base64.StdEncoding.EncodeToString(so.Deflate(goodReq)[:20]),
		"zlib": base64.StdEncoding.EncodeToString(append([]byte{0x78, 0x9c}, so.Deflate(goodReq)...)), "urlsafe": base64.URLEncoding.EncodeToString(so.Deflate(goodReq))} {
		if !mine() {
			continue
		}
		r := httptest.NewRequest("GET", so.IDPSSO+"?SAMLRequest="+url.QueryEscape(v), nil)
		rec := httptest.NewRecorder()
		c09Call(c, "ServeSSO-GET", "framing "+name, []byte(v), func() { w.IDP.ServeSSO(rec, r) })
	}
	for _, m := range []string{"PUT", "DELETE", "HEAD", "OPTIONS"} {
		if !mine() {
			continue
		}
		r := httptest.NewRequest(m, so.IDPSSO, nil)
		rec := httptest.NewRecorder()
		c09Call(c, "ServeSSO-GET", "method "+m, nil, func() { w.IDP.ServeSSO(rec, r) })
	}
	for _, size := range c09BombSizes(c) {
		if !mine() {
			continue
		}
		bomb := so.Deflate(make([]byte, size))
		r := httptest.NewRequest("GET", so.IDPSSO+"?SAMLRequest="+url.QueryEscape(base64.StdEncoding.EncodeToString(bomb)), nil)
		var req *saml.IdpAuthnRequest
		var err error
		ok := c09Call(c, "NewIdpAuthnRequest", fmt.Sprintf("inflate-bomb %d bytes of zeros", size), bomb, func() { req, err = saml.NewIdpAuthnRequest(w.IDP, r) })
		if ok && size > 10<<20 && (err == nil || !strings.Contains(err.Error(), "uncompress limit")) {
			got := 0
			if req != nil {
				got = len(req.RequestBuffer)
			}
			c.Violation("C09/inflate-limit/idp-get", fmt.Sprintf("input inflating to %d bytes (>10MB) was not refused (err=%v, buffer=%d bytes)", size, err, got), nil)
		}
		if ok && size < 10<<20 && err != nil {
			c.Count("bomb_below_limit_refused(observation)")
		}
	}
	for name, bomb := range c09FramedBombs(c) {
		if !mine() {
			continue
		}
		r := httptest.NewRequest("GET", so.IDPSSO+"?SAMLRequest="+url.QueryEscape(base64.StdEncoding.EncodeToString(bomb)), nil)
		var req *saml.IdpAuthnRequest
		var err error
		a0 := core.HeapAllocs()
		ok := c09Call(c, "NewIdpAuthnRequest", "inflate-bomb in "+name, bomb, func() { req, err = saml.NewIdpAuthnRequest(w.IDP, r) })
		alloc := core.HeapAllocs() - a0
		if ok && (alloc > c09FramedBombAlloc || err == nil && req != nil && len(req.RequestBuffer) > 10<<20) {
			got := 0
			if req != nil {
				got = len(req.RequestBuffer)
			}
			c.Violation("C09/inflate-limit/idp-get/framed", fmt.Sprintf("%s: %d MiB allocated, buffer=%d bytes, err=%v: inflated beyond the 10 MB limit", name, alloc>>20, got, err), nil)
		}
	}

	// hostile registered metadata: struct-level and parsed-document-level
	base := c09SPMetadata()
	variants := c09HostileMetadata(c, base)
	for _, v := range variants {
		if !mine() {
			continue
		}
		w.Registry[so.SPMeta] = v.md
		reqXML := so.Bytes(c09AuthnRequest(o))
		rec := httptest.NewRecorder()
		c09Call(c, "ServeSSO-hostile-metadata", v.name, nil, func() { w.IDP.ServeSSO(rec, so.SSORequestPOST(so.IDPSSO, reqXML, "rs")) })
		c.Observe("hostile_metadata_sso_status", fmt.Sprint(rec.Code))
		rec2 := httptest.NewRecorder()
		c09Call(c, "ServeIDPInitiated-hostile-metadata", v.name, nil, func() {
			w.IDP.ServeIDPInitiated(rec2, httptest.NewRequest("GET", "https://idp.example.com/login/x", nil), so.SPMeta, "relay")
		})
		c.Observe("hostile_metadata_idpinit_status", fmt.Sprint(rec2.Code))
	}
	nh := c.Pick(4000, 50000)
	mdXML, _ := xml.Marshal(base)
	for i := 0; i < nh/c.NShards; i++ {
		el, err := so.Parse(mdXML)
		if err != nil {
			break
		}
		var ops []string
		for k := 1 + c.Rng.Intn(3); k > 0; k-- {
			ops = append(ops, mut.Struct(c.Rng, el))
		}
		var md saml.EntityDescriptor
		raw := so.Bytes(el)
		var uerr error
		if !c09Call(c, "xml.Unmarshal-EntityDescriptor", "md-mutant "+strings.Join(ops, ";"), raw, func() { uerr = xml.Unmarshal(raw, &md) }) || uerr != nil {
			continue
		}
		w.Registry[so.SPMeta] = &md
		reqXML := so.Bytes(c09AuthnRequest(o))
		rec := httptest.NewRecorder()
		desc := "parsed-md-mutant " + strings.Join(ops, ";")
		c09Call(c, "ServeSSO-hostile-metadata", desc, raw, func() { w.IDP.ServeSSO(rec, so.SSORequestPOST(so.IDPSSO, reqXML, "rs")) })
		rec2 := httptest.NewRecorder()
		c09Call(c, "ServeIDPInitiated-hostile-metadata", desc, raw, func() {
			w.IDP.ServeIDPInitiated(rec2, httptest.NewRequest("GET", "https://idp.example.com/login/x", nil), so.SPMeta, "relay")
		})
	}
	w.Registry[so.SPMeta] = base
	// registry errors
	for _, e := range []error{os.ErrNotExist, errors.New("backend down"), fmt.Errorf("wrapped: %w", os.ErrNotExist)} {
		w.RegistryErr = e
		rec := httptest.NewRecorder()
		c09Call(c, "ServeSSO-registry-error", e.Error(), nil, func() { w.IDP.ServeSSO(rec, so.SSORequestPOST(so.IDPSSO, so.Bytes(c09AuthnRequest(o)), "")) })
		rec2 := httptest.NewRecorder()
		c09Call(c, "ServeIDPInitiated-registry-error", e.Error(), nil, func() {
			w.IDP.ServeIDPInitiated(rec2, httptest.NewRequest("GET", "https://idp.example.com/login/x", nil), so.SPMeta, "")
		})
	}
	w.RegistryErr = nil
}

type hostileMD struct {
	name string
	md   *saml.EntityDescriptor
}

func cloneMD(m *saml.EntityDescriptor) *saml.EntityDescriptor {
	b, _ := xml.Marshal(m)
	var out saml.EntityDescriptor
	_ = xml.Unmarshal(b, &out)
	return &out
}

func c09HostileMetadata(c *core.Ctx, base *saml.EntityDescriptor) []hostileMD {
	var out []hostileMD
	add := func(name string, f func(m *saml.EntityDescriptor)) {
		m := cloneMD(base)
		f(m)
		out = append(out, hostileMD{name, m})
	}
	add("no-spsso-descriptor", func(m *saml.EntityDescriptor) { m.SPSSODescriptors = nil })
	add("empty-spsso-descriptor", func(m *saml.EntityDescriptor) { m.SPSSODescriptors = []saml.SPSSODescriptor{{}} })
	add("no-acs", func(m *saml.EntityDescriptor) { m.SPSSODescriptors[0].AssertionConsumerServices = nil })
	add("acs-artifact-only", func(m *saml.EntityDescriptor) {
		m.SPSSODescriptors[0].AssertionConsumerServices = []saml.IndexedEndpoint{{Binding: saml.HTTPArtifactBinding, Location: so.SPACS, Index: 1}}
	})
	add("acs-redirect-binding", func(m *saml.EntityDescriptor) {
		m.SPSSODescriptors[0].AssertionConsumerServices = []saml.IndexedEndpoint{{Binding: saml.HTTPRedirectBinding, Location: so.SPACS, Index: 1}}
	})
	add("no-keydescriptors", func(m *saml.EntityDescriptor) { m.SPSSODescriptors[0].KeyDescriptors = nil })
	add("encryption-descriptor-without-certificate", func(m *saml.EntityDescriptor) {
		m.SPSSODescriptors[0].KeyDescriptors = []saml.KeyDescriptor{{Use: "encryption"}}
	})
	add("encryption-descriptor-empty-certificate", func(m *saml.EntityDescriptor) {
		m.SPSSODescriptors[0].KeyDescriptors = []saml.KeyDescriptor{{Use: "encryption", KeyInfo: saml.KeyInfo{X509Data: saml.X509Data{X509Certificates: []saml.X509Certificate{{Data: ""}}}}}}
	})
	add("encryption-descriptor-garbage-certificate", func(m *saml.EntityDescriptor) {
		m.SPSSODescriptors[0].KeyDescriptors = []saml.KeyDescriptor{{Use: "encryption", KeyInfo: saml.KeyInfo{X509Data: saml.X509Data{X509Certificates: []saml.X509Certificate{{Data: "bm90IGEgY2VydA=="}}}}}}
	})
	add("encryption-descriptor-not-base64", func(m *saml.EntityDescriptor) {
		m.SPSSODescriptors[0].KeyDescriptors = []saml.KeyDescriptor{{Use: "encryption", KeyInfo: saml.KeyInfo{X509Data: saml.X509Data{X509Certificates: []saml.X509Certificate{{Data: "***"}}}}}}
	})
	add("encryption-descriptor-ec-certificate", func(m *saml.EntityDescriptor) {
		m.SPSSODescriptors[0].KeyDescriptors = []saml.KeyDescriptor{{Use: "encryption", KeyInfo: saml.KeyInfo{X509Data: saml.X509Data{X509Certificates: []saml.X509Certificate{{Data: fx.K("sp_p256").CertB64()}}}}}}
	})
	add("unlabelled-descriptor-without-certificate", func(m *saml.EntityDescriptor) { m.SPSSODescriptors[0].KeyDescriptors = []saml.KeyDescriptor{{Use: ""}} })
	add("signing-descriptor-without-certificate", func(m *saml.EntityDescriptor) {
		m.SPSSODescriptors[0].KeyDescriptors = []saml.KeyDescriptor{{Use: "signing"}}
	})
	add("attribute-consuming-services", func(m *saml.EntityDescriptor) {
		t := true
		m.SPSSODescriptors[0].AttributeConsumingServices = []saml.AttributeConsumingService{{IsDefault: &t, RequestedAttributes: []saml.RequestedAttribute{
			{Attribute: saml.Attribute{Name: "email", NameFormat: "urn:oasis:names:tc:SAML:2.0:attrname-format:basic"}}, {Attribute: saml.Attribute{Name: "", NameFormat: "urn:oasis:names:tc:SAML:2.0:attrname-format:unspecified"}},
			{Attribute: saml.Attribute{Name: "Given Name!", NameFormat: "urn:oasis:names:tc:SAML:2.0:attrname-format:basic", Values: []saml.AttributeValue{{Value: "x"}}}}}}}
	})
	add("two-descriptors-first-empty", func(m *saml.EntityDescriptor) {
		m.SPSSODescriptors = append([]saml.SPSSODescriptor{{}}, m.SPSSODescriptors...)
	})
	add("empty-entity-id", func(m *saml.EntityDescriptor) { m.EntityID = "" })
	add("acs-empty-location", func(m *saml.EntityDescriptor) {
		m.SPSSODescriptors[0].AssertionConsumerServices = []saml.IndexedEndpoint{{Binding: saml.HTTPPostBinding, Location: "", Index: 0}}
	})
	return out
}

// ---- metadata documents ----

func c09Meta(c *core.Ctx, mine func() bool) {
	var seeds []fixture
	for _, f := range c09Fixtures() {
		if strings.Contains(strings.ToLower(f.name), "metadata") {
			seeds = append(seeds, f)
		}
	}
	spmd, _ := xml.Marshal(c09SPMetadata())
	seeds = append(seeds, fixture{"generated-sp-metadata", spmd})
	idpmd, _ := xml.Marshal(so.IDPMetadata("meta-signing+encryption"))
	seeds = append(seeds, fixture{"generated-idp-metadata", idpmd})
	wrapped := append(append([]byte(`<EntitiesDescriptor xmlns="urn:oasis:names:tc:SAML:2.0:metadata">`), append(spmd, idpmd...)...), []byte(`</EntitiesDescriptor>`)...)
	seeds = append(seeds, fixture{"generated-entities", wrapped})

	srv, _ := samlidp.New(samlidp.Options{URL: mustURL("https://idp.example.com"), Key: fx.K("idp_s1").Key, Certificate: fx.K("idp_s1").Cert, Store: &samlidp.MemoryStore{}})
	consume := func(desc string, raw []byte) {
		c09Call(c, "xml.Unmarshal-EntityDescriptor", desc, raw, func() { var m saml.EntityDescriptor; _ = xml.Unmarshal(raw, &m) })
		c09Call(c, "xml.Unmarshal-EntitiesDescriptor", desc, raw, func() { var m saml.EntitiesDescriptor; _ = xml.Unmarshal(raw, &m) })
		c09Call(c, "samlsp.ParseMetadata", desc, raw, func() { _, _ = samlsp.ParseMetadata(raw) })
		if srv != nil && c.Rng.Intn(2) == 0 {
			rec := httptest.NewRecorder()
			r := httptest.NewRequest("PUT", "https://idp.example.com/services/svc", bytes.NewReader(raw))
			if c09Call(c, "samlidp-PUT-services", desc, raw, func() { srv.ServeHTTP(rec, r) }) {
				c.Observe("put_services_status", fmt.Sprint(rec.Code))
			}
		}
	}
	for _, s := range seeds {
		if mine() {
			consume("seed "+s.name, s.data)
		}
	}
	for i, d := range mut.Degenerate {
		if mine() {
			consume(fmt.Sprintf("md-degenerate#%d", i), d)
		}
	}
	n := c.Pick(8000, 100000)
	for i := 0; i < n/c.NShards; i++ {
		s := seeds[c.Rng.Intn(len(seeds))]
		var raw []byte
		var desc string
		if c.Rng.Intn(3) == 0 {
			var op string
			raw, op = mut.Bytes(c.Rng, s.data)
			desc = "md-bytes " + s.name + " " + op
		} else {
			el, err := so.Parse(s.data)
			if err != nil {
				continue
			}
			var ops []string
			for k := 1 + c.Rng.Intn(3); k > 0; k-- {
				ops = append(ops, mut.Struct(c.Rng, el))
			}
			raw = so.Bytes(el)
			desc = "md-struct " + s.name + " " + strings.Join(ops, ";")
		}
		consume(desc, raw)
	}
	// FetchMetadata transport behaviours
	type beh struct {
		name string
		f    func(*http.Request) (*http.Response, error)
	}
	behs := []beh{
		{"good", func(*http.Request) (*http.Response, error) { return so.OK200(idpmd) }},
		{"dial-error", func(*http.Request) (*http.Response, error) { return nil, errors.New("dial error") }},
		{"404", func(*http.Request) (*http.Response, error) {
			return so.HTTPResponse(404, strings.NewReader("nope")), nil
		}},
		{"500-with-metadata", func(*http.Request) (*http.Response, error) { return so.HTTPResponse(500, bytes.NewReader(idpmd)), nil }},
		{"302", func(*http.Request) (*http.Response, error) { return so.HTTPResponse(302, strings.NewReader("")), nil }},
		{"empty", func(*http.Request) (*http.Response, error) { return so.OK200(nil) }},
		{"truncated", func(*http.Request) (*http.Response, error) { return so.OK200(idpmd[:len(idpmd)/2]) }},
		{"read-error", func(*http.Request) (*http.Response, error) {
			return so.HTTPResponse(200, &so.ErrReader{Data: idpmd, N: 100}), nil
		}},
		{"garbage", func(*http.Request) (*http.Response, error) { return so.OK200([]byte("\x00\xff{}")) }},
		{"entities-without-idp", func(*http.Request) (*http.Response, error) {
			return so.OK200(append(append([]byte(`<EntitiesDescriptor xmlns="urn:oasis:names:tc:SAML:2.0:metadata">`), spmd...), []byte(`</EntitiesDescriptor>`)...))
		}},
		{"entities-with-idp", func(*http.Request) (*http.Response, error) { return so.OK200(wrapped) }},
	}
	if c.Shard < 2 || c.Thorough() {
		for _, b := range behs {
			var md *saml.EntityDescriptor
			var err error
			if c09Call(c, "samlsp.FetchMetadata", b.name, nil, func() {
				md, err = samlsp.FetchMetadata(context.Background(), &http.Client{Transport: so.RoundTripFunc(b.f)}, mustURL("https://idp.example.com/metadata"))
			}) {
				if (md == nil) == (err == nil) {
					c.Violation("C09/contract/fetchmetadata/"+b.name, fmt.Sprintf("FetchMetadata returned md=%v err=%v", md != nil, err), nil)
				}
				if (b.name == "good" || b.name == "entities-with-idp") && err != nil {
					c.Inconclusive("FetchMetadata positive control failed: " + err.Error())
				}
			}
		}
	}
}
