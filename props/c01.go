package props

import (
	"crypto/x509"
	"fmt"
	"strings"
	"time"

	"github.com/beevik/etree"
	"github.com/crewjam/saml"

	"verif/internal/attack"
	"verif/internal/core"
	"verif/internal/fx"
	"verif/internal/so"
)

// C01 — SP returns an assertion only if a trusted IdP key signed its content.

func init() {
	core.RegisterSpec(&core.Spec{
		ID:    "C01",
		Level: "exploration",
		Rule: "base messages = {Response signed, Assertion signed, both, neither} x {plaintext, encrypted to the SP key} x {1,2 assertions} x signer {two IdP signing keys, the IdP's encryption-use key, attacker key, attacker key with look-alike certificate, EC key} under 7 trust configurations (metadata with one/two signing certs, signing+encryption descriptors, use omitted, pinned certificate, fingerprint sha256/sha512); " +
			"each base is delivered unchanged and after 1..3 operations of the attack grammar (XSW shapes, evil twins as sibling/parent/child incl. inside ds:Object/Extensions/Advice, moved/copied/emptied signatures, ID and Reference edits, KeyInfo substitution, attacker re-signing, comment/CDATA/PI injection, namespace re-binding, re-encryption to the SP certificate, partial removal, transform edits, byte-level round-trip-unstable splices) through the XML, POST and artifact entry points; plus trust-reconfiguration sequences on one long-lived SP (keys added, retired and replaced between deliveries by in-place metadata edits, descriptor-slice swaps, a new metadata object, certificate pin, fingerprint), each delivery judged against the roots configured at that moment. " +
			"Oracle: error, or the projection (issuer, subject, conditions, statements) of the returned assertion is one the signing oracle signed with a key trusted in that configuration. Non-trivial = well-formed document that reached signature/assertion processing or was accepted; distinct by (base, trust, operation sequence, entry).",
		Assumptions: []string{"the attacker cannot forge signatures or find hash collisions", "SignatureVerifier overrides are application code and not exercised", "all non-signature fields of hostile documents are kept valid so that only the signature can save the SP"},
		FloorQuick:  2000,
		FloorThor:   8000,
		Run:         runC01,
		LevelText:   "A signing oracle that owns the IdP keys knows exactly which assertion contents were ever signed by which key; a transformation grammar of signature-wrapping and related attacks is applied to those messages and every acceptance by the real SP is checked for membership in the signed set of the current trust configuration. Sampled grammar (attacker space is unbounded): held-on-observed.",
		LevelNote:   "Trusts goxmldsig only for producing genuine signatures; the oracle never re-implements signature validation. Projection uses encoding/xml into saml.Assertion on both sides.",
		Technique:   "runtime monitoring: signed-corpus membership oracle over a signature-wrapping transformation grammar",
		DesignRef:   "DESIGN.md §5 C01",
	})
}

func c01MakeEvil(el *etree.Element) {
	changed := false
	for _, n := range el.FindElements("//NameID") {
		n.SetText("attacker@evil.example")
		changed = true
	}
	if el.Tag == "NameID" {
		el.SetText("attacker@evil.example")
		changed = true
	}
	for _, v := range el.FindElements("//AttributeValue") {
		v.SetText("evil-admin")
		changed = true
	}
	if !changed {
		for _, s := range el.FindElements("//Subject") {
			s.CreateElement("saml:NameID").SetText("attacker@evil.example")
			changed = true
		}
	}
	if !changed {
		el.CreateAttr("ID", "id-evil-content")
	}
}

type c01Base struct {
	trust  so.Trust
	signer string
	layout int // 0 response signed, 1 assertion signed, 2 both, 3 neither
	enc    bool
	nA     int
	method string
}

func (b c01Base) String() string {
	return fmt.Sprintf("trust=%s signer=%s layout=%d enc=%v n=%d method=%s", b.trust.Name, b.signer, b.layout, b.enc, b.nA, shortAlg(b.method))
}

func c01Build(o *so.Oracle, b c01Base) ([]byte, error) {
	kp := fx.K(b.signer)
	var children []*etree.Element
	for i := 0; i < b.nA; i++ {
		ael := o.Assertion(so.AssertionSpec{RequestID: "req-1"}).Element()
		var err error
		if b.layout == 1 || b.layout == 2 {
			if ael, err = o.Sign(ael, kp, b.method); err != nil {
				return nil, err
			}
		}
		if b.enc {
			if ael, err = o.Encrypt(ael, fx.K("sp_rsa2048"), "", "", ""); err != nil {
				return nil, err
			}
		}
		children = append(children, ael)
	}
	rel := so.ResponseEl(o.Response("req-1", fx.Now()), children...)
	if b.layout == 0 || b.layout == 2 {
		var err error
		if rel, err = o.Sign(rel, kp, b.method); err != nil {
			return nil, err
		}
	}
	return so.Bytes(rel), nil
}

func runC01(c *core.Ctx) {
	so.Quiet()
	fx.SetNow(fx.Epoch)
	fx.ResetTolerances()
	o := so.New(c.Rng)
	signers := []string{"idp_s1", "idp_s2", "idp_e", "att_x", "att_xp", "idp_ec"}
	var bases []c01Base
	for _, t := range so.Trusts {
		for _, s := range signers {
			for layout := 0; layout < 4; layout++ {
				for _, enc := range []bool{false, true} {
					for _, nA := range []int{1, 2} {
						m := ""
						if fx.K(s).IsRSA() {
							m = so.RSAMethods[(layout+nA)%4]
						}
						bases = append(bases, c01Base{t, s, layout, enc, nA, m})
					}
				}
			}
		}
	}
	sps := map[string]*saml.ServiceProvider{}
	for _, t := range so.Trusts {
		sps[t.Name] = so.NewSP(t.Name, fx.K("sp_rsa2048"))
	}
	idx := 0
	mine := func() bool { idx++; return c.Mine(idx) }
	actx := &attack.Ctx{Rng: c.Rng, O: o, MakeEvil: c01MakeEvil, SPCert: fx.K("sp_rsa2048"), Genuine: fx.K("idp_s1")}

	run := func(b c01Base, nops int, forcedOp int) {
		o.Reset()
		raw, err := c01Build(o, b)
		if err != nil {
			c.Inconclusive("build: " + err.Error())
			return
		}
		entry := c.Rng.Intn(3)
		var ops []string
		doc := raw
		if entry == 2 { // artifact: wrap the genuine response first, then attack the SOAP document
			inner, _ := so.Parse(raw)
			ar := o.ArtifactResponseEl("art-1", fx.Now(), inner)
			switch c.Rng.Intn(3) {
			case 0:
				if s, err := o.Sign(ar, fx.K(b.signer), b.method); err == nil {
					ar = s
					ops = append(ops, "ar-signed-by-"+b.signer)
				}
			case 1:
				if s, err := o.SignWithCert(ar, fx.K("att_x"), "", fx.K("idp_s1").Cert.Raw); err == nil {
					ar = s
					ops = append(ops, "ar-signed-by-attacker")
				}
			}
			doc = so.Bytes(so.SOAP(ar))
		}
		if forcedOp >= 0 {
			var d string
			doc, d = attack.ApplyOp(actx, doc, forcedOp)
			if d == "" {
				d = "op-not-applicable:" + attack.Ops[forcedOp].Name
			}
			ops = append(ops, d)
			nops--
		}
		if nops > 0 {
			var ds []string
			doc, ds = attack.Apply(actx, doc, nops)
			ops = append(ops, ds...)
		}
		if c.Rng.Intn(12) == 0 {
			var d string
			doc, d = attack.Splice(c.Rng, doc)
			if d != "" {
				ops = append(ops, d)
			}
		}
		c01Deliver(c, o, sps[b.trust.Name], b, entry, doc, ops)
	}

	// every base unchanged, and every single operation on every base
	for _, b := range bases {
		if mine() {
			run(b, 0, -1)
		}
	}
	reps := c.Pick(1, 12)
	for _, b := range bases {
		for op := range attack.Ops {
			for r := 0; r < reps; r++ {
				if mine() {
					run(b, 1, op)
				}
			}
		}
	}
	// trust reconfiguration on a long-lived SP: keys are added, retired and replaced between deliveries,
	// by editing the metadata object in place, by swapping the pointer, and by (un)setting the pin;
	// acceptance is judged against the roots configured at the moment of delivery
	nrot := c.Pick(60, 3000)
	for i := 0; i < nrot; i++ {
		if mine() {
			c01Rotation(c, o)
		}
	}
	// metadata that publishes no signing key (keys for encryption only, or none): no key is trusted, whoever signs
	for i := 0; i < c.Pick(24, 600); i++ {
		if !mine() {
			continue
		}
		lay := [][]string{{"idp_e"}, {"idp_e", "idp_s2"}, {"idp_s1"}, {}}[i%4]
		sp := so.NewSP("meta-one-signing", fx.K("sp_rsa2048"))
		var kds []saml.KeyDescriptor
		for _, n := range lay {
			kds = append(kds, saml.KeyDescriptor{Use: "encryption", KeyInfo: saml.KeyInfo{X509Data: saml.X509Data{X509Certificates: []saml.X509Certificate{{Data: fx.K(n).CertB64()}}}}})
		}
		sp.IDPMetadata.IDPSSODescriptors[0].KeyDescriptors = kds
		signer := append(append([]string{}, lay...), "idp_s1", "idp_e")[c.Rng.Intn(len(lay)+2)]
		b := c01Base{trust: so.Trust{Name: fmt.Sprintf("meta-encryption-only(%s)", strings.Join(lay, "+")), Roots: nil},
			signer: signer, layout: c.Rng.Intn(3), enc: c.Rng.Intn(3) == 0, nA: 1, method: so.RSAMethods[c.Rng.Intn(4)]}
		o.Reset()
		raw, err := c01Build(o, b)
		if err != nil {
			c.Inconclusive("build: " + err.Error())
			continue
		}
		c.Count("deliveries_for_metadata_without_signing_key")
		c01Deliver(c, o, sp, b, c.Rng.Intn(2), raw, []string{"signed-by-key-published-for-encryption-only-or-not-at-all:" + signer})
	}
	// the clock near the edges of the trusted certificate's validity period: whatever an implementation decides about a
	// certificate that is just about (in)valid, it still may only return content the key signed
	for i := 0; i < c.Pick(400, 12000); i++ {
		if mine() {
			c01CertEdge(c, o, actx)
		}
	}
	fx.SetNow(fx.Epoch)
	// depth 2-3
	n := c.Pick(12000, 1200000)
	for i := 0; i < n; i++ {
		if !mine() {
			continue
		}
		b := bases[c.Rng.Intn(len(bases))]
		if c.Rng.Intn(3) != 0 { // bias towards genuinely signed, trusted bases: those are what an attacker starts from
			b.signer = b.trust.Roots[c.Rng.Intn(len(b.trust.Roots))]
			if b.layout == 3 {
				b.layout = c.Rng.Intn(3)
			}
			b.method = so.RSAMethods[c.Rng.Intn(4)]
		}
		run(b, 2+c.Rng.Intn(2), -1)
	}
}

func c01Deliver(c *core.Ctx, o *so.Oracle, sp *saml.ServiceProvider, b c01Base, entry int, doc []byte, ops []string) {
	desc := fmt.Sprintf("%s entry=%d ops=[%s]", b, entry, strings.Join(ops, "; "))
	c.Journal("C01 " + desc + "\n" + string(trunc(doc, 16000)))
	cur := mustURL(so.SPACS)
	var got *saml.Assertion
	var err error
	p, pv, frame, _ := core.Guard(func() {
		switch entry {
		case 0:
			got, err = sp.ParseXMLResponse(doc, []string{"req-1"}, cur)
		case 1:
			got, err = so.DeliverPOST(sp, doc, []string{"req-1"}, cur)
		case 2:
			got, err = sp.ParseXMLArtifactResponse(doc, []string{"req-1"}, "art-1", cur)
		}
	})
	c.Eval()
	replay := map[string]any{"case": desc, "document": string(doc)}
	if p {
		// totality is C09's property; here a panic means "no assertion returned"
		c.Count("panics(reported by C09)")
		c.Observe("panic_frames", frame+": "+fmt.Sprint(pv))
		return
	}
	trusted := map[string]bool{}
	for _, r := range b.trust.Roots {
		trusted[r] = true
	}
	if err != nil {
		if got != nil {
			c.Violation("C01/contract/assertion-with-error", "assertion returned together with an error", replay)
		}
		ire, ok := err.(*saml.InvalidResponseError)
		if !ok {
			c.Violation("C01/contract/error-type", fmt.Sprintf("error type %T", err), replay)
			return
		}
		st := "other"
		if ire.PrivateErr != nil {
			st = stageOf(ire.PrivateErr.Error())
		}
		c.Observe("reject_stages", st)
		if st != "xml" && st != "base64" {
			c.Nontrivial(desc)
		}
		c.Count("rejected")
		if len(ops) == 0 && trusted[b.signer] && b.layout != 3 {
			c.Inconclusive("oracle fixture (genuine, trusted, unmodified) rejected: " + truncate(fmt.Sprint(ire.PrivateErr), 100))
		}
		return
	}
	c.Nontrivial(desc)
	if got == nil {
		c.Violation("C01/contract/nil-nil", "nil assertion with nil error", replay)
		return
	}
	gen := o.Genuine(trusted)
	proj := so.Projection(got)
	if !gen[proj] {
		cls := "modified"
		switch {
		case len(ops) == 0 && !trusted[b.signer]:
			cls = "untrusted-signer/" + b.signer + "/" + b.trust.Name
		case len(ops) == 0:
			cls = "unmodified-base-layout" + fmt.Sprint(b.layout)
		case len(ops) > 0:
			cls = "op/" + strings.Fields(ops[len(ops)-1])[0]
		}
		name := ""
		if got.Subject != nil && got.Subject.NameID != nil {
			name = got.Subject.NameID.Value
		}
		c.Violation("C01/unsigned-content-accepted/"+cls, fmt.Sprintf("SP returned an assertion (NameID %q) whose content no trusted key signed (%s)", name, desc), replay)
		return
	}
	c.Count("accepted_genuine")
	if len(ops) > 0 {
		c.Count("accepted_genuine_after_transformation")
		c.Observe("transformations_that_left_genuine_content_acceptable", strings.Fields(ops[len(ops)-1])[0])
	}
	c.SampleSome(map[string]any{"case": desc, "accepted": true})
}

// c01Rotation drives one long-lived SP through a sequence of trust reconfigurations and deliveries.
func c01Rotation(c *core.Ctx, o *so.Oracle) {
	sp := so.NewSP("meta-two-signing", fx.K("sp_rsa2048"))
	roots := []string{"idp_s1", "idp_s2"}
	pool := []string{"idp_s1", "idp_s2", "idp_e", "att_x"}
	mode := "meta"
	var retired []string
	steps := 5 + c.Rng.Intn(6)
	for s := 0; s < steps; s++ {
		// reconfigure (the first step keeps the initial configuration so that something is verified before any change)
		how := "initial"
		if s > 0 {
			roots, retired, mode, how = trustReconfigure(c, sp, roots, retired)
		}
		c.Observe("c01_reconfigurations", how)
		// deliveries: prefer retired keys, then current roots, then never-trusted keys
		nd := 1 + c.Rng.Intn(3)
		for d := 0; d < nd; d++ {
			var signer string
			switch r := c.Rng.Intn(5); {
			case r < 2 && len(retired) > 0:
				signer = retired[c.Rng.Intn(len(retired))]
			case r < 4:
				signer = roots[c.Rng.Intn(len(roots))]
			default:
				signer = pool[c.Rng.Intn(len(pool))]
			}
			b := c01Base{trust: so.Trust{Name: fmt.Sprintf("rotating(%s:%s via %s, step %d)", mode, strings.Join(roots, "+"), how, s), Roots: roots},
				signer: signer, layout: c.Rng.Intn(3), enc: c.Rng.Intn(3) == 0, nA: 1, method: so.RSAMethods[c.Rng.Intn(4)]}
			o.Reset()
			raw, err := c01Build(o, b)
			if err != nil {
				c.Inconclusive("build: " + err.Error())
				return
			}
			var ops []string
			if !contains(roots, signer) {
				ops = []string{"signed-by-key-not-currently-trusted:" + signer}
				if contains(retired, signer) {
					ops = []string{"signed-by-retired-key:" + signer}
					c.Count("deliveries_signed_by_retired_key")
				}
			}
			entry := c.Rng.Intn(2)
			c01Deliver(c, o, sp, b, entry, raw, ops)
		}
	}
	c.Count("trust_rotation_sequences")
}

func contains(l []string, s string) bool {
	for _, x := range l {
		if x == s {
			return true
		}
	}
	return false
}

// trustReconfigure changes the trust configuration of a live SP by one of the mechanisms a deployment has (in-place edit
// of the metadata object, replacing the descriptor slice, a fresh metadata object with the same entity ID, pinning a
// certificate, pinning a fingerprint) and returns the roots that are trusted from now on.
func trustReconfigure(c *core.Ctx, sp *saml.ServiceProvider, roots, retired []string) ([]string, []string, string, string) {
	kdFor := func(names []string) []saml.KeyDescriptor {
		var out []saml.KeyDescriptor
		for _, n := range names {
			out = append(out, saml.KeyDescriptor{Use: "signing", KeyInfo: saml.KeyInfo{X509Data: saml.X509Data{X509Certificates: []saml.X509Certificate{{Data: fx.K(n).CertB64()}}}}})
		}
		// an encryption-use descriptor is always present and never a root
		out = append(out, saml.KeyDescriptor{Use: "encryption", KeyInfo: saml.KeyInfo{X509Data: saml.X509Data{X509Certificates: []saml.X509Certificate{{Data: fx.K("idp_e").CertB64()}}}}})
		return out
	}
	mode, how := "meta", ""
	var next []string
	for _, n := range []string{"idp_s1", "idp_s2", "att_xp"} { // att_xp stands for a key the deployment legitimately adds later
		if c.Rng.Intn(2) == 0 {
			next = append(next, n)
		}
	}
	if len(next) == 0 {
		next = []string{[]string{"idp_s1", "idp_s2"}[c.Rng.Intn(2)]}
	}
	for _, r := range roots {
		if !contains(next, r) && !contains(retired, r) {
			retired = append(retired, r)
		}
	}
	sp.IDPCertificate, sp.IDPCertificateFingerprint, sp.IDPCertificateFingerprintAlgorithm = nil, nil, nil
	switch k := c.Rng.Intn(6); {
	case k == 0: // swap the metadata pointer
		md := so.IDPMetadata("meta-two-signing")
		md.IDPSSODescriptors[0].KeyDescriptors = kdFor(next)
		sp.IDPMetadata = md
		how = "new-metadata-object"
	case k == 1: // pin one certificate; metadata keeps the old roots and must be ignored
		next = next[:1]
		pin := fx.K(next[0]).CertB64()
		sp.IDPCertificate = &pin
		mode, how = "pin", "pinned-certificate"
	case k == 2:
		next = next[:1]
		fp, alg := so.Fingerprint(fx.K(next[0]).Cert.Raw, []string{"sha256", "sha512"}[c.Rng.Intn(2)])
		sp.IDPCertificateFingerprint, sp.IDPCertificateFingerprintAlgorithm = &fp, &alg
		mode, how = "fingerprint", "fingerprint"
	case k == 3: // edit the certificate data of existing descriptors in place (same slice, same length where possible)
		kds := sp.IDPMetadata.IDPSSODescriptors[0].KeyDescriptors
		newk := kdFor(next)
		if len(kds) == len(newk) {
			for i := range kds {
				kds[i].Use = newk[i].Use
				kds[i].KeyInfo.X509Data.X509Certificates[0].Data = newk[i].KeyInfo.X509Data.X509Certificates[0].Data
			}
			how = "certificate-data-edited-in-place"
		} else {
			sp.IDPMetadata.IDPSSODescriptors[0].KeyDescriptors = newk
			how = "descriptor-slice-replaced-in-place"
		}
	default: // replace the descriptor slice on the same metadata object
		sp.IDPMetadata.IDPSSODescriptors[0].KeyDescriptors = kdFor(next)
		how = "descriptor-slice-replaced-in-place"
	}
	return next, retired, mode, how
}

var c01EdgePair *fx.KeyPair

// c01CertEdge delivers genuine and attacked messages signed under a certificate that is valid from Epoch-5min to
// Epoch+5min, at clock positions seconds and minutes around both edges.
func c01CertEdge(c *core.Ctx, o *so.Oracle, actx *attack.Ctx) {
	if c01EdgePair == nil {
		c01EdgePair = fx.VariantPair(fx.K("idp_s1"), "idp_s1_edge", func(t *x509.Certificate) {
			t.NotBefore, t.NotAfter = fx.Epoch.Add(-5*time.Minute), fx.Epoch.Add(5*time.Minute)
		})
	}
	kp := c01EdgePair
	sp := so.NewSP("meta-one-signing", fx.K("sp_rsa2048"))
	sp.IDPMetadata.IDPSSODescriptors[0].KeyDescriptors = []saml.KeyDescriptor{{Use: "signing", KeyInfo: saml.KeyInfo{X509Data: saml.X509Data{X509Certificates: []saml.X509Certificate{{Data: kp.CertB64()}}}}}}
	edge := []time.Duration{-5 * time.Minute, 5 * time.Minute}[c.Rng.Intn(2)]
	off := edge + []time.Duration{-time.Minute, -time.Second, time.Second, 30 * time.Second, time.Minute, 2*time.Minute + 59*time.Second, 4 * time.Minute, time.Hour, -2 * time.Minute, -4 * time.Minute}[c.Rng.Intn(10)]
	inside := off > -5*time.Minute && off < 5*time.Minute
	// the message itself is issued "now" so that only the certificate's validity is at stake
	fx.SetNow(fx.Epoch.Add(off))
	o.Reset()
	layout := c.Rng.Intn(3)
	ael := o.Assertion(so.AssertionSpec{RequestID: "req-1", Now: fx.Now()}).Element()
	var err error
	if layout >= 1 {
		if ael, err = o.Sign(ael, kp, ""); err != nil {
			return
		}
	}
	rel := so.ResponseEl(o.Response("req-1", fx.Now()), ael)
	if layout != 1 {
		if rel, err = o.Sign(rel, kp, ""); err != nil {
			return
		}
	}
	doc := so.Bytes(rel)
	var ops []string
	if !inside {
		ops = append(ops, "clock-outside-certificate-validity:"+off.String())
	}
	if c.Rng.Intn(4) != 0 {
		saveGenuine := actx.Genuine
		actx.Genuine = kp
		var ds []string
		doc, ds = attack.Apply(actx, doc, 1)
		actx.Genuine = saveGenuine
		ops = append(ops, ds...)
	}
	b := c01Base{trust: so.Trust{Name: fmt.Sprintf("certificate-valid-%v..%v,clock%+v", -5*time.Minute, 5*time.Minute, off), Roots: []string{kp.Name}}, signer: kp.Name, layout: map[int]int{0: 0, 1: 1, 2: 2}[layout], nA: 1}
	c.Count("deliveries_near_certificate_validity_edges")
	c01Deliver(c, o, sp, b, c.Rng.Intn(2), doc, ops)
}
