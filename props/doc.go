// Package props contains one file (or a few) per property: case generators and oracles.
package props
