package props

import (
	"encoding/xml"
	"github.com/beevik/etree"
	"hash/fnv"
	"net/url"
	"strings"

	"github.com/crewjam/saml"
)

func mustURL(s string) url.URL {
	u, err := url.Parse(s)
	if err != nil {
		panic(err)
	}
	return *u
}

func fnvBytes(b []byte) uint64 {
	h := fnv.New64a()
	_, _ = h.Write(b)
	return h.Sum64()
}

func fnvStr(s string) uint64 { return fnvBytes([]byte(s)) }

func knownBinding(b string) bool {
	switch b {
	case saml.HTTPPostBinding, saml.HTTPRedirectBinding, saml.HTTPArtifactBinding, saml.SOAPBinding, saml.SOAPBindingV1:
		return true
	}
	return false
}

func boolPtr(b bool) *bool    { return &b }
func strPtr(s string) *string { return &s }
func intPtr(i int) *int       { return &i }

func xmlMarshal(v any) ([]byte, error)   { return xml.Marshal(v) }
func xmlUnmarshal(b []byte, v any) error { return xml.Unmarshal(b, v) }

// Confirmation methods other than bearer are rare but legal; every rule a property states for "every subject
// confirmation" applies to them as well.
var confMethods = []string{"urn:oasis:names:tc:SAML:2.0:cm:bearer", "urn:oasis:names:tc:SAML:2.0:cm:holder-of-key", "urn:oasis:names:tc:SAML:2.0:cm:sender-vouches", ""}

// setConfMethods rewrites the Method of the assertion's subject confirmations; pick[i] indexes confMethods (0 = bearer).
func setConfMethods(ael *etree.Element, pick []int) string {
	var names []string
	for i, sc := range ael.FindElements("./Subject/SubjectConfirmation") {
		if i >= len(pick) {
			break
		}
		m := confMethods[pick[i]%len(confMethods)]
		sc.CreateAttr("Method", m)
		n := "none"
		if j := strings.LastIndex(m, ":"); j >= 0 {
			n = m[j+1:]
		}
		names = append(names, n)
	}
	return strings.Join(names, ",")
}

// pickConfMethods draws methods for n confirmations: mostly bearer, sometimes something else.
func pickConfMethods(r interface{ Intn(int) int }, n int) []int {
	out := make([]int, n)
	for i := range out {
		if r.Intn(4) == 0 {
			out[i] = 1 + r.Intn(3)
		}
	}
	return out
}
