package props

import (
	"encoding/xml"
	"github.com/beevik/etree"
	"hash/fnv"
	"net/url"
	"reflect"
	"strings"

	"github.com/crewjam/saml"
)

func mustURL(s string) url.URL {
	u, err := url.Parse(s)
	if err != nil {
		panic(err)
	}
	return *u
}

func fnvBytes(b []byte) uint64 {
	h := fnv.New64a()
	_, _ = h.Write(b)
	return h.Sum64()
}

func fnvStr(s string) uint64 { return fnvBytes([]byte(s)) }

func knownBinding(b string) bool {
	switch b {
	case saml.HTTPPostBinding, saml.HTTPRedirectBinding, saml.HTTPArtifactBinding, saml.SOAPBinding, saml.SOAPBindingV1:
		return true
	}
	return false
}

func boolPtr(b bool) *bool    { return &b }
func strPtr(s string) *string { return &s }
func intPtr(i int) *int       { return &i }

func xmlMarshal(v any) ([]byte, error)   { return xml.Marshal(v) }
func xmlUnmarshal(b []byte, v any) error { return xml.Unmarshal(b, v) }

// Confirmation methods other than bearer are rare but legal; every rule a property states for "every subject
// confirmation" applies to them as well.
var confMethods = []string{"urn:oasis:names:tc:SAML:2.0:cm:bearer", "urn:oasis:names:tc:SAML:2.0:cm:holder-of-key", "urn:oasis:names:tc:SAML:2.0:cm:sender-vouches", ""}

// setConfMethods rewrites the Method of the assertion's subject confirmations; pick[i] indexes confMethods (0 = bearer).
func setConfMethods(ael *etree.Element, pick []int) string {
	var names []string
	for i, sc := range ael.FindElements("./Subject/SubjectConfirmation") {
		if i >= len(pick) {
			break
		}
		m := confMethods[pick[i]%len(confMethods)]
		sc.CreateAttr("Method", m)
		n := "none"
		if j := strings.LastIndex(m, ":"); j >= 0 {
			n = m[j+1:]
		}
		names = append(names, n)
	}
	return strings.Join(names, ",")
}

// pickConfMethods draws methods for n confirmations: mostly bearer, sometimes something else.
func pickConfMethods(r interface{ Intn(int) int }, n int) []int {
	out := make([]int, n)
	for i := range out {
		if r.Intn(4) == 0 {
			out[i] = 1 + r.Intn(3)
		}
	}
	return out
}

// algURIs is a dictionary of algorithm identifiers from XML-DSig, XML-Enc, XML-Enc 1.1 and RFC 4051/6931 ("xmldsig-more"),
// supported here or not, plus near misses; used wherever a message names an algorithm.
var algURIs = []string{
	// digests
	"http://www.w3.org/2000/09/xmldsig#sha1", "http://www.w3.org/2001/04/xmlenc#sha256", "http://www.w3.org/2001/04/xmlenc#sha512",
	"http://www.w3.org/2001/04/xmldsig-more#sha224", "http://www.w3.org/2001/04/xmldsig-more#sha384", "http://www.w3.org/2001/04/xmlenc#sha384",
	"http://www.w3.org/2001/04/xmldsig-more#md5", "http://www.w3.org/2001/04/xmlenc#ripemd160", "http://www.w3.org/2007/05/xmldsig-more#sha3-256",
	"http://www.w3.org/2007/05/xmldsig-more#sha3-512", "http://www.w3.org/2001/04/xmldsig-more#sha256", "http://www.w3.org/2000/09/xmldsig#sha256",
	// block encryption
	"http://www.w3.org/2001/04/xmlenc#aes128-cbc", "http://www.w3.org/2001/04/xmlenc#aes192-cbc", "http://www.w3.org/2001/04/xmlenc#aes256-cbc", "http://www.w3.org/2001/04/xmlenc#tripledes-cbc",
	"http://www.w3.org/2009/xmlenc11#aes128-gcm", "http://www.w3.org/2009/xmlenc11#aes192-gcm", "http://www.w3.org/2009/xmlenc11#aes256-gcm",
	// key transport / wrap / agreement / mask generation
	"http://www.w3.org/2001/04/xmlenc#rsa-1_5", "http://www.w3.org/2001/04/xmlenc#rsa-oaep-mgf1p", "http://www.w3.org/2009/xmlenc11#rsa-oaep",
	"http://www.w3.org/2001/04/xmlenc#kw-aes128", "http://www.w3.org/2001/04/xmlenc#kw-aes256", "http://www.w3.org/2001/04/xmlenc#kw-tripledes", "http://www.w3.org/2001/04/xmlenc#dh",
	"http://www.w3.org/2009/xmlenc11#ECDH-ES", "http://www.w3.org/2009/xmlenc11#mgf1sha1", "http://www.w3.org/2009/xmlenc11#mgf1sha256", "http://www.w3.org/2009/xmlenc11#mgf1sha512",
	// signature methods
	"http://www.w3.org/2000/09/xmldsig#rsa-sha1", "http://www.w3.org/2001/04/xmldsig-more#rsa-sha256", "http://www.w3.org/2001/04/xmldsig-more#rsa-sha384", "http://www.w3.org/2001/04/xmldsig-more#rsa-sha512",
	"http://www.w3.org/2001/04/xmldsig-more#ecdsa-sha1", "http://www.w3.org/2001/04/xmldsig-more#ecdsa-sha256", "http://www.w3.org/2001/04/xmldsig-more#ecdsa-sha384", "http://www.w3.org/2001/04/xmldsig-more#ecdsa-sha512",
	"http://www.w3.org/2000/09/xmldsig#dsa-sha1", "http://www.w3.org/2000/09/xmldsig#hmac-sha1", "http://www.w3.org/2001/04/xmldsig-more#rsa-md5", "http://www.w3.org/2001/04/xmldsig-more#rsa-sha224",
	"http://www.w3.org/2007/05/xmldsig-more#sha256-rsa-MGF1", "http://www.w3.org/2007/05/xmldsig-more#rsa-pss", "http://www.w3.org/2021/04/xmldsig-more#eddsa-ed25519",
	// canonicalisation and transforms
	"http://www.w3.org/2001/10/xml-exc-c14n#", "http://www.w3.org/2001/10/xml-exc-c14n#WithComments", "http://www.w3.org/TR/2001/REC-xml-c14n-20010315", "http://www.w3.org/TR/2001/REC-xml-c14n-20010315#WithComments",
	"http://www.w3.org/2006/12/xml-c14n11", "http://www.w3.org/2000/09/xmldsig#enveloped-signature", "http://www.w3.org/TR/1999/REC-xpath-19991116", "http://www.w3.org/TR/1999/REC-xslt-19991116", "http://www.w3.org/2000/09/xmldsig#base64",
	// not identifiers at all
	"", " ", "sha384", "SHA-384", "urn:unknown:alg", "http://www.w3.org/2001/04/xmldsig-more#SHA384", "http://www.w3.org/2001/04/xmldsig-more#sha384 ", "#sha384",
}

// reconfigure copies every exported field of fresh into live (both pointers to the same struct type) and leaves unexported
// fields alone: the long-lived object gets a new configuration the way an application would assign it, and whatever the
// library remembers privately from earlier use stays in place.
func reconfigure(live, fresh any) {
	lv, fv := reflect.ValueOf(live).Elem(), reflect.ValueOf(fresh).Elem()
	for i := 0; i < lv.NumField(); i++ {
		if lv.Type().Field(i).IsExported() && lv.Field(i).CanSet() {
			lv.Field(i).Set(fv.Field(i))
		}
	}
}
