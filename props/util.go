package props

import (
	"encoding/xml"
	"hash/fnv"
	"net/url"

	"github.com/crewjam/saml"
)

func mustURL(s string) url.URL {
	u, err := url.Parse(s)
	if err != nil {
		panic(err)
	}
	return *u
}

func fnvBytes(b []byte) uint64 {
	h := fnv.New64a()
	_, _ = h.Write(b)
	return h.Sum64()
}

func fnvStr(s string) uint64 { return fnvBytes([]byte(s)) }

func knownBinding(b string) bool {
	switch b {
	case saml.HTTPPostBinding, saml.HTTPRedirectBinding, saml.HTTPArtifactBinding, saml.SOAPBinding, saml.SOAPBindingV1:
		return true
	}
	return false
}

func boolPtr(b bool) *bool    { return &b }
func strPtr(s string) *string { return &s }
func intPtr(i int) *int       { return &i }

func xmlMarshal(v any) ([]byte, error)   { return xml.Marshal(v) }
func xmlUnmarshal(b []byte, v any) error { return xml.Unmarshal(b, v) }
