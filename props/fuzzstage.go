package props

import (
	"fmt"
	"os"
	"os/exec"
	"path/filepath"
	"regexp"
	"strconv"
	"strings"

	"verif/internal/core"
)

var fuzzProgress = regexp.MustCompile(`execs: (\d+) .*new interesting: (\d+) \(total: (\d+)\)`)

// fuzzStage is the coverage-guided part of a check (thorough tier): it runs Go native fuzz targets of ./fuzz with a fixed
// execution budget and turns a failing input into a violation. The monitors inside the targets are the ones the sharded
// workers use (no panic, error contract).
func fuzzStage(d *core.DriveState, targets []string, execs int) {
	if d.Tier != "thorough" {
		d.Notes = append(d.Notes, "coverage-guided stage (Go native fuzzing of ./fuzz) runs in the thorough tier only")
		return
	}
	if v := os.Getenv("VERIF_FUZZ_EXECS"); v != "" {
		if n, err := strconv.Atoi(v); err == nil {
			execs = n
		}
	}
	for _, tg := range targets {
		args := []string{"test"}
		if mf := os.Getenv("VERIF_MODFLAG"); mf != "" {
			args = append(args, mf)
		}
		args = append(args, "-tags", "verif", "-run", "^$", "-fuzz", "^"+tg+"$", "-fuzztime", fmt.Sprintf("%dx", execs), "./fuzz")
		cmd := exec.Command("go", args...)
		cmd.Dir = d.Root
		out, err := cmd.CombinedOutput()
		text := string(out)
		var ex, total int64
		for _, m := range fuzzProgress.FindAllStringSubmatch(text, -1) {
			ex, _ = strconv.ParseInt(m[1], 10, 64)
			total, _ = strconv.ParseInt(m[3], 10, 64)
		}
		d.Counters["fuzz_execs_"+tg] += ex
		d.Counters["fuzz_corpus_entries_"+tg] = total
		d.Evaluations += ex
		if err == nil {
			continue
		}
		// a failing input: go test wrote it under fuzz/testdata/fuzz/<target>/<name>; move it to replays so that it does not
		// poison later runs, and report
		msg := "fuzz target failed"
		for _, l := range strings.Split(text, "\n") {
			l = strings.TrimSpace(l)
			if strings.HasPrefix(l, "PANIC") || strings.HasPrefix(l, "CONTRACT") || strings.Contains(l, "PANIC in") || strings.Contains(l, "CONTRACT ") {
				msg = l
				break
			}
		}
		class := "failure"
		if i := strings.Index(msg, "PANIC in "); i >= 0 {
			class = "panic/" + strings.SplitN(msg[i+9:], ":", 2)[0]
		} else if i := strings.Index(msg, "CONTRACT "); i >= 0 {
			class = "contract/" + strings.SplitN(msg[i+9:], ":", 2)[0]
		}
		var input []byte
		if m := regexp.MustCompile(`testdata/fuzz/` + tg + `/([0-9a-f]+)`).FindStringSubmatch(text); m != nil {
			p := filepath.Join(d.Root, "fuzz", "testdata", "fuzz", tg, m[1])
			input, _ = os.ReadFile(p)
			_ = os.Remove(p)
		}
		if len(input) == 0 && !strings.Contains(text, "FAIL") {
			d.Broken = append(d.Broken, "fuzz stage could not run "+tg+": "+truncate(text, 300))
			continue
		}
		d.AddViolation(d.Spec.ID+"/fuzz/"+tg+"/"+class, msg, map[string]any{"target": tg, "go_fuzz_corpus_file": string(input), "output_tail": lastLines(text, 30)})
	}
}

func lastLines(s string, n int) string {
	l := strings.Split(strings.TrimRight(s, "\n"), "\n")
	if len(l) > n {
		l = l[len(l)-n:]
	}
	return strings.Join(l, "\n")
}
