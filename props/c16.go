//go:build verif

package props

import (
	"crypto/x509"
	"encoding/base64"
	"encoding/json"
	"encoding/pem"
	"fmt"
	"net/http"
	"net/http/httptest"
	"reflect"
	"sort"
	"strings"
	"time"

	"github.com/crewjam/saml"
	"github.com/crewjam/saml/samlsp"
	"github.com/golang-jwt/jwt/v4"

	"verif/internal/core"
	"verif/internal/fx"
	"verif/internal/so"
)

// C16 — only session tokens minted by this SP, unexpired, authenticate a request.

func init() {
	core.RegisterSpec(&core.Spec{
		ID:    "C16",
		Level: "exploration",
		Rule: "deployments (RSA / ECDSA key, default and custom MaxAge / cookie name) mint session tokens from generated assertions (friendly names present/absent, repeated attributes, several statements, absent subject, empty values) and tracking tokens; requests present: minted tokens at clock positions mint-1s, mint, mint+MaxAge-1s, mint+MaxAge+1s, far future; structure-aware mutants (header alg none/None/HS256-384-512 keyed with the public key in DER/PEM/modulus form, RS/ES/PS swaps, typ/kid edits, claim edits with and without re-signing by own key / other key / other deployment's key, aud/iss changed/array/absent, exp/nbf/iat shifted/absent/strings, marker false/absent/string, signature truncated/extended/bit-flipped/empty, 1..4 segments, base64 padding/alphabet variants, white space); cross-codec (tracking token as session cookie) and cross-deployment replays. " +
			"Monitor: the handler wrapped by RequireAccount / RequireAttribute records every invocation and the session it sees. Oracle: handler runs <=> the cookie value (as net/http parses it) is a token this deployment minted (or an own-key token with correct issuer, audience, marker and times) strictly inside its lifetime; exposed subject/attributes equal an independent mapping of the creating assertion; RequireAttribute admits <=> the attribute carries the value. Non-trivial = request reached the session decoder with a cookie; distinct by (deployment, token class, clock position).",
		Assumptions: []string{"exact second boundaries of the lifetime are not judged", "saml.TimeNow and jwt.TimeFunc are moved together"},
		FloorQuick:  20000,
		FloorThor:   80000,
		Run:         runC16,
		LevelText:   "A ledger of minted tokens and a handler-invocation monitor decide, for every presented cookie over a structure-aware mutation space and clock positions, whether the application handler was allowed to run and what identity it saw. Held-on-observed.",
		LevelNote:   "Trusts net/http cookie parsing and golang-jwt for crafting hostile tokens (not for the verdict).",
		Technique:   "runtime monitoring: handler-invocation monitor against a minted-token ledger",
		DesignRef:   "DESIGN.md §5 C16",
	})
}

type c16Dep struct {
	name   string
	m      *samlsp.Middleware
	key    *fx.KeyPair
	cookie string
	maxAge time.Duration
	url    string
	iss    string // issuer and audience of the session codec (both the deployment URL unless configured apart)
	aud    string
	minted map[string]c16Mint
}

type c16Mint struct {
	at        time.Time
	assertion *saml.Assertion
}

func c16NewDep(name, key, rootURL, cookie string, maxAge time.Duration) *c16Dep {
	kp := fx.K(key)
	m, err := samlsp.New(samlsp.Options{URL: mustURL(rootURL), Key: kp.Key, Certificate: kp.Cert, IDPMetadata: so.IDPMetadata("meta-one-signing"), CookieName: cookie})
	if err != nil {
		panic(err)
	}
	d := &c16Dep{name: name, m: m, key: kp, cookie: cookie, maxAge: time.Hour, url: rootURL, minted: map[string]c16Mint{}}
	if d.cookie == "" {
		d.cookie = "token"
	}
	d.iss, d.aud = rootURL, rootURL
	if name == "rsa-split-names" { // a hand-built codec whose issuer and audience are two different names
		sp := m.Session.(samlsp.CookieSessionProvider)
		codec := sp.Codec.(samlsp.JWTSessionCodec)
		codec.Issuer, codec.Audience = "https://issuer.sp.example.com", "https://audience.sp.example.com"
		sp.Codec = codec
		m.Session = sp
		d.iss, d.aud = codec.Issuer, codec.Audience
	}
	if maxAge != 0 {
		sp := m.Session.(samlsp.CookieSessionProvider)
		codec := sp.Codec.(samlsp.JWTSessionCodec)
		codec.MaxAge = maxAge
		sp.Codec = codec
		sp.MaxAge = maxAge
		m.Session = sp
		d.maxAge = maxAge
	}
	return d
}

func c16GenAssertion(c *core.Ctx, o *so.Oracle) *saml.Assertion {
	r := c.Rng
	a := o.Assertion(so.AssertionSpec{RequestID: "r", NameID: "user-" + fmt.Sprint(r.Intn(1000))})
	names := []string{"uid", "mail", "groups", "urn:oid:1.2.3", "role", "", "https://hr.example.com/claims/role", "http://schemas.xmlsoap.org/ws/2005/05/identity/claims/emailaddress", "https://idp.example.com/attr/groups/", "urn:mace:dir:attribute-def:mail"}
	var sts []saml.AttributeStatement
	for s := 1 + r.Intn(3); s > 0; s-- {
		var st saml.AttributeStatement
		for k := r.Intn(5); k > 0; k-- {
			at := saml.Attribute{Name: names[r.Intn(len(names))]}
			if r.Intn(2) == 0 {
				at.FriendlyName = []string{"uid", "eduPersonAffiliation", "mail", "groups"}[r.Intn(4)]
			}
			for v := r.Intn(4); v > 0; v-- {
				at.Values = append(at.Values, saml.AttributeValue{Type: "xs:string", Value: []string{"admin", "user", "", "alice@example.com", "a b", "ünï", "admin "}[r.Intn(7)]})
			}
			st.Attributes = append(st.Attributes, at)
		}
		sts = append(sts, st)
	}
	a.AttributeStatements = sts
	switch r.Intn(6) {
	case 0:
		a.Subject = nil
	case 1:
		a.Subject.NameID = nil
	}
	if r.Intn(4) == 0 {
		a.AuthnStatements = append(a.AuthnStatements, saml.AuthnStatement{SessionIndex: "second-index"})
	}
	if r.Intn(6) == 0 {
		a.AuthnStatements = nil
	}
	// the IdP's own session bound, on either side of any lifetime the SP may be configured with: the SP session
	// lifetime is the configured one whatever the IdP says about its session
	for i := range a.AuthnStatements {
		if off := []time.Duration{0, 0, time.Minute, 3 * time.Hour, 30 * 24 * time.Hour, 20 * 365 * 24 * time.Hour, -time.Hour}[r.Intn(7)]; off != 0 {
			t := fx.Now().Add(off)
			a.AuthnStatements[i].SessionNotOnOrAfter = &t
			c.Count("assertions_with_session_not_on_or_after")
		}
	}
	return a
}

// expected claims mapping, written from the statement
func c16Expected(a *saml.Assertion) (subject string, attrs map[string][]string) {
	attrs = map[string][]string{}
	if a.Subject != nil && a.Subject.NameID != nil {
		subject = a.Subject.NameID.Value
	}
	for _, st := range a.AttributeStatements {
		for _, at := range st.Attributes {
			n := at.FriendlyName
			if n == "" {
				n = at.Name
			}
			for _, v := range at.Values {
				attrs[n] = append(attrs[n], v.Value)
			}
		}
	}
	for _, as := range a.AuthnStatements {
		attrs["SessionIndex"] = append(attrs["SessionIndex"], as.SessionIndex)
	}
	return
}

func (d *c16Dep) mint(c *core.Ctx, a *saml.Assertion) (string, error) {
	rec := httptest.NewRecorder()
	req := httptest.NewRequest("POST", d.url+"/saml/acs", nil)
	if err := d.m.Session.CreateSession(rec, req, a); err != nil {
		return "", err
	}
	for _, ck := range rec.Result().Cookies() {
		if ck.Name == d.cookie {
			d.minted[ck.Value] = c16Mint{at: fx.Now(), assertion: a}
			return ck.Value, nil
		}
	}
	return "", fmt.Errorf("no session cookie set")
}

type c16Seen struct {
	ran     bool
	subject string
	attrs   map[string][]string
}

// present sends a request with the raw Cookie header to a RequireAccount-protected handler.
func (d *c16Dep) present(rawCookieHeader string, attrGate [2]string) (c16Seen, int, string) {
	var seen c16Seen
	app := http.HandlerFunc(func(w http.ResponseWriter, r *http.Request) {
		seen.ran = true
		if s := samlsp.SessionFromContext(r.Context()); s != nil {
			if jc, ok := s.(samlsp.JWTSessionClaims); ok {
				seen.subject = jc.Subject
				seen.attrs = map[string][]string(jc.GetAttributes())
			}
		}
		w.WriteHeader(200)
	})
	var h http.Handler = app
	if attrGate[0] != "" {
		h = samlsp.RequireAttribute(attrGate[0], attrGate[1])(app)
	}
	h = d.m.RequireAccount(h)
	req := httptest.NewRequest("GET", d.url+"/protected", nil)
	if rawCookieHeader != "" {
		req.Header.Set("Cookie", rawCookieHeader)
	}
	presented := ""
	if ck, err := req.Cookie(d.cookie); err == nil {
		presented = ck.Value
	}
	rec := httptest.NewRecorder()
	h.ServeHTTP(rec, req)
	return seen, rec.Code, presented
}

func b64u(b []byte) string { return base64.RawURLEncoding.EncodeToString(b) }

func runC16(c *core.Ctx) {
	so.Quiet()
	fx.ResetTolerances()
	saml.RandReader = fx.NewRecReader(c.Seed)
	o := so.New(c.Rng)
	deps := []*c16Dep{
		c16NewDep("rsa-default", "sp_rsa2048", "https://sp.example.com", "", 0),
		c16NewDep("ec-default", "sp_p256", "https://sp.example.com", "", 0),
		c16NewDep("rsa-custom", "sp_rsa1024", "https://sp.example.com", "sid", 7*time.Minute),
		c16NewDep("rsa-split-names", "sp_rsa2048", "https://sp.example.com", "", 0),
	}
	others := map[string]*c16Dep{
		"same-key-other-url": c16NewDep("same-key-other-url", "sp_rsa2048", "https://other.example.com", "", 0),
		"other-key-same-url": c16NewDep("other-key-same-url", "sp2_rsa2048", "https://sp.example.com", "", 0),
		"ec-other-key":       c16NewDep("ec-other-key", "sp_p384", "https://sp.example.com", "", 0),
	}
	n := c.Pick(2600, 50000)
	for i := 0; i < n; i++ {
		if !c.Mine(i) {
			continue
		}
		d := deps[c.Rng.Intn(len(deps))]
		mintAt := fx.Epoch.Add(time.Duration(c.Rng.Intn(100000)) * time.Second)
		fx.SetNow(mintAt)
		a := c16GenAssertion(c, o)
		tok, err := d.mint(c, a)
		if err != nil {
			c.Violation("C16/mint-error", err.Error(), nil)
			continue
		}
		c16ClockLattice(c, d, tok, mintAt, a)
		c16Mutants(c, d, tok, mintAt, a, others)
		c16AttrGate(c, d, tok, mintAt, a)
	}
}

func c16Judge(c *core.Ctx, d *c16Dep, desc, class string, header string, at time.Time, mustAdmit, mustRefuse bool, wantA *saml.Assertion, gate [2]string) {
	fx.SetNow(at)
	c.Journal("C16 " + desc)
	var seen c16Seen
	var code int
	var presented string
	p, pv, frame, _ := core.Guard(func() { seen, code, presented = d.present(header, gate) })
	c.Eval()
	replay := map[string]any{"case": desc, "deployment": d.name, "cookie_header": truncate(header, 3000), "clock": at.Format(time.RFC3339), "status": code}
	if p {
		c.Violation("C16/panic/"+frame+"/"+panicClass(pv), fmt.Sprintf("panic %v (%s)", pv, desc), replay)
		return
	}
	if presented != "" {
		c.Nontrivial(fmt.Sprintf("%s|%s|%x|%d", d.name, desc, fnvStr(presented), at.Unix()))
	}
	switch {
	case seen.ran && mustRefuse:
		c.Violation("C16/admitted/"+class, fmt.Sprintf("application handler ran for %s (%s)", class, desc), replay)
		return
	case !seen.ran && mustAdmit:
		c.Violation("C16/refused-valid/"+class, fmt.Sprintf("handler did not run (status %d) for a minted token inside its lifetime (%s)", code, desc), replay)
		return
	}
	if seen.ran && wantA != nil && gate[0] == "" {
		ws, wa := c16Expected(wantA)
		if seen.subject != ws {
			c.Violation("C16/subject-differs", fmt.Sprintf("handler saw subject %q, assertion had %q (%s)", seen.subject, ws, desc), replay)
			return
		}
		if !attrsEqual(seen.attrs, wa) {
			c.Violation("C16/attributes-differ", fmt.Sprintf("handler saw attributes %v, independent mapping gives %v (%s)", seen.attrs, wa, desc), replay)
			return
		}
		c.Count("identities_compared")
	}
	if seen.ran {
		c.Count("admitted")
	} else {
		c.Count("refused")
		c.Observe("refusal_status", fmt.Sprint(code))
	}
	c.Observe("token_classes_attempted", class)
}

func attrsEqual(a, b map[string][]string) bool {
	if len(a) != len(b) {
		return false
	}
	for k, v := range a {
		if !reflect.DeepEqual(v, b[k]) && !(len(v) == 0 && len(b[k]) == 0) {
			return false
		}
	}
	return true
}

func c16ClockLattice(c *core.Ctx, d *c16Dep, tok string, mintAt time.Time, a *saml.Assertion) {
	h := d.cookie + "=" + tok
	none := [2]string{}
	c16Judge(c, d, "minted@mint-1s", "minted-before-issue", h, mintAt.Add(-time.Second), false, true, a, none)
	c16Judge(c, d, "minted@mint", "minted-valid", h, mintAt, true, false, a, none)
	c16Judge(c, d, "minted@mint+1s", "minted-valid", h, mintAt.Add(time.Second), true, false, a, none)
	c16Judge(c, d, "minted@mid", "minted-valid", h, mintAt.Add(d.maxAge/2), true, false, a, none)
	c16Judge(c, d, "minted@expiry-1s", "minted-valid", h, mintAt.Add(d.maxAge-time.Second), true, false, a, none)
	c16Judge(c, d, "minted@expiry+1s", "minted-expired", h, mintAt.Add(d.maxAge+time.Second), false, true, a, none)
	c16Judge(c, d, "minted@far-future", "minted-expired", h, mintAt.Add(1000*d.maxAge), false, true, a, none)
	c16Judge(c, d, "minted@far-past", "minted-before-issue", h, mintAt.Add(-24*time.Hour), false, true, a, none)
	// other cookie names / no cookie
	c16Judge(c, d, "no-cookie", "no-cookie", "", mintAt, false, true, nil, none)
	c16Judge(c, d, "token-under-other-name", "wrong-cookie-name", "other="+tok, mintAt, false, true, nil, none)
	c16Judge(c, d, "padded-header", "minted-valid", "x=1; "+d.cookie+"="+tok+"; y=2", mintAt, true, false, a, none)
}

func pubForms(kp *fx.KeyPair) map[string][]byte {
	der, _ := x509.MarshalPKIXPublicKey(kp.Key.Public())
	out := map[string][]byte{"pkix-der": der, "pkix-pem": pem.EncodeToMemory(&pem.Block{Type: "PUBLIC KEY", Bytes: der}), "cert-der": kp.Cert.Raw, "cert-pem": pem.EncodeToMemory(&pem.Block{Type: "CERTIFICATE", Bytes: kp.Cert.Raw}), "empty": {}}
	if r := kp.RSA(); r != nil {
		out["modulus"] = r.N.Bytes()
		out["pkcs1-der"] = x509.MarshalPKCS1PublicKey(&r.PublicKey)
	}
	return out
}

func c16Mutants(c *core.Ctx, d *c16Dep, tok string, mintAt time.Time, a *saml.Assertion, others map[string]*c16Dep) {
	r := c.Rng
	none := [2]string{}
	segs := strings.Split(tok, ".")
	hdrJSON, _ := base64.RawURLEncoding.DecodeString(segs[0])
	clJSON, _ := base64.RawURLEncoding.DecodeString(segs[1])
	sig, _ := base64.RawURLEncoding.DecodeString(segs[2])
	var hdr, claims map[string]any
	_ = json.Unmarshal(hdrJSON, &hdr)
	_ = json.Unmarshal(clJSON, &claims)
	at := mintAt.Add(time.Duration(r.Intn(int(d.maxAge.Seconds())-2)+1) * time.Second)
	refuse := func(desc, class, value string) {
		if _, same := d.minted[value]; same {
			return // the "mutation" left the token unchanged
		}
		c16Judge(c, d, desc, class, d.cookie+"="+value, at, false, true, nil, none)
	}
	enc := func(h, cl map[string]any) string {
		hb, _ := json.Marshal(h)
		cb, _ := json.Marshal(cl)
		return b64u(hb) + "." + b64u(cb)
	}
	clone := func(m map[string]any) map[string]any {
		o := map[string]any{}
		for k, v := range m {
			o[k] = v
		}
		return o
	}
	// --- raw string damage
	refuse("sig-truncated", "signature-damaged", segs[0]+"."+segs[1]+"."+segs[2][:len(segs[2])/2])
	refuse("sig-empty", "signature-damaged", segs[0]+"."+segs[1]+".")
	refuse("sig-extended", "signature-damaged", tok+"AA")
	fl := append([]byte(nil), sig...)
	fl[r.Intn(len(fl))] ^= 1 << uint(r.Intn(8))
	refuse("sig-bitflip", "signature-damaged", segs[0]+"."+segs[1]+"."+b64u(fl))
	refuse("one-segment", "segment-count", segs[0])
	refuse("two-segments", "segment-count", segs[0]+"."+segs[1])
	refuse("four-segments", "segment-count", tok+"."+segs[2])
	refuse("empty-segments", "segment-count", "..")
	refuse("std-alphabet", "base64-variant", strings.NewReplacer("-", "+", "_", "/").Replace(tok)+"")
	refuse("padded-sig", "base64-variant", tok+"==")
	refuse("padded-claims", "base64-variant", segs[0]+"."+segs[1]+"=."+segs[2])
	refuse("inner-space", "whitespace", segs[0]+". "+segs[1]+"."+segs[2])
	refuse("swapped-segments", "segment-order", segs[1]+"."+segs[0]+"."+segs[2])
	refuse("garbage", "garbage", "not-a-token")
	// claims edited, signature kept
	for _, ed := range []struct {
		name string
		f    func(cl map[string]any)
	}{
		{"exp+1y", func(cl map[string]any) { cl["exp"] = float64(mintAt.Add(8760 * time.Hour).Unix()) }},
		{"sub-admin", func(cl map[string]any) { cl["sub"] = "admin" }},
		{"attr-admin", func(cl map[string]any) { cl["attr"] = map[string]any{"groups": []string{"admin"}} }},
	} {
		cl := clone(claims)
		ed.f(cl)
		refuse("claims-edited-sig-kept:"+ed.name, "claims-edited-signature-kept", enc(hdr, cl)+"."+segs[2])
	}
	// header edited, signature kept
	for _, ed := range []struct{ k, v string }{{"alg", "none"}, {"alg", "None"}, {"alg", "HS256"}, {"typ", "JWS"}, {"kid", "x"}} {
		h := clone(hdr)
		h[ed.k] = ed.v
		refuse("header-edited-sig-kept:"+ed.k+"="+ed.v, "header-edited-signature-kept", enc(h, claims)+"."+segs[2])
		refuse("header-edited-no-sig:"+ed.k+"="+ed.v, "header-edited-no-signature", enc(h, claims)+".")
	}
	// --- algorithm substitution with real signatures
	for _, alg := range []string{"none", "None", "NONE", "nOnE"} {
		h := clone(hdr)
		h["alg"] = alg
		refuse("alg-"+alg, "alg-none", enc(h, claims)+".")
	}
	for form, secret := range pubForms(d.key) {
		for _, m := range []jwt.SigningMethod{jwt.SigningMethodHS256, jwt.SigningMethodHS384, jwt.SigningMethodHS512} {
			if r.Intn(3) != 0 {
				continue
			}
			h := clone(hdr)
			h["alg"] = m.Alg()
			in := enc(h, claims)
			s, err := m.Sign(in, secret)
			if err != nil {
				continue
			}
			refuse("hmac-"+m.Alg()+"-keyed-with-public-"+form, "alg-hmac-public-key", in+"."+s)
		}
	}
	if d.key.IsRSA() {
		for _, m := range []jwt.SigningMethod{jwt.SigningMethodRS256, jwt.SigningMethodRS384, jwt.SigningMethodRS512, jwt.SigningMethodPS256} {
			if m.Alg() == fmt.Sprint(hdr["alg"]) {
				continue // that is the algorithm this deployment mints with (read off its own token), not another one
			}
			h := clone(hdr)
			h["alg"] = m.Alg()
			in := enc(h, claims)
			if s, err := m.Sign(in, d.key.Key); err == nil {
				// own key but another algorithm than the deployment's configured one: the allowed-methods list must refuse it
				refuse("own-key-alg-"+m.Alg(), "own-key-other-algorithm", in+"."+s)
			}
		}
		h := clone(hdr)
		h["alg"] = "ES256"
		in := enc(h, claims)
		if s, err := jwt.SigningMethodES256.Sign(in, fx.K("sp_p256").Key); err == nil {
			refuse("es256-other-key", "alg-swap-other-key", in+"."+s)
		}
	} else {
		for _, m := range []jwt.SigningMethod{jwt.SigningMethodRS256} {
			h := clone(hdr)
			h["alg"] = m.Alg()
			in := enc(h, claims)
			if s, err := m.Sign(in, fx.K("sp_rsa2048").Key); err == nil {
				refuse("rs256-other-key", "alg-swap-other-key", in+"."+s)
			}
		}
	}
	// --- re-signed claims: own key (positive / negative controls), other keys
	ownMethod := jwt.SigningMethod(jwt.SigningMethodRS256)
	if !d.key.IsRSA() {
		ownMethod = jwt.SigningMethodES256
	}
	if m := jwt.GetSigningMethod(fmt.Sprint(hdr["alg"])); m != nil { // whatever the deployment itself mints with
		ownMethod = m
	}
	resign := func(cl map[string]any, kp *fx.KeyPair) string {
		in := enc(hdr, cl)
		s, err := ownMethod.Sign(in, kp.Key)
		if err != nil {
			return ""
		}
		return in + "." + s
	}
	type ed struct {
		name  string
		f     func(cl map[string]any)
		valid bool
	}
	// spellings of the same claims that a codec may or may not read as equal (no verdict either way)
	noVerdict := map[string]bool{"aud-array": true}
	eds := []ed{
		{"unchanged", func(cl map[string]any) {}, true},
		{"aud-other", func(cl map[string]any) { cl["aud"] = "https://other.example.com" }, false},
		{"aud-absent", func(cl map[string]any) { delete(cl, "aud") }, false},
		{"aud-empty", func(cl map[string]any) { cl["aud"] = "" }, false},
		{"aud-array", func(cl map[string]any) { cl["aud"] = []string{d.aud} }, false},
		{"aud-prefix", func(cl map[string]any) { cl["aud"] = d.aud[:len(d.aud)-1] }, false},
		// issuer and audience are separate claims: each is compared with its own configured name (indistinguishable, hence
		// still valid, when the deployment uses one name for both)
		{"iss-is-audience-name", func(cl map[string]any) { cl["iss"] = d.aud }, d.iss == d.aud},
		{"aud-is-issuer-name", func(cl map[string]any) { cl["aud"] = d.iss }, d.iss == d.aud},
		{"iss-aud-swapped", func(cl map[string]any) { cl["iss"], cl["aud"] = d.aud, d.iss }, d.iss == d.aud},
		{"iss-other", func(cl map[string]any) { cl["iss"] = "https://other.example.com" }, false},
		{"iss-absent", func(cl map[string]any) { delete(cl, "iss") }, false},
		{"marker-false", func(cl map[string]any) { cl["saml-session"] = false }, false},
		{"marker-absent", func(cl map[string]any) { delete(cl, "saml-session") }, false},
		{"marker-string", func(cl map[string]any) { cl["saml-session"] = "true" }, false},
		{"marker-one", func(cl map[string]any) { cl["saml-session"] = 1 }, false},
		{"tracking-marker-instead", func(cl map[string]any) { delete(cl, "saml-session"); cl["saml-authn-request"] = true }, false},
		{"exp-past", func(cl map[string]any) { cl["exp"] = float64(at.Add(-time.Minute).Unix()) }, false},
		{"nbf-future", func(cl map[string]any) { cl["nbf"] = float64(at.Add(time.Minute).Unix()) }, false},
		{"iat-future", func(cl map[string]any) { cl["iat"] = float64(at.Add(time.Minute).Unix()) }, false},
		{"exp-string", func(cl map[string]any) { cl["exp"] = "never" }, false},
	}
	for _, e := range eds {
		cl := clone(claims)
		e.f(cl)
		if t := resign(cl, d.key); t != "" {
			if noVerdict[e.name] {
				c16Judge(c, d, "own-key-resigned:"+e.name, "own-key-equivalent-spelling", d.cookie+"="+t, at, false, false, a, none)
			} else if e.valid {
				c16Judge(c, d, "own-key-resigned:"+e.name, "own-key-valid-claims", d.cookie+"="+t, at, true, false, a, none)
			} else {
				refuse("own-key-resigned:"+e.name, "own-key-invalid-claims:"+e.name, t)
			}
		}
		otherKey := fx.K("sp2_rsa2048")
		if !d.key.IsRSA() {
			otherKey = fx.K("sp_p384")
			if d.key.Name == "sp_p256" {
				otherKey = fx.K("idp_ec")
			}
		}
		if r.Intn(3) == 0 {
			if t := resign(cl, otherKey); t != "" {
				refuse("other-key-resigned:"+e.name, "other-key", t)
			}
		}
	}
	// --- cross-codec: a tracking token of the same deployment presented as session cookie
	{
		rec := httptest.NewRecorder()
		fx.SetNow(at)
		req := httptest.NewRequest("GET", d.url+"/deep/link", nil)
		if _, err := d.m.RequestTracker.TrackRequest(rec, req, "id-req-123"); err == nil {
			for _, ck := range rec.Result().Cookies() {
				if strings.HasPrefix(ck.Name, "saml_") {
					refuse("tracking-token-as-session", "tracking-token", ck.Value)
				}
			}
		}
	}
	// --- cross-deployment
	for name, od := range others {
		if od.key.IsRSA() != d.key.IsRSA() && name != "same-key-other-url" {
			continue
		}
		if name == "same-key-other-url" && d.key.Name != "sp_rsa2048" {
			continue
		}
		fx.SetNow(at)
		if t, err := od.mint(c, a); err == nil {
			if c.Rng.Intn(2) == 0 {
				// the token is used where it belongs first (and accepted there), then replayed here: what another deployment
				// in the same process has verified is no credential for this one
				c16Judge(c, od, "own-token-at-origin:"+name, "origin-accepts-own-token", od.cookie+"="+t, at, true, false, a, none)
				refuse("token-of-"+name+"-after-use-at-origin", "other-deployment-after-use:"+name, t)
			} else {
				refuse("token-of-"+name, "other-deployment:"+name, t)
			}
		}
	}
}

func c16AttrGate(c *core.Ctx, d *c16Dep, tok string, mintAt time.Time, a *saml.Assertion) {
	_, attrs := c16Expected(a)
	var names []string
	for k := range attrs {
		names = append(names, k)
	}
	sort.Strings(names)
	names = append(names, "absent-attribute", "")
	h := d.cookie + "=" + tok
	for _, n := range names {
		if n == "" {
			continue
		}
		for _, v := range []string{"admin", "user", "", "admin ", "Admin", "adm"} {
			has := false
			for _, x := range attrs[n] {
				if x == v {
					has = true
				}
			}
			c16Judge(c, d, fmt.Sprintf("gate %q=%q has=%v", n, v, has), "attribute-gate", h, mintAt.Add(time.Minute), has, !has, a, [2]string{n, v})
		}
	}
	// gate with an invalid token never admits
	c16Judge(c, d, "gate-with-garbage-token", "attribute-gate-no-session", d.cookie+"=garbage", mintAt.Add(time.Minute), false, true, nil, [2]string{"groups", "admin"})
}
