package props

import (
	"errors"
	"fmt"
	"net/http"
	"strings"

	"github.com/crewjam/saml"

	"verif/internal/core"
	"verif/internal/fx"
	"verif/internal/so"
)

// C04 — SP accepts only responses to requests it has outstanding (unless IdP-initiated).

func init() {
	core.RegisterSpec(&core.Spec{
		ID:    "C04",
		Level: "exploration",
		Rule: "validly signed, otherwise fully valid responses; outstanding-ID sets {empty, {id}, {id,id2}, {\"\"}, {id,\"\"}, {id+x}, {id minus last char}, {upper(id)}} x InResponseTo {id, id2, other, proper prefix, suffix-extended, empty attribute, absent} at the Response and at each of 1-2 subject confirmations " +
			"x AllowIDPInitiated on/off x custom ValidateRequestID {none, returns nil, returns error} x entry points {XML, POST form, artifact XML, artifact over a scripted HTTP resolver answering with same/other/empty/absent/previous resolve ID}. The complete cross product for the single-confirmation shape is enumerated; two-confirmation shapes are sampled. " +
			"Non-trivial = reached request-ID validation (signature verified); distinct by the full case vector.",
		Assumptions: []string{"with a custom ValidateRequestID only 'accepted => validator was called and returned nil' and 'validator error => rejected' are judged"},
		FloorQuick:  1200,
		FloorThor:   4000,
		Exhaustive:  true,
		Run:         runC04,
		LevelText:   "Complete cross product of outstanding-ID sets and InResponseTo values at both levels for every entry point on validly signed messages, judged by set membership computed by the harness; the artifact resolver is scripted so the binding of ArtifactResponse to the just-issued ArtifactResolve is observed on the wire. Held-on-observed.",
		LevelNote:   "Trusts goxmldsig for signing; ID comparison in the oracle is Go string equality.",
		Technique:   "runtime monitoring: request-ID membership oracle, scripted artifact resolver",
		DesignRef:   "DESIGN.md §5 C04",
	})
}

const (
	c04ID  = "id-0f1e2d3c4b5a69788796a5b4c3d2e1f0a1b2c3d4"
	c04ID2 = "id-aaaaaaaaaaaaaaaaaaaaaaaaaaaaaaaaaaaaaaaa"
)

var c04Sets = []struct {
	name string
	ids  []string
}{
	{"empty", nil}, {"{id}", []string{c04ID}}, {"{id,id2}", []string{c04ID, c04ID2}}, {"{\"\"}", []string{""}}, {"{id,\"\"}", []string{c04ID, ""}},
	{"{id+x}", []string{c04ID + "x"}}, {"{id-1}", []string{c04ID[:len(c04ID)-1]}}, {"{ID}", []string{strings.ToUpper(c04ID)}}, {"{id2}", []string{c04ID2}},
}

var c04IRT = []fieldVal{{kind: "id", val: c04ID}, {kind: "id2", val: c04ID2}, {kind: "other", val: "id-other"}, {kind: "prefix", val: c04ID[:10]}, {kind: "suffix", val: c04ID + "x"}, {kind: "empty", val: ""}, {kind: "absent", absent: true}}

type c04Case struct {
	set             int
	resp            fieldVal
	confs           []fieldVal
	allowIDP        bool
	validator       int
	entry           int // 0 xml 1 post 2 artifact-xml 3 artifact-http
	arIRT           int // artifact: 0 same 1 other 2 prefix 3 empty 4 absent 5 previous resolve id (http only)
	arSigned        bool
	layout          int
	methods         []int // confirmation Method per confirmation (index into confMethods)
	firstFail       int   // artifact over HTTP: 0 none; 1 the first back-channel call fails (transport error), 2 answers 503; any further call is answered with the FIRST request's ID
	respIsResolveID bool  // artifact entries, unsigned Response: its InResponseTo is the ID of the ArtifactResolve request (a back-channel ID, never one the caller declared outstanding)
	noDest          bool  // Response carries no Destination (only meaningful when the Response itself is unsigned, layout 1)
}

func (k c04Case) String() string {
	var cs []string
	for _, f := range k.confs {
		cs = append(cs, f.kind)
	}
	return fmt.Sprintf("P=%s resp=%s conf=[%s] allowIDP=%v validator=%d entry=%d arIRT=%d arSigned=%v layout=%d nodest=%v methods=%v firstFail=%d respIsResolveID=%v", c04Sets[k.set].name, k.resp.kind, strings.Join(cs, ","), k.allowIDP, k.validator, k.entry, k.arIRT, k.arSigned, k.layout, k.noDest, k.methods, k.firstFail, k.respIsResolveID)
}

func inSet(ids []string, v string) bool {
	for _, i := range ids {
		if i == v {
			return true
		}
	}
	return false
}

func runC04(c *core.Ctx) {
	fx.SetNow(fx.Epoch)
	fx.ResetTolerances()
	o := so.New(c.Rng)
	idx := 0
	mine := func() bool { idx++; return c.Mine(idx) }
	// complete cross product, one confirmation, default flags, XML entry + sampled other entries
	for set := range c04Sets {
		for _, r := range c04IRT {
			for _, cf := range c04IRT {
				for entry := 0; entry < 4; entry++ {
					if !mine() {
						continue
					}
					c04Run(c, o, c04Case{set: set, resp: r, confs: []fieldVal{cf}, entry: entry, layout: (set + entry) % 2, arSigned: set%2 == 0})
					if entry < 2 {
						c04Run(c, o, c04Case{set: set, resp: r, confs: []fieldVal{cf}, entry: entry, layout: 1, noDest: true})
					}
				}
				for _, allow := range []bool{false, true} {
					for v := 0; v < 3; v++ {
						if !allow && v == 0 {
							continue
						}
						if !mine() {
							continue
						}
						c04Run(c, o, c04Case{set: set, resp: r, confs: []fieldVal{cf}, allowIDP: allow, validator: v, entry: c.Rng.Intn(2), layout: c.Rng.Intn(2)})
					}
				}
			}
		}
	}
	// assertions without any subject confirmation: only the Response-level check stands between P and acceptance
	for set := range c04Sets {
		for _, r := range c04IRT {
			for entry := 0; entry < 4; entry++ {
				for layout := 0; layout < 2; layout++ {
					if !mine() {
						continue
					}
					c04Run(c, o, c04Case{set: set, resp: r, confs: nil, entry: entry, layout: layout, arSigned: layout == 0})
				}
			}
		}
	}
	// artifact binding of ArtifactResponse.InResponseTo
	for arIRT := 0; arIRT < 6; arIRT++ {
		for set := range c04Sets {
			for _, entry := range []int{2, 3} {
				for _, signed := range []bool{false, true} {
					if !mine() {
						continue
					}
					c04Run(c, o, c04Case{set: set, resp: c04IRT[0], confs: []fieldVal{c04IRT[0]}, entry: entry, arIRT: arIRT, arSigned: signed, layout: set % 2})
				}
			}
		}
	}
	// two confirmations and random mixes
	n := c.Pick(9000, 120000)
	for i := 0; i < n; i++ {
		if !mine() {
			continue
		}
		k := c04Case{set: c.Rng.Intn(len(c04Sets)), resp: c04IRT[c.Rng.Intn(len(c04IRT))], entry: c.Rng.Intn(4), layout: c.Rng.Intn(2), arSigned: c.Rng.Intn(2) == 0}
		k.confs = []fieldVal{c04IRT[c.Rng.Intn(len(c04IRT))], c04IRT[c.Rng.Intn(len(c04IRT))]}
		if c.Rng.Intn(8) == 0 {
			k.confs = nil
		}
		if c.Rng.Intn(3) == 0 && len(k.confs) == 2 {
			k.resp, k.confs[c.Rng.Intn(2)] = c04IRT[0], c04IRT[0] // mostly-right cases
		}
		if c.Rng.Intn(6) == 0 {
			k.allowIDP = true
		}
		if c.Rng.Intn(6) == 0 {
			k.validator = 1 + c.Rng.Intn(2)
		}
		if k.entry >= 2 && c.Rng.Intn(4) == 0 {
			k.arIRT = c.Rng.Intn(6)
		}
		k.noDest = k.layout == 1 && c.Rng.Intn(3) == 0
		k.methods = pickConfMethods(c.Rng, len(k.confs))
		if k.entry == 3 && c.Rng.Intn(4) == 0 {
			k.firstFail = 1 + c.Rng.Intn(2)
		}
		if k.entry >= 2 && k.firstFail == 0 && c.Rng.Intn(5) == 0 {
			k.respIsResolveID, k.layout, k.resp = true, 1, fieldVal{kind: "artifact-resolve-id", val: "<set at delivery>"}
		}
		c04Run(c, o, k)
	}
}

func c04Run(c *core.Ctx, o *so.Oracle, k c04Case) {
	o.Reset()
	c.Journal("C04 " + k.String())
	if c04LiveSP == nil { // one SP object per process, reconfigured in place: earlier cases must not matter
		c04LiveSP = so.NewSP("meta-one-signing", fx.K("sp_rsa2048"))
	}
	sp := c04LiveSP
	sp.ValidateRequestID = nil
	sp.AllowIDPInitiated = k.allowIDP
	calls := 0
	ids := c04Sets[k.set].ids
	switch k.validator {
	case 1:
		sp.ValidateRequestID = func(saml.Response, []string) error { calls++; return nil }
	case 2:
		sp.ValidateRequestID = func(saml.Response, []string) error { calls++; return errors.New("application says no") }
	}
	s1 := fx.K("idp_s1")
	a := o.Assertion(so.AssertionSpec{RequestID: "placeholder"})
	if len(k.confs) == 0 {
		a.Subject.SubjectConfirmations = nil
	}
	if len(k.confs) == 2 {
		sc := a.Subject.SubjectConfirmations[0]
		d := *sc.SubjectConfirmationData
		sc.SubjectConfirmationData = &d
		a.Subject.SubjectConfirmations = append(a.Subject.SubjectConfirmations, sc)
	}
	ael := a.Element()
	for i, scd := range ael.FindElements("./Subject/SubjectConfirmation/SubjectConfirmationData") {
		setOrRemoveAttr(scd, "InResponseTo", k.confs[i])
	}
	setConfMethods(ael, k.methods)
	var err error
	if k.layout == 1 {
		if ael, err = o.Sign(ael, s1, ""); err != nil {
			c.Inconclusive("sign: " + err.Error())
			return
		}
	}
	rel := so.ResponseEl(o.Response("placeholder", fx.Now()), ael)
	setOrRemoveAttr(rel, "InResponseTo", k.resp)
	if k.noDest && k.layout == 1 {
		rel.RemoveAttr("Destination")
		c.Count("responses_without_destination")
	}
	if k.layout == 0 {
		if rel, err = o.Sign(rel, s1, ""); err != nil {
			c.Inconclusive("sign: " + err.Error())
			return
		}
	}
	raw := so.Bytes(rel)
	cur := mustURL(so.SPACS)
	var got *saml.Assertion
	var perr error
	sent := raw
	arBound := true // ArtifactResponse answers exactly the resolve request
	const artReq = "id-artifactresolve-0123456789"
	mkAR := func(resolveID string, prevID string) []byte {
		irt := fieldVal{val: resolveID}
		switch k.arIRT {
		case 1:
			irt.val = "id-some-other-resolve"
		case 2:
			if len(resolveID) > 4 {
				irt.val = resolveID[:len(resolveID)-4]
			} else {
				irt.val = "x"
			}
		case 3:
			irt.val = ""
		case 4:
			irt.absent = true
		case 5:
			irt.val = prevID
		}
		arBound = !irt.absent && irt.val == resolveID
		if resolveID == "" && (irt.absent || irt.val == "") {
			arBound = true
		}
		inner, _ := so.Parse(raw)
		if k.respIsResolveID && inner != nil {
			inner.CreateAttr("InResponseTo", resolveID)
			k.resp.val = resolveID
		}
		ar := o.ArtifactResponseEl("x", fx.Now(), inner)
		setOrRemoveAttr(ar, "InResponseTo", irt)
		if k.arSigned {
			ar, _ = o.Sign(ar, s1, "")
		}
		return so.Bytes(so.SOAP(ar))
	}
	resolverCalls := 0
	p, pv, frame, _ := core.Guard(func() {
		switch k.entry {
		case 0:
			got, perr = sp.ParseXMLResponse(raw, ids, cur)
		case 1:
			got, perr = so.DeliverPOST(sp, raw, ids, cur)
		case 2:
			sent = mkAR(artReq, "id-previous-resolve")
			got, perr = sp.ParseXMLArtifactResponse(sent, ids, artReq, cur)
		case 3:
			prev := ""
			if k.arIRT == 5 { // make a first resolution so that a "previous" ID exists
				_, _ = so.DeliverArtifactHTTP(sp, ids, cur, func(id string, _ *http.Request, _ []byte) (*http.Response, error) {
					prev = id
					return so.HTTPResponse(500, strings.NewReader("")), nil
				})
			}
			firstID := ""
			got, perr = so.DeliverArtifactHTTP(sp, ids, cur, func(id string, r *http.Request, body []byte) (*http.Response, error) {
				resolverCalls++
				if k.firstFail != 0 {
					// the first exchange fails; should the SP try again, the answer it gets is the (late) one to the FIRST
					// request - it does not answer the request just issued and must not be accepted
					if resolverCalls == 1 {
						firstID = id
						if k.firstFail == 1 {
							return nil, errors.New("injected: connection reset by peer")
						}
						return so.HTTPResponse(503, strings.NewReader("")), nil
					}
					sent = mkAR(firstID, "")
					arBound = firstID == id
					return so.OK200(sent)
				}
				if id == "" {
					c.Violation("C04/artifact/resolve-without-id", "ArtifactResolve sent without ID: "+string(trunc(body, 300)), nil)
				}
				if prev == id && prev != "" {
					c.Violation("C04/artifact/resolve-id-reused", "two ArtifactResolve requests share an ID", nil)
				}
				sent = mkAR(id, prev)
				return so.OK200(sent)
			})
		}
	})
	c.Eval()
	replay := map[string]any{"case": k.String(), "message": string(sent), "possible_ids": ids}
	if p {
		c.Violation("C04/panic/"+frame, fmt.Sprintf("panic %v", pv), replay)
		return
	}
	if k.entry == 3 && k.firstFail != 0 {
		c.Count("artifact_first_exchange_failed")
		if perr == nil {
			c.Violation("C04/accepted-unsolicited/artifact-not-bound/answer-to-earlier-resolve", fmt.Sprintf("accepted an ArtifactResponse that answers an earlier ArtifactResolve (first exchange failed, %d calls) (%s)", resolverCalls, k), replay)
		}
		c.Nontrivial(k.String())
		return
	}
	priv := ""
	if ire, ok := perr.(*saml.InvalidResponseError); ok && ire.PrivateErr != nil {
		priv = ire.PrivateErr.Error()
	}
	if strings.Contains(priv, "cannot validate signature") || strings.Contains(priv, "invalid xml") || strings.Contains(priv, "cannot resolve artifact") {
		c.Inconclusive("oracle fixture failed before ID validation: " + truncate(priv, 80))
		return
	}
	if k.entry == 3 && resolverCalls != 1 {
		c.Violation("C04/artifact/resolver-calls", fmt.Sprintf("resolver called %d times", resolverCalls), replay)
	}
	c.Nontrivial(k.String())

	respOK := inSet(ids, k.resp.val)
	confOK := true
	for _, f := range k.confs {
		confOK = confOK && inSet(ids, f.val)
	}
	artifact := k.entry >= 2
	var acceptRequired, rejectRequired bool
	switch {
	case artifact && !arBound:
		rejectRequired = true
	case k.validator == 2:
		rejectRequired = true
	case k.validator == 1:
		// custom validator: no ID verdict (the confirmation level is still checked by the library unless IdP-initiated is allowed)
		if k.allowIDP {
			acceptRequired = respOK && confOK
		}
	case k.allowIDP:
		// IdP-initiated login allowed: the "only if" part is waived, nothing more. What stays required is that a valid
		// response to an outstanding request is accepted; what an implementation does with other IDs is its own business
		acceptRequired = respOK && confOK
	default:
		acceptRequired = respOK && confOK
		rejectRequired = !acceptRequired
	}
	switch {
	case perr == nil && rejectRequired:
		cls := "response-level"
		switch {
		case artifact && !arBound:
			cls = fmt.Sprintf("artifact-not-bound/arIRT%d", k.arIRT)
		case k.validator == 2:
			cls = "validator-error-ignored"
		case respOK && !confOK:
			cls = "confirmation-level"
		case !respOK && !confOK:
			cls = "both-levels"
		}
		detail := fmt.Sprintf("/P=%s/resp=%s", c04Sets[k.set].name, k.resp.kind)
		if cls == "confirmation-level" && len(k.confs) > 0 {
			detail = fmt.Sprintf("/P=%s/conf=%s", c04Sets[k.set].name, k.confs[len(k.confs)-1].kind)
		}
		if strings.HasPrefix(cls, "artifact") || cls == "validator-error-ignored" {
			detail = ""
		}
		c.Violation("C04/accepted-unsolicited/"+cls+detail, fmt.Sprintf("accepted although InResponseTo is not outstanding (%s)", k), replay)
	case perr != nil && acceptRequired:
		c.Violation("C04/rejected-outstanding/"+truncate(strings.Map(keyChar, priv), 50), fmt.Sprintf("rejected (%s) a valid response to an outstanding request (%s)", priv, k), replay)
	case perr == nil:
		if got == nil {
			c.Violation("C04/nil-nil", "nil assertion with nil error", replay)
		}
		if k.validator != 0 && calls == 0 {
			c.Violation("C04/validator-not-called", "accepted without calling ValidateRequestID", replay)
		}
		c.Count("accepted_ok")
	default:
		c.Count("rejected_ok")
	}
	if !acceptRequired && !rejectRequired {
		c.Count("no_verdict_custom_validator")
	}
	c.Observe("outstanding_sets", c04Sets[k.set].name)
	c.SampleSome(map[string]any{"case": k.String(), "accepted": perr == nil, "private_err": priv})
}

var c04LiveSP *saml.ServiceProvider
