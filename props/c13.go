package props

import (
	"crypto"
	"crypto/ecdsa"
	"crypto/rsa"
	"crypto/x509"
	"encoding/base64"
	"encoding/xml"
	"fmt"
	"github.com/crewjam/saml/samlsp"
	"net/http"
	"net/http/httptest"
	"net/url"
	"regexp"
	"strings"

	"github.com/beevik/etree"
	"github.com/crewjam/saml"

	"verif/internal/core"
	"verif/internal/fx"
	"verif/internal/htmlmon"
	"verif/internal/so"
)

// C13 — signatures on SP outbound messages verify under the SP's published certificate.

func init() {
	core.RegisterSpec(&core.Spec{
		ID:    "C13",
		Level: "exploration",
		Rule: "8 signature-method URIs (4 RSA, 4 ECDSA) plus unknown/empty-forced URIs x SP keys {RSA 1024/2048/3072/4096, ECDSA P-256/384/521} x message kinds {AuthnRequest redirect (detached query signature), AuthnRequest POST, LogoutRequest redirect/POST, LogoutResponse redirect/POST, ArtifactResolve captured at a scripted resolver} x relay states (URL metacharacters, long, non-ASCII) x IdP endpoints with/without query. " +
			"Oracle: the verification certificate is taken from xml(sp.Metadata()) re-parsed (use=signing descriptor and AuthnRequestsSigned must be present); matching key/method => the detached signature verifies with crypto/rsa or crypto/ecdsa over exactly the emitted octets SAMLRequest=..[&RelayState=..]&SigAlg=.. and SigAlg is the configured URI, enveloped signatures verify (fresh goxmldsig context + direct verification of SignedInfo) with the configured method; mismatching or unknown method => every Make* returns an error and no output. Non-trivial = signed message emitted and verified, or refusal observed; distinct by full configuration vector.",
		Assumptions: []string{"ECDSA signature values are ASN.1 DER as Go's crypto and goxmldsig produce and accept", "with a pre-existing endpoint query the signed octets may start at the endpoint's parameters or at SAMLRequest= (grey zone: either accepted, recorded)"},
		FloorQuick:  300,
		FloorThor:   1200,
		Run:         runC13,
		LevelText:   "Every key-type x method x message-kind x binding combination is produced by the real SP and its signature verified by independent code under the certificate the SP itself publishes; mismatched pairs must be refused. Held-on-observed.",
		LevelNote:   "Trusts crypto/rsa, crypto/ecdsa, goxmldsig's canonicaliser, x/net/html.",
		Technique:   "runtime monitoring: independent signature verification under the published certificate",
		DesignRef:   "DESIGN.md §5 C13",
	})
}

var c13Keys = []string{"sp_rsa1024", "sp_rsa2048", "sp_rsa3072", "sp_rsa4096", "sp_p256", "sp_p384", "sp_p521"}
var c13Methods = append(append([]string{}, so.RSAMethods...), so.ECMethods...)
var c13BadMethods = []string{"http://www.w3.org/2000/09/xmldsig#dsa-sha1", "urn:unknown:method", "rsa-sha256", "http://www.w3.org/2000/09/xmldsig#hmac-sha1", " ",
	// near misses of the supported URIs: not the URI, hence unknown
	so.RSASHA256 + "\n", "\t" + so.RSASHA256, so.RSASHA1 + " ", " " + so.ECSHA256, so.ECSHA384 + "\r\n", strings.ToUpper(so.RSASHA512), so.RSASHA256 + "#", so.ECSHA512[:len(so.ECSHA512)-1], so.RSASHA384 + "/"}

func methodIsRSA(m string) bool { return strings.Contains(m, "#rsa-") }

func publishedSigningCert(sp *saml.ServiceProvider) (*x509.Certificate, bool, error) {
	b, err := xml.Marshal(sp.Metadata())
	if err != nil {
		return nil, false, err
	}
	var md saml.EntityDescriptor
	if err := xml.Unmarshal(b, &md); err != nil {
		return nil, false, err
	}
	if len(md.SPSSODescriptors) != 1 {
		return nil, false, fmt.Errorf("%d SPSSODescriptors", len(md.SPSSODescriptors))
	}
	d := md.SPSSODescriptors[0]
	signed := d.AuthnRequestsSigned != nil && *d.AuthnRequestsSigned
	for _, kd := range d.KeyDescriptors {
		if kd.Use == "signing" && len(kd.KeyInfo.X509Data.X509Certificates) > 0 {
			der, err := base64.StdEncoding.DecodeString(strings.Join(strings.Fields(kd.KeyInfo.X509Data.X509Certificates[0].Data), ""))
			if err != nil {
				return nil, signed, err
			}
			cert, err := x509.ParseCertificate(der)
			return cert, signed, err
		}
	}
	return nil, signed, nil
}

var sigSplit = regexp.MustCompile(`&Signature=([^&#]*)$`)

func runC13(c *core.Ctx) {
	so.Quiet()
	fx.SetNow(fx.Epoch)
	fx.ResetTolerances()
	idx := 0
	mine := func() bool { idx++; return c.Mine(idx) }
	reps := c.Pick(5, 60)
	for _, kn := range c13Keys {
		for _, m := range append(append([]string{}, c13Methods...), c13BadMethods...) {
			for kind := 0; kind < 8; kind++ {
				for r := 0; r < reps; r++ {
					if !mine() {
						continue
					}
					c13Run(c, kn, m, kind)
				}
			}
		}
	}
}

func c13Run(c *core.Ctx, keyName, method string, kind int) {
	kp := fx.K(keyName)
	if kind == 7 && !kp.IsRSA() && keyName != "sp_p256" {
		// observation, outside C13: the middleware's cookie codecs sign with ES256 whatever the curve, so a P-384/P-521 key
		// cannot start a flow at all ("key is invalid" from the tracking cookie); nothing is emitted, nothing to verify
		c.Count("middleware_not_usable_with_p384_p521_keys(observation)")
		return
	}
	relay := c12Str(c)
	ep := c12Endpoints[c.Rng.Intn(len(c12Endpoints))]
	k := c12Cfg{sso: ep, slo: strings.Replace(ep, "/sso", "/slo", 1)}
	if c.Rng.Intn(2) == 0 {
		k.entityID = "urn:example:sp:c13"
	}
	// optional request content: whatever the configuration adds to the message has to be under the signature as emitted
	switch c.Rng.Intn(4) {
	case 1:
		k.authnCtx = &saml.RequestedAuthnContext{Comparison: "exact", AuthnContextClassRef: "urn:oasis:names:tc:SAML:2.0:ac:classes:PasswordProtectedTransport"}
	case 2:
		k.authnCtx = &saml.RequestedAuthnContext{AuthnContextClassRef: "urn:oasis:names:tc:SAML:2.0:ac:classes:X509"} // Comparison left unset
	case 3:
		k.authnCtx = &saml.RequestedAuthnContext{Comparison: "minimum", AuthnContextClassRef: "urn:oasis:names:tc:SAML:2.0:ac:classes:Password"}
	}
	switch c.Rng.Intn(3) {
	case 1:
		k.forceAuthn = boolPtr(true)
	case 2:
		k.forceAuthn = boolPtr(false)
	}
	k.format = []saml.NameIDFormat{"", saml.EmailAddressNameIDFormat, saml.PersistentNameIDFormat, saml.UnspecifiedNameIDFormat}[c.Rng.Intn(4)]
	cfg, _ := c12SP(k)
	// what the IdP says it wants does not change what a SP configured to sign has to do
	want := []*bool{nil, nil, boolPtr(true), boolPtr(false)}[c.Rng.Intn(4)]
	cfg.IDPMetadata.IDPSSODescriptors[0].WantAuthnRequestsSigned = want
	if c13LiveSP == nil { // one SP object per process, given the configuration of each case in turn (keys, method, metadata)
		c13LiveSP = &saml.ServiceProvider{}
	}
	sp := c13LiveSP
	reconfigure(sp, cfg)
	sp.Key, sp.Certificate = kp.Key, kp.Cert
	sp.SignatureMethod = method
	sp.Intermediates = nil
	if c.Rng.Intn(4) == 0 { // a certificate chain: the published signing certificate is still the SP's own (the first listed)
		sp.Intermediates = []*x509.Certificate{fx.K("idp_s2").Cert}
		c.Count("sp_configured_with_intermediates")
	}
	sp.IDPMetadata.IDPSSODescriptors[0].ArtifactResolutionServices = []saml.Endpoint{{Binding: saml.SOAPBinding, Location: so.IDPArt}}
	kinds := []string{"authn-redirect", "authn-post", "logoutreq-redirect", "logoutreq-post", "logoutresp-redirect", "logoutresp-post", "artifact-resolve", "middleware-start-flow"}
	desc := fmt.Sprintf("key=%s method=%s kind=%s relay=%q endpoint=%q entityID=%q authnCtx=%v forceAuthn=%v format=%q idpWantsSigned=%s", keyName, shortAlg(method), kinds[kind], truncate(relay, 50), ep, k.entityID, c13Ctx(k.authnCtx), k.forceAuthn != nil, k.format, map[bool]string{true: "unset", false: fmt.Sprint(want != nil && *want)}[want == nil])
	c.Journal("C13 " + desc)
	matching := (methodIsRSA(method) && kp.IsRSA() || strings.Contains(method, "#ecdsa-") && !kp.IsRSA())
	known := false
	for _, m := range c13Methods {
		if m == method {
			known = true
		}
	}
	mustRefuse := !known || !matching

	var u *url.URL
	var page []byte
	var err error
	var resolveBody []byte
	p, pv, frame, _ := core.Guard(func() {
		switch kind {
		case 0:
			u, err = sp.MakeRedirectAuthenticationRequest(relay)
		case 1:
			page, err = sp.MakePostAuthenticationRequest(relay)
		case 2:
			u, err = sp.MakeRedirectLogoutRequest("name-id-"+relay, relay)
		case 3:
			page, err = sp.MakePostLogoutRequest("name-id-"+relay, relay)
		case 4:
			u, err = sp.MakeRedirectLogoutResponse("id-logout-request", relay)
		case 5:
			page, err = sp.MakePostLogoutResponse("id-logout-request", relay)
		case 6:
			_, perr := so.DeliverArtifactHTTP(sp, []string{"x"}, mustURL(so.SPACS), func(id string, _ *http.Request, body []byte) (*http.Response, error) {
				resolveBody = body
				return so.HTTPResponse(500, strings.NewReader("")), nil
			})
			if resolveBody == nil {
				err = perr
			}
		case 7:
			// the samlsp middleware starting a login with SignRequest on: it picks the binding itself from what the IdP offers
			md := sp.IDPMetadata
			offered := []string{"redirect-only", "post-only", "both"}[c.Rng.Intn(3)]
			switch offered {
			case "redirect-only":
				md.IDPSSODescriptors[0].SingleSignOnServices = []saml.Endpoint{{Binding: saml.HTTPRedirectBinding, Location: ep}}
			case "post-only":
				md.IDPSSODescriptors[0].SingleSignOnServices = []saml.Endpoint{{Binding: saml.HTTPPostBinding, Location: ep}}
			}
			m, merr := samlsp.New(samlsp.Options{URL: mustURL("https://sp.example.com"), Key: kp.Key, Certificate: kp.Cert, IDPMetadata: md, SignRequest: true, EntityID: k.entityID})
			if merr != nil {
				err = merr
				break
			}
			m.ServiceProvider.SignatureMethod = method
			m.ServiceProvider.RequestedAuthnContext, m.ServiceProvider.ForceAuthn = k.authnCtx, k.forceAuthn
			pref := c.Rng.Intn(3) // 0: leave the choice to the middleware; otherwise ask for a binding the IdP offers
			if pref == 1 && offered != "post-only" {
				m.Binding = saml.HTTPRedirectBinding
			}
			if pref == 2 && offered != "redirect-only" {
				m.Binding = saml.HTTPPostBinding
			}
			desc += fmt.Sprintf(" idp-offers=%s middleware.Binding=%q", offered, shortAlg(m.Binding))
			rec := httptest.NewRecorder()
			m.HandleStartAuthFlow(rec, httptest.NewRequest("GET", "https://sp.example.com/protected?x=1", nil))
			sp = &m.ServiceProvider
			switch rec.Code {
			case http.StatusFound:
				u, err = url.Parse(rec.Header().Get("Location"))
				if err == nil {
					relay = u.Query().Get("RelayState")
				}
			case http.StatusOK:
				page = rec.Body.Bytes()
			default:
				err = fmt.Errorf("HTTP %d: %s", rec.Code, truncate(rec.Body.String(), 100))
			}
		}
	})
	eff := kind // how the emitted message is to be read: 0 = redirect with detached signature, otherwise enveloped
	if kind == 7 {
		eff = 1
		if u != nil {
			eff = 0
		}
	}
	c.Eval()
	replay := map[string]any{"case": desc}
	if u != nil {
		replay["url"] = u.String()
	}
	if page != nil {
		replay["page"] = string(trunc(page, 8000))
	}
	if resolveBody != nil {
		replay["soap"] = string(trunc(resolveBody, 8000))
	}
	if p {
		c.Violation("C13/panic/"+frame+"/"+panicClass(pv), fmt.Sprintf("panic %v (%s)", pv, desc), replay)
		return
	}
	c.Nontrivial(desc)
	keyType := "rsa-key"
	if !kp.IsRSA() {
		keyType = "ecdsa-key"
	}
	mclass := "unknown-method"
	if known && methodIsRSA(method) {
		mclass = "rsa-method"
	} else if known {
		mclass = "ecdsa-method"
	}
	if mustRefuse {
		if err == nil || u != nil || page != nil || resolveBody != nil {
			c.Violation(fmt.Sprintf("C13/not-refused/%s/%s/%s", kinds[kind], keyType, mclass), fmt.Sprintf("signature method does not match the key (or is unknown) but a message was produced (err=%v) (%s)", err, desc), replay)
			return
		}
		c.Count("mismatch_refused_ok")
		return
	}
	if err != nil {
		c.Violation(fmt.Sprintf("C13/make-error/%s/%s", kinds[kind], keyType), fmt.Sprintf("matching key/method refused: %v (%s)", err, desc), replay)
		return
	}
	cert, reqSigned, cerr := publishedSigningCert(sp)
	if cerr != nil || cert == nil || !reqSigned {
		c.Violation("C13/metadata/no-signing-descriptor/"+keyType, fmt.Sprintf("signing is configured but the published metadata has cert=%v AuthnRequestsSigned=%v err=%v (%s)", cert != nil, reqSigned, cerr, desc), replay)
		return
	}
	if !cert.Equal(kp.Cert) {
		c.Violation("C13/metadata/other-certificate", "published signing certificate is not the SP certificate", replay)
		return
	}
	bad := func(clause, m string) {
		c.Violation(fmt.Sprintf("C13/%s/%s/%s", clause, kinds[kind], keyType), m+" ("+desc+")", replay)
	}
	var msgEl *etree.Element
	switch {
	case eff == 0:
		full := u.String()
		i := strings.IndexByte(full, '?')
		rawq := full[i+1:]
		m := sigSplit.FindStringSubmatchIndex(rawq)
		if m == nil {
			bad("redirect/no-signature-parameter", "the query does not end with &Signature=...: "+truncate(rawq, 300))
			return
		}
		signedPart := rawq[:m[0]]
		sigRaw, _ := url.QueryUnescape(rawq[m[2]:m[3]])
		sig, derr := base64.StdEncoding.DecodeString(sigRaw)
		if derr != nil {
			bad("redirect/signature-base64", derr.Error())
			return
		}
		// shape of the signed octets
		pre := mustURL(ep).RawQuery
		body := signedPart
		if pre != "" {
			if !strings.HasPrefix(signedPart, pre+"&") {
				bad("redirect/endpoint-parameters-lost", "signed query does not start with the endpoint's own parameters")
				return
			}
			body = signedPart[len(pre)+1:]
		}
		shape := regexp.MustCompile(`^SAMLRequest=[^&#]+(&RelayState=[^&#]*)?&SigAlg=([^&#]+)$`)
		sm := shape.FindStringSubmatch(body)
		if sm == nil {
			bad("redirect/signed-octets-shape", "signed octets are not SAMLRequest=..[&RelayState=..]&SigAlg=..: "+truncate(body, 300))
			return
		}
		if (relay == "") != (sm[1] == "") {
			bad("redirect/relay-in-signed-octets", "RelayState presence in the signed octets does not match the input")
			return
		}
		if sm[1] != "" {
			if rv, _ := url.QueryUnescape(strings.TrimPrefix(sm[1], "&RelayState=")); rv != relay {
				bad("redirect/relay-in-signed-octets", fmt.Sprintf("signed RelayState %q, input %q", rv, relay))
				return
			}
		}
		alg, _ := url.QueryUnescape(sm[2])
		if alg != method {
			bad("redirect/sigalg", fmt.Sprintf("SigAlg %q, configured %q", alg, method))
			return
		}
		// verify over either reading of the octets
		ok1 := verifyDetached(cert, method, []byte(body), sig)
		ok2 := pre != "" && verifyDetached(cert, method, []byte(signedPart), sig)
		if !ok1 && !ok2 {
			bad("redirect/signature-does-not-verify", "detached signature verifies neither over SAMLRequest=..&SigAlg=.. nor over the whole emitted query")
			return
		}
		if ok2 && !ok1 {
			c.Count("redirect_signature_covers_endpoint_parameters(observation)")
		}
		c.Count("detached_signatures_verified")
		c.SampleSome(map[string]any{"case": desc, "signed_octets": truncate(body, 120)})
		return
	case u != nil: // logout redirect: enveloped signature inside the deflated message
		params, _ := splitQuery(u.RawQuery)
		for _, p := range params {
			if p[0] == "SAMLRequest" || p[0] == "SAMLResponse" {
				comp, _ := base64.StdEncoding.DecodeString(p[1])
				raw, ierr := inflateAll(comp)
				if ierr != nil {
					bad("redirect/inflate", ierr.Error())
					return
				}
				msgEl, _ = so.Parse(raw)
			}
		}
	case page != nil:
		pg, perr := htmlmon.Parse(page)
		if perr != nil || len(pg.Forms) != 1 {
			bad("post/form", "cannot read form")
			return
		}
		for _, in := range pg.Forms[0].Inputs {
			if n := in.Attrs["name"]; n == "SAMLRequest" || n == "SAMLResponse" {
				raw, _ := base64.StdEncoding.DecodeString(in.Attrs["value"])
				msgEl, _ = so.Parse(raw)
			}
		}
	case resolveBody != nil:
		env, perr := so.Parse(resolveBody)
		if perr == nil {
			if ar := env.FindElement("./Body/ArtifactResolve"); ar != nil {
				msgEl = detach(ar)
			}
		}
	}
	if msgEl == nil {
		bad("no-message", "could not extract the emitted message")
		return
	}
	replay["message"] = string(trunc(so.Bytes(msgEl), 8000))
	if verr := so.VerifyEnveloped(msgEl, cert, method); verr != nil {
		bad("enveloped-signature", verr.Error())
		return
	}
	c.Count("enveloped_signatures_verified")
	c.Observe("verified_combinations", fmt.Sprintf("%s %s %s", kinds[kind], keyName, shortAlg(method)))
	c.SampleSome(map[string]any{"case": desc})
}

func verifyDetached(cert *x509.Certificate, method string, octets, sig []byte) bool {
	h := map[string]crypto.Hash{so.RSASHA1: crypto.SHA1, so.RSASHA256: crypto.SHA256, so.RSASHA384: crypto.SHA384, so.RSASHA512: crypto.SHA512, so.ECSHA1: crypto.SHA1, so.ECSHA256: crypto.SHA256, so.ECSHA384: crypto.SHA384, so.ECSHA512: crypto.SHA512}[method]
	if h == 0 {
		return false
	}
	hh := h.New()
	hh.Write(octets)
	sum := hh.Sum(nil)
	switch pub := cert.PublicKey.(type) {
	case *rsa.PublicKey:
		return rsa.VerifyPKCS1v15(pub, h, sum, sig) == nil
	case *ecdsa.PublicKey:
		return ecdsa.VerifyASN1(pub, sum, sig)
	}
	return false
}

func c13Ctx(r *saml.RequestedAuthnContext) string {
	if r == nil {
		return "none"
	}
	if r.Comparison == "" {
		return "comparison-unset"
	}
	return r.Comparison
}

var c13LiveSP *saml.ServiceProvider
