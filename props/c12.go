package props

import (
	"bytes"
	"compress/flate"
	"encoding/base32"
	"encoding/base64"
	"encoding/hex"
	"encoding/xml"
	"fmt"
	"io"
	"net/http"
	"net/url"
	"strings"
	"unicode/utf8"

	"github.com/crewjam/saml"
	xrv "github.com/mattermost/xml-roundtrip-validator"

	"verif/internal/core"
	"verif/internal/fx"
	"verif/internal/htmlmon"
	"verif/internal/so"
)

// C12 — SP outbound messages survive their binding encodings; relay state intact.

func init() {
	core.RegisterSpec(&core.Spec{
		ID:    "C12",
		Level: "exploration",
		Rule: "AuthnRequest / LogoutRequest / LogoutResponse produced through MakeRedirect*/MakePost*/AuthnRequest.Redirect for relay states, name IDs and request IDs from a hostile string set (&, =, #, +, %, %41, ?, ;, space, quotes, <script>, CR/LF, non-ASCII, 79/80/81/4096 bytes, look-alikes of &SAMLRequest= / &Signature=) x IdP endpoints with and without query strings x both bindings x signing off / RSA / ECDSA x all name-ID formats x ForceAuthn nil/true/false x RequestedAuthnContext x entity ID set/unset, in sequences of message creations. " +
			"Oracle: an independent query splitter finds exactly one SAMLRequest/SAMLResponse and exactly one RelayState equal byte-for-byte to the input (none when empty), endpoint parameters survive, no fragment; the message parameter inflates / the form field base64-decodes to well-formed XML with the configured issuer, destination, ACS URL, NameIDPolicy, ForceAuthn, RequestedAuthnContext, InResponseTo and NameID; the library IdP parses and validates every AuthnRequest; every ID is id-+hex of >=16 bytes the recording random source served during that call, pairwise distinct. Non-trivial = message produced and decoded; distinct by (kind, binding, strings, configuration).",
		Assumptions: []string{"name IDs / request IDs containing CR are only judged for well-formedness", "an IdP endpoint that itself carries a SAMLRequest parameter is not generated"},
		FloorQuick:  1400,
		FloorThor:   5000,
		Run:         runC12,
		LevelText:   "Every emitted URL/form is decoded by independent code (hand-written query splitter, HTML5 parser, inflate, two XML parsers) and compared with the inputs; the library IdP consumes every request; ID freshness is observed at the random source. Held-on-observed.",
		LevelNote:   "Trusts x/net/html, compress/flate, encoding/xml, the 20-line query splitter.",
		Technique:   "runtime monitoring: wire-form decoders, library IdP as consumer, random-source recorder",
		DesignRef:   "DESIGN.md §5 C12",
	})
}

var c12Strings = []string{
	"", "relayState", "a&b", "a=b", "a#b", "a+b", "a%b", "%41", "a?b", "a;b", "a b", " lead", "trail ", "\"dq\"", "'sq'", "<script>alert(1)</script>", "line\nfeed", "cr\rlf\r\n", "tab\there",
	"ünï-côdé", "日本語", "\U0001F600", "&SAMLRequest=evil", "x&Signature=AAAA&SigAlg=none", "&RelayState=second", "#fragment", "?q", "a&amp;b", "%", "%%", "%zz", "%2", "+", "&", "=", "&&==", "/path?x=1&y=2#z",
	strings.Repeat("r", 79), strings.Repeat("r", 80), strings.Repeat("r", 81), strings.Repeat("long&", 820), "https://sp.example.com/deep?x=1&y=2", "{{.}}", "\\", "`", "a\u2028b", "a\u00a0b",
}

func c12Str(c *core.Ctx) string {
	if c.Rng.Intn(8) == 0 {
		var b strings.Builder
		for i := 1 + c.Rng.Intn(10); i > 0; i-- {
			b.WriteString([]string{"a", "&", "=", "#", "+", "%", " ", "?", ";", "é", "\"", "'", "<", ">", "/", "%41", "\n"}[c.Rng.Intn(17)])
		}
		return b.String()
	}
	return c12Strings[c.Rng.Intn(len(c12Strings))]
}

// splitQuery is the independent splitter: '&' separated, first '=' splits, form decoding ('+' = space, %XX).
func splitQuery(raw string) (params [][2]string, err error) {
	if raw == "" {
		return nil, nil
	}
	for _, part := range strings.Split(raw, "&") {
		if part == "" {
			params = append(params, [2]string{"", ""})
			continue
		}
		k, v := part, ""
		if i := strings.IndexByte(part, '='); i >= 0 {
			k, v = part[:i], part[i+1:]
		}
		dk, e1 := formDecode(k)
		dv, e2 := formDecode(v)
		if e1 != nil || e2 != nil {
			return params, fmt.Errorf("malformed percent-encoding in %q", part)
		}
		params = append(params, [2]string{dk, dv})
	}
	return params, nil
}

func formDecode(s string) (string, error) {
	var b []byte
	for i := 0; i < len(s); i++ {
		switch s[i] {
		case '+':
			b = append(b, ' ')
		case '%':
			if i+2 >= len(s) {
				return "", fmt.Errorf("truncated escape")
			}
			v, err := hex.DecodeString(s[i+1 : i+3])
			if err != nil {
				return "", err
			}
			b = append(b, v[0])
			i += 2
		default:
			b = append(b, s[i])
		}
	}
	return string(b), nil
}

func inflateAll(b []byte) ([]byte, error) {
	return io.ReadAll(io.LimitReader(flate.NewReader(bytes.NewReader(b)), 20<<20))
}

func wellFormed(b []byte) error {
	if err := xrv.Validate(bytes.NewReader(b)); err != nil {
		return fmt.Errorf("round-trip validator: %v", err)
	}
	d := xml.NewDecoder(bytes.NewReader(b))
	roots := 0
	depth := 0
	for {
		t, err := d.Token()
		if err == io.EOF {
			break
		}
		if err != nil {
			return fmt.Errorf("encoding/xml: %v", err)
		}
		switch t.(type) {
		case xml.StartElement:
			if depth == 0 {
				roots++
			}
			depth++
		case xml.EndElement:
			depth--
		}
	}
	if roots != 1 {
		return fmt.Errorf("%d root elements", roots)
	}
	return nil
}

type c12Cfg struct {
	sso, slo   string
	sloResp    string // ResponseLocation of the IdP's SingleLogoutService endpoints ("" = none): where logout RESPONSES may go, never requests
	entityID   string
	sign       string // "", rsa, ec
	format     saml.NameIDFormat
	forceAuthn *bool
	authnCtx   *saml.RequestedAuthnContext
}

func (k c12Cfg) String() string {
	fa := "nil"
	if k.forceAuthn != nil {
		fa = fmt.Sprint(*k.forceAuthn)
	}
	return fmt.Sprintf("sso=%q slo=%q sloResponseLocation=%q entityID=%q sign=%q format=%q forceAuthn=%s authnCtx=%v", k.sso, k.slo, k.sloResp, k.entityID, k.sign, k.format, fa, k.authnCtx != nil)
}

var c12Endpoints = []string{"https://idp.example.com/sso", "https://idp.example.com/sso?a=b", "https://idp.example.com/sso?tenant=x%26y&z=%C3%A9+1", "https://idp.example.com/sso?", "https://idp.example.com:8443/deep/path/sso?idp=7", "https://idp.example.com/sso?a=1&a=2&b"}

func runC12(c *core.Ctx) {
	so.Quiet()
	fx.SetNow(fx.Epoch)
	fx.ResetTolerances()
	n := c.Pick(2200, 40000)
	for i := 0; i < n; i++ {
		if !c.Mine(i) {
			continue
		}
		r := c.Rng
		k := c12Cfg{sso: c12Endpoints[r.Intn(len(c12Endpoints))], slo: strings.Replace(c12Endpoints[r.Intn(len(c12Endpoints))], "/sso", "/slo", 1), sign: []string{"", "", "rsa", "ec"}[r.Intn(4)],
			format: []saml.NameIDFormat{"", saml.UnspecifiedNameIDFormat, saml.TransientNameIDFormat, saml.EmailAddressNameIDFormat, saml.PersistentNameIDFormat, "urn:custom:format"}[r.Intn(6)]}
		if r.Intn(2) == 0 {
			k.entityID = "urn:example:sp:" + []string{"a", "ü&<\"", "x y"}[r.Intn(3)]
		}
		switch r.Intn(3) {
		case 1:
			k.forceAuthn = boolPtr(true)
		case 2:
			k.forceAuthn = boolPtr(false)
		}
		if r.Intn(3) == 0 {
			k.authnCtx = &saml.RequestedAuthnContext{Comparison: []string{"exact", "exact", "", "minimum", "better"}[r.Intn(5)], AuthnContextClassRef: "urn:oasis:names:tc:SAML:2.0:ac:classes:PasswordProtectedTransport"}
		}
		if r.Intn(3) == 0 {
			k.sloResp = strings.Replace(k.slo, "/slo", "/slo-return", 1)
		}
		c12Sequence(c, k, 1+r.Intn(c.Pick(12, 200))+c.Pick(60, 300)*boolInt(r.Intn(12) == 0))
	}
}

func c12SP(k c12Cfg) (*saml.ServiceProvider, *fx.KeyPair) {
	kp := fx.K("sp_rsa2048")
	if k.sign == "ec" {
		kp = fx.K("sp_p256")
	}
	md := so.IDPMetadata("meta-one-signing")
	md.IDPSSODescriptors[0].SingleSignOnServices = []saml.Endpoint{{Binding: saml.HTTPRedirectBinding, Location: k.sso}, {Binding: saml.HTTPPostBinding, Location: k.sso}}
	md.IDPSSODescriptors[0].SingleLogoutServices = []saml.Endpoint{{Binding: saml.HTTPRedirectBinding, Location: k.slo, ResponseLocation: k.sloResp}, {Binding: saml.HTTPPostBinding, Location: k.slo, ResponseLocation: k.sloResp}}
	sp := &saml.ServiceProvider{Key: kp.Key, Certificate: kp.Cert, EntityID: k.entityID, MetadataURL: mustURL(so.SPMeta), AcsURL: mustURL(so.SPACS), SloURL: mustURL(so.SPSLO), IDPMetadata: md,
		AuthnNameIDFormat: k.format, ForceAuthn: k.forceAuthn, RequestedAuthnContext: k.authnCtx}
	switch k.sign {
	case "rsa":
		sp.SignatureMethod = so.RSASHA256
	case "ec":
		sp.SignatureMethod = so.ECSHA256
	}
	return sp, kp
}

func c12Sequence(c *core.Ctx, k c12Cfg, length int) {
	rnd := fx.NewRecReader(c.Rng.Int63())
	rnd.MaxChunk = []int{0, 0, 0, 1, 7, 8, 16}[c.Rng.Intn(7)] // a random source that serves short reads is still a random source
	c.Observe("random_source_read_sizes", fmt.Sprintf("max %d bytes per Read (0 = whole buffer)", rnd.MaxChunk))
	saml.RandReader = rnd
	cfg, _ := c12SP(k)
	if c12LiveSP == nil { // one SP object per process, reconfigured for every sequence
		c12LiveSP = &saml.ServiceProvider{}
	}
	sp := c12LiveSP
	reconfigure(sp, cfg)
	// the library IdP, with the SP registered through its own published metadata
	w := so.NewIDPWorld()
	ssoU := mustURL(k.sso)
	w.IDP.SSOURL = ssoU
	mb, _ := xml.Marshal(sp.Metadata())
	var spMD saml.EntityDescriptor
	_ = xml.Unmarshal(mb, &spMD)
	w.Registry[spMD.EntityID] = &spMD
	seen := map[string]string{}
	// forms handed out earlier must stay what they were when later messages are created (a caller may hold several)
	type held struct {
		page []byte // the slice the library returned
		copy []byte // its content at that time
		desc string
	}
	var holding []held
	for step := 0; step < length; step++ {
		kind := c.Rng.Intn(6) // 0 authn-redirect 1 authn-post 2 logoutreq-redirect 3 logoutreq-post 4 logoutresp-redirect 5 logoutresp-post
		relay := c12Str(c)
		nameID := c12Str(c)
		reqID := "id-" + c12Str(c)
		artifactResult := kind < 2 && c.Rng.Intn(4) == 0
		desc := fmt.Sprintf("%s kind=%d%s relay=%q nameID=%q reqID=%q step=%d/%d", k, kind, map[bool]string{true: "(result-binding=artifact)", false: ""}[artifactResult], truncate(relay, 60), truncate(nameID, 40), truncate(reqID, 40), step, length)
		c.Journal("C12 " + desc)
		rnd.Reset()
		var u *url.URL
		var page []byte
		var err error
		p, pv, frame, _ := core.Guard(func() {
			switch kind {
			case 0:
				if artifactResult { // the SP asks for the answer through the artifact binding (as the samlsp middleware does when so configured)
					var ar *saml.AuthnRequest
					if ar, err = sp.MakeAuthenticationRequest(sp.GetSSOBindingLocation(saml.HTTPRedirectBinding), saml.HTTPRedirectBinding, saml.HTTPArtifactBinding); err == nil {
						u, err = ar.Redirect(relay, sp)
					}
				} else {
					u, err = sp.MakeRedirectAuthenticationRequest(relay)
				}
			case 1:
				if artifactResult {
					var ar *saml.AuthnRequest
					if ar, err = sp.MakeAuthenticationRequest(sp.GetSSOBindingLocation(saml.HTTPPostBinding), saml.HTTPPostBinding, saml.HTTPArtifactBinding); err == nil {
						page = ar.Post(relay)
					}
				} else {
					page, err = sp.MakePostAuthenticationRequest(relay)
				}
			case 2:
				u, err = sp.MakeRedirectLogoutRequest(nameID, relay)
			case 3:
				page, err = sp.MakePostLogoutRequest(nameID, relay)
			case 4:
				u, err = sp.MakeRedirectLogoutResponse(reqID, relay)
			case 5:
				page, err = sp.MakePostLogoutResponse(reqID, relay)
			}
		})
		c.Eval()
		served := rnd.Stream()
		replay := map[string]any{"case": desc, "relay_state": relay, "name_id": nameID, "request_id": reqID}
		for _, h := range holding {
			if !bytes.Equal(h.page, h.copy) {
				c.Violation(fmt.Sprintf("C12/post/earlier-form-changed-by-later-creation/kind%d", kind), fmt.Sprintf("the form returned for (%s) changed after creating (%s)", truncate(h.desc, 200), truncate(desc, 200)), map[string]any{"earlier": h.desc, "later": desc, "was": string(trunc(h.copy, 1500)), "now": string(trunc(h.page, 1500))})
				return
			}
		}
		if page != nil {
			holding = append(holding, held{page: page, copy: append([]byte(nil), page...), desc: desc})
			if len(holding) > 4 {
				holding = holding[1:]
			}
		}
		if p {
			c.Violation("C12/panic/"+frame+"/"+panicClass(pv), fmt.Sprintf("panic %v (%s)", pv, desc), replay)
			return
		}
		if err != nil {
			c.Violation(fmt.Sprintf("C12/make-error/kind%d", kind), fmt.Sprintf("message creation failed: %v (%s)", err, desc), replay)
			return
		}
		endpoint := k.sso
		param := "SAMLRequest"
		if kind >= 2 {
			endpoint = k.slo
		}
		if kind >= 4 {
			param = "SAMLResponse"
			// a logout response may be sent to the endpoint's ResponseLocation when it has one, or to its Location: no verdict
			// between the two, but everything (URL or form action, Destination) has to agree on the one chosen
			if k.sloResp != "" {
				marker := mustURL(k.sloResp).Path
				if (u != nil && u.Path == marker) || (page != nil && bytes.Contains(page, []byte(marker+"?")) || page != nil && bytes.Contains(page, []byte(marker+"\""))) {
					endpoint = k.sloResp
				}
			}
		}
		var msg []byte
		bad := func(clause, m string) {
			if u != nil {
				replay["url"] = u.String()
			}
			if page != nil {
				replay["page"] = string(trunc(page, 6000))
			}
			c.Violation("C12/"+clause, m+" ("+desc+")", replay)
		}
		relayCls := relayClass(relay)
		if u != nil {
			if u.Fragment != "" || strings.Contains(u.String(), "#") {
				bad(fmt.Sprintf("redirect/fragment/kind%d/%s", kind, relayCls), "emitted URL has a fragment: "+truncate(u.String(), 200))
				return
			}
			eu := mustURL(endpoint)
			if u.Scheme != eu.Scheme || u.Host != eu.Host || u.Path != eu.Path {
				bad(fmt.Sprintf("redirect/endpoint/kind%d", kind), fmt.Sprintf("URL points at %s://%s%s", u.Scheme, u.Host, u.Path))
				return
			}
			// the raw query as a browser would send it
			full := u.String()
			rawq := ""
			if i := strings.IndexByte(full, '?'); i >= 0 {
				rawq = full[i+1:]
			}
			params, qerr := splitQuery(rawq)
			if qerr != nil {
				bad(fmt.Sprintf("redirect/malformed-query/kind%d/%s", kind, relayCls), qerr.Error()+": "+truncate(rawq, 200))
				return
			}
			pre, _ := splitQuery(eu.RawQuery)
			var msgs, relays []string
			var others [][2]string
			for _, p := range params {
				switch p[0] {
				case param:
					msgs = append(msgs, p[1])
				case "RelayState":
					relays = append(relays, p[1])
				case "SigAlg", "Signature":
					if kind != 0 || k.sign == "" {
						others = append(others, p)
					}
				default:
					others = append(others, p)
				}
			}
			if len(msgs) != 1 {
				bad(fmt.Sprintf("redirect/message-param-count/kind%d/%s", kind, relayCls), fmt.Sprintf("%d %s parameters", len(msgs), param))
				return
			}
			// an empty relay state is carried equally well by no parameter and by one parameter with an empty value
			if relay == "" && !(len(relays) == 0 || len(relays) == 1 && relays[0] == "") || relay != "" && (len(relays) != 1 || relays[0] != relay) {
				bad(fmt.Sprintf("redirect/relay-state/kind%d/%s", kind, relayCls), fmt.Sprintf("RelayState parameters %q, input %q", relays, relay))
				return
			}
			if !sameMultiset(others, pre) {
				bad(fmt.Sprintf("redirect/foreign-parameters/kind%d/%s", kind, relayCls), fmt.Sprintf("parameters %q, endpoint had %q", others, pre))
				return
			}
			comp, derr := base64.StdEncoding.DecodeString(msgs[0])
			if derr != nil {
				bad(fmt.Sprintf("redirect/base64/kind%d", kind), derr.Error())
				return
			}
			var ierr error
			msg, ierr = inflateAll(comp)
			if ierr != nil {
				bad(fmt.Sprintf("redirect/inflate/kind%d", kind), ierr.Error())
				return
			}
		} else {
			pg, perr := htmlmon.Parse(page)
			if perr != nil || len(pg.Forms) != 1 {
				bad(fmt.Sprintf("post/form-count/kind%d", kind), fmt.Sprintf("forms=%d err=%v", len(pg.Forms), perr))
				return
			}
			f := pg.Forms[0]
			if strings.ToLower(f.Attrs["method"]) != "post" {
				bad("post/method", f.Attrs["method"])
			}
			if pctDecode(f.Attrs["action"]) != pctDecode(endpoint) {
				bad(fmt.Sprintf("post/action/kind%d", kind), fmt.Sprintf("action %q, endpoint %q", f.Attrs["action"], endpoint))
				return
			}
			vals := map[string][]string{}
			for _, in := range f.Inputs {
				if in.Attrs["type"] == "hidden" {
					vals[in.Attrs["name"]] = append(vals[in.Attrs["name"]], in.Attrs["value"])
				}
			}
			if len(vals) != 2 || len(vals[param]) != 1 || len(vals["RelayState"]) != 1 || len(f.Other) != 0 {
				bad(fmt.Sprintf("post/fields/kind%d/%s", kind, relayCls), fmt.Sprintf("hidden fields %v, other elements %v", keysOf(vals), f.Other))
				return
			}
			// HTML input preprocessing and form submission normalise CR / CRLF: a relay state with line breaks cannot
			// survive any browser form byte-for-byte, so line breaks are compared modulo that normalisation (grey zone)
			norm := func(x string) string { return strings.ReplaceAll(strings.ReplaceAll(x, "\r\n", "\n"), "\r", "\n") }
			if norm(vals["RelayState"][0]) != norm(relay) {
				bad(fmt.Sprintf("post/relay-state/kind%d/%s", kind, relayCls), fmt.Sprintf("RelayState field %q, input %q", vals["RelayState"][0], relay))
				return
			}
			var derr error
			msg, derr = base64.StdEncoding.DecodeString(vals[param][0])
			if derr != nil {
				bad(fmt.Sprintf("post/base64/kind%d", kind), derr.Error())
				return
			}
		}
		c.Nontrivial(desc)
		replay["message"] = string(trunc(msg, 6000))
		strCls := strClass(nameID + reqID)
		if werr := wellFormed(msg); werr != nil {
			bad(fmt.Sprintf("message/not-well-formed/kind%d/%s", kind, strCls), werr.Error())
			return
		}
		wantIssuer := k.entityID
		if wantIssuer == "" {
			wantIssuer = so.SPMeta
		}
		var id string
		switch {
		case kind <= 1:
			var ar saml.AuthnRequest
			if err := xml.Unmarshal(msg, &ar); err != nil {
				bad("message/unmarshal/authn", err.Error())
				return
			}
			id = ar.ID
			wantFmt := string(k.format)
			switch k.format {
			case "":
				wantFmt = string(saml.TransientNameIDFormat)
			case saml.UnspecifiedNameIDFormat:
				wantFmt = ""
			}
			gotFmt := ""
			if ar.NameIDPolicy != nil && ar.NameIDPolicy.Format != nil {
				gotFmt = *ar.NameIDPolicy.Format
			}
			switch {
			case ar.Issuer == nil || ar.Issuer.Value != wantIssuer:
				bad("message/issuer/authn", fmt.Sprintf("issuer %v want %q", ar.Issuer, wantIssuer))
			case ar.Destination != endpoint:
				bad("message/destination/authn", fmt.Sprintf("Destination %q want %q", ar.Destination, endpoint))
			case ar.AssertionConsumerServiceURL != so.SPACS:
				bad("message/acs-url", ar.AssertionConsumerServiceURL)
			case gotFmt != wantFmt:
				bad("message/nameid-policy", fmt.Sprintf("NameIDPolicy format %q want %q", gotFmt, wantFmt))
			case (ar.ForceAuthn == nil) != (k.forceAuthn == nil) || ar.ForceAuthn != nil && *ar.ForceAuthn != *k.forceAuthn:
				bad("message/force-authn", "ForceAuthn differs")
			case (ar.RequestedAuthnContext == nil) != (k.authnCtx == nil) || k.authnCtx != nil && (ar.RequestedAuthnContext.Comparison != k.authnCtx.Comparison || ar.RequestedAuthnContext.AuthnContextClassRef != k.authnCtx.AuthnContextClassRef):
				bad("message/requested-authn-context", "RequestedAuthnContext differs")
			case ar.Version != "2.0" || !ar.IssueInstant.Equal(fx.Now()):
				bad("message/version-or-instant", fmt.Sprintf("%q %v", ar.Version, ar.IssueInstant))
			}
			// the library IdP must parse and validate it
			var hr *http.Request
			if u != nil {
				ru, rerr := url.ParseRequestURI(u.String())
				if rerr != nil {
					bad(fmt.Sprintf("redirect/url-does-not-reparse/kind%d/%s", kind, relayCls), rerr.Error())
					return
				}
				hr = &http.Request{Method: "GET", URL: ru, Header: http.Header{}, Host: ru.Host}
			} else {
				hr = so.SSORequestPOST(endpoint, msg, relay)
			}
			var verr error
			var gotRelay string
			if pp, v, fr, _ := core.Guard(func() {
				req, e := saml.NewIdpAuthnRequest(w.IDP, hr)
				if e != nil {
					verr = e
					return
				}
				gotRelay = req.RelayState
				verr = req.Validate()
			}); pp {
				bad("idp-panic/"+fr, fmt.Sprint(v))
				return
			}
			if verr != nil {
				bad(fmt.Sprintf("idp-rejects/kind%d/%s", kind, relayCls), "the library IdP rejects the SP's request: "+verr.Error())
				return
			}
			if u != nil && gotRelay != relay {
				bad(fmt.Sprintf("idp-relay-state/kind%d/%s", kind, relayCls), fmt.Sprintf("the IdP reads RelayState %q, SP sent %q", gotRelay, relay))
				return
			}
		case kind <= 3:
			var lr saml.LogoutRequest
			if err := xml.Unmarshal(msg, &lr); err != nil {
				bad("message/unmarshal/logout-request", err.Error())
				return
			}
			id = lr.ID
			switch {
			case lr.Issuer == nil || lr.Issuer.Value != wantIssuer:
				bad("message/issuer/logout-request", "issuer")
			case lr.Destination != endpoint:
				bad("message/destination/logout-request", fmt.Sprintf("Destination %q want %q", lr.Destination, endpoint))
			case lr.NameID == nil:
				bad("message/nameid-missing", "no NameID")
			case !strings.ContainsRune(nameID, '\r') && lr.NameID.Value != nameID:
				bad("message/nameid/"+strClass(nameID), fmt.Sprintf("NameID %q want %q", lr.NameID.Value, nameID))
			}
		default:
			var lr saml.LogoutResponse
			if err := xml.Unmarshal(msg, &lr); err != nil {
				bad("message/unmarshal/logout-response", err.Error())
				return
			}
			id = lr.ID
			switch {
			case lr.Issuer == nil || lr.Issuer.Value != wantIssuer:
				bad("message/issuer/logout-response", "issuer")
			case lr.Destination != endpoint:
				bad("message/destination/logout-response", fmt.Sprintf("Destination %q want %q", lr.Destination, endpoint))
			case !strings.ContainsRune(reqID, '\r') && lr.InResponseTo != reqID:
				bad("message/inresponseto/"+strClass(reqID), fmt.Sprintf("InResponseTo %q want %q", lr.InResponseTo, reqID))
			case lr.Status.StatusCode.Value != saml.StatusSuccess:
				bad("message/status", lr.Status.StatusCode.Value)
			}
		}
		// ID freshness observed at the random source. The property fixes no format: an ID is fine if it can be seen to
		// carry >=16 bytes the random source served during this call in any common text encoding; it is a violation if
		// fewer than 16 bytes were drawn at all, or if the ID decodes to bytes of which only a part came from the source
		// (padded or truncated); a derivation the monitor cannot read (a hash, say) is recorded as inconclusive.
		if len(served) < 16 {
			bad("id/entropy", fmt.Sprintf("only %d bytes were drawn from the random source while ID %q was made", len(served), id))
			return
		}
		switch verdict, detail := c12IDDerivation(id, served); verdict {
		case "partial":
			bad("id/not-from-random-source", fmt.Sprintf("ID %q is only partly made of bytes served by RandReader during this call (%s; %d bytes served)", id, detail, len(served)))
			return
		case "short":
			bad("id/entropy", fmt.Sprintf("ID %q carries %s", id, detail))
			return
		case "unknown":
			c.Inconclusive("ID derivation from the random source not recognised (format " + detail + ")")
		}
		if prev, dup := seen[id]; dup {
			bad("id/reused", "ID "+id+" already used by "+prev)
			return
		}
		seen[id] = desc
		c.Count("messages_ok")
		c.SampleSome(map[string]any{"case": desc})
	}
	_ = utf8.RuneError
}

func relayClass(s string) string {
	switch {
	case s == "":
		return "empty"
	case strings.ContainsAny(s, "&=#+%?; ") || strings.ContainsAny(s, "\r\n\t"):
		return "url-metacharacters"
	case len(s) > 80:
		return "longer-than-80"
	case !isASCII(s):
		return "non-ascii"
	case strings.ContainsAny(s, "\"'<>`"):
		return "html-metacharacters"
	}
	return "plain"
}

func isASCII(s string) bool {
	for i := 0; i < len(s); i++ {
		if s[i] >= 0x80 {
			return false
		}
	}
	return true
}

func sameMultiset(a, b [][2]string) bool {
	if len(a) != len(b) {
		return false
	}
	m := map[[2]string]int{}
	for _, x := range a {
		m[x]++
	}
	for _, x := range b {
		m[x]--
	}
	for _, v := range m {
		if v != 0 {
			return false
		}
	}
	return true
}

func pctDecode(s string) string {
	if d, err := url.PathUnescape(s); err == nil {
		return d
	}
	return s
}

func keysOf(m map[string][]string) []string {
	var k []string
	for n, v := range m {
		k = append(k, fmt.Sprintf("%s*%d", n, len(v)))
	}
	return k
}

func boolInt(b bool) int {
	if b {
		return 1
	}
	return 0
}

var c12LiveSP *saml.ServiceProvider

// c12IDDerivation reports how id relates to the bytes the random source served: "ok" (carries >=16 served bytes in hex,
// base64 or base32 after an optional prefix), "short" (decodes, fewer than 16 bytes), "partial" (decodes to >=16 bytes of
// which a run of >=6 comes from the source but not all), "unknown" (no readable relation).
func c12IDDerivation(id string, served []byte) (string, string) {
	bodies := []string{id}
	for _, p := range []string{"id-", "id_", "id", "_", "ID-", "urn:uuid:"} {
		if strings.HasPrefix(id, p) {
			bodies = append(bodies, strings.TrimPrefix(id, p))
		}
	}
	decoders := []struct {
		name string
		f    func(string) ([]byte, error)
	}{
		{"hex", func(s string) ([]byte, error) { return hex.DecodeString(strings.ReplaceAll(s, "-", "")) }},
		{"base64", base64.StdEncoding.DecodeString}, {"base64raw", base64.RawStdEncoding.DecodeString},
		{"base64url", base64.URLEncoding.DecodeString}, {"base64rawurl", base64.RawURLEncoding.DecodeString},
		{"base32", base32.StdEncoding.DecodeString}, {"base32hex", base32.HexEncoding.DecodeString},
	}
	best, bestDetail := "unknown", "unrecognised"
	for _, b := range bodies {
		for _, d := range decoders {
			raw, err := d.f(b)
			if err != nil || len(raw) == 0 {
				continue
			}
			switch {
			case len(raw) >= 16 && bytes.Contains(served, raw):
				return "ok", d.name
			case len(raw) < 16 && bytes.Contains(served, raw) && d.name == "hex":
				if best == "unknown" {
					best, bestDetail = "short", fmt.Sprintf("%d random bytes (<16)", len(raw))
				}
			case len(raw) >= 16:
				for i := 0; i+6 <= len(raw); i++ {
					if bytes.Contains(served, raw[i:i+6]) {
						best, bestDetail = "partial", d.name+"-decoded bytes share a run with the served stream"
						break
					}
				}
			}
		}
	}
	return best, bestDetail
}
