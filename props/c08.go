package props

import (
	"bytes"
	"encoding/base64"
	"encoding/xml"
	"fmt"
	"net/http"
	"net/http/httptest"
	"strings"
	"time"

	"github.com/beevik/etree"
	"github.com/crewjam/saml"
	"github.com/crewjam/saml/xmlenc"

	"verif/internal/core"
	"verif/internal/fx"
	"verif/internal/refenc"
	"verif/internal/so"
)

// C08 — assertions for SPs that publish an encryption key never leave the IdP in clear.

func init() {
	core.RegisterSpec(&core.Spec{
		ID:    "C08",
		Level: "exploration",
		Rule: "IdP side: registered SP metadata with key-descriptor layouts built from {use=encryption, use omitted, use=signing} in every order of 1..3 descriptors x certificate content {usable RSA cert, second RSA cert, none, empty, white space, truncated base64, non-certificate DER, EC certificate} x tagged sessions x runs of consecutive responses per configuration (SSO and IdP-initiated). " +
			"Oracle: if an encryption key is advertised, the reply is either an error without SAMLResponse, or contains no clear Assertion, no tagged session string anywhere in the HTML or decoded XML, decrypts (reference decrypter) with the private key of an advertised certificate and with no other key to an IdP-signed assertion, and its CEK and IV are byte ranges served by the recorded random source during that response, pairwise distinct over the run. " +
			"SP side: generated responses (valid, time/addressing/request-ID deviations, unsigned and attacker-signed) rendered twice — clear Assertion and the same bytes as EncryptedAssertion to the SP certificate — must get the same verdict and projection; tampered ciphertext must be an InvalidResponseError. Non-trivial = IdP reply decoded / both differential variants delivered; distinct by layout x certificate content x session, or by differential case vector.",
		Assumptions: []string{"signing-only descriptors make clear assertions legitimate (no verdict)", "'advertises an encryption key' = descriptor with use=encryption, or use omitted with non-empty certificate data"},
		FloorQuick:  450,
		FloorThor:   2000,
		Run:         runC08,
		LevelText:   "Every key-descriptor layout and unusable-certificate class is driven through the real IdP with tagged sessions; the emitted bytes are scanned for clear user data, decrypted independently, and key/IV freshness is observed at the random source rather than inferred; the SP side is checked differentially (clear vs encrypted rendering of the same assertion). Held-on-observed.",
		LevelNote:   "Trusts the reference decrypter, x/net/html, crypto/rsa; the recording reader replaces xmlenc.RandReader and saml.RandReader.",
		Technique:   "runtime monitoring: clear-text scanner, key/IV conservation against a recorded random source, clear-vs-encrypted differential",
		DesignRef:   "DESIGN.md §5 C08",
	})
}

type c08KD struct {
	use  string // encryption | "" | signing
	cert string // kind
}

var c08CertKinds = []string{"rsa1", "rsa2", "none", "empty", "space", "truncated", "garbage-der", "not-base64", "ec", "rsa1-with-linebreaks", "two-certs-rsa1-first", "two-certs-garbage-first"}

func c08CertData(kind string) []saml.X509Certificate {
	rsa1, rsa2 := fx.K("sp_rsa2048"), fx.K("sp2_rsa2048")
	switch kind {
	case "rsa1":
		return []saml.X509Certificate{{Data: rsa1.CertB64()}}
	case "rsa2":
		return []saml.X509Certificate{{Data: rsa2.CertB64()}}
	case "none":
		return nil
	case "empty":
		return []saml.X509Certificate{{Data: ""}}
	case "space":
		return []saml.X509Certificate{{Data: " \n\t "}}
	case "truncated":
		return []saml.X509Certificate{{Data: rsa1.CertB64()[:301]}}
	case "garbage-der":
		return []saml.X509Certificate{{Data: base64.StdEncoding.EncodeToString([]byte("this is not a certificate at all"))}}
	case "not-base64":
		return []saml.X509Certificate{{Data: "***not base64***"}}
	case "ec":
		return []saml.X509Certificate{{Data: fx.K("sp_p256").CertB64()}}
	case "rsa1-with-linebreaks":
		b := rsa1.CertB64()
		return []saml.X509Certificate{{Data: "\n" + b[:64] + "\n" + b[64:128] + "\r\n" + b[128:] + "\n"}}
	case "two-certs-rsa1-first":
		return []saml.X509Certificate{{Data: rsa1.CertB64()}, {Data: rsa2.CertB64()}}
	case "two-certs-garbage-first":
		return []saml.X509Certificate{{Data: "AAAA"}, {Data: rsa1.CertB64()}}
	}
	panic(kind)
}

// usableKey returns the pool key whose private part can decrypt for this certificate kind ("" if unusable).
func c08Usable(kind string) string {
	switch kind {
	case "rsa1", "rsa1-with-linebreaks", "two-certs-rsa1-first":
		return "sp_rsa2048"
	case "rsa2":
		return "sp2_rsa2048"
	}
	return ""
}

func c08Advertises(kd c08KD) bool {
	if kd.use == "encryption" {
		return true
	}
	if kd.use == "" {
		cs := c08CertData(kd.cert)
		return len(cs) > 0 && cs[0].Data != ""
	}
	return false
}

func runC08(c *core.Ctx) {
	so.Quiet()
	fx.SetNow(fx.Epoch)
	fx.ResetTolerances()
	uses := []string{"encryption", "", "signing"}
	var layouts [][]c08KD
	// all orders of 1..3 descriptors over uses; certificate kinds assigned below
	var gen func(prefix []string, n int)
	var useSeqs [][]string
	gen = func(prefix []string, n int) {
		if len(prefix) == n {
			useSeqs = append(useSeqs, append([]string(nil), prefix...))
			return
		}
		for _, u := range uses {
			gen(append(prefix, u), n)
		}
	}
	for n := 1; n <= 3; n++ {
		gen(nil, n)
	}
	idx := 0
	mine := func() bool { idx++; return c.Mine(idx) }
	// single-descriptor layouts x every certificate kind; multi-descriptor layouts x sampled kinds
	for _, us := range useSeqs {
		reps := 1
		if len(us) > 1 {
			reps = c.Pick(6, 60)
		}
		if len(us) == 1 {
			for _, ck := range c08CertKinds {
				layouts = append(layouts, []c08KD{{us[0], ck}})
			}
			continue
		}
		for r := 0; r < reps; r++ {
			var l []c08KD
			for _, u := range us {
				l = append(l, c08KD{u, c08CertKinds[c.Rng.Intn(len(c08CertKinds))]})
			}
			layouts = append(layouts, l)
		}
	}
	layouts = append(layouts, nil) // no key descriptors at all
	for _, l := range layouts {
		if mine() {
			c08IdPRun(c, l, c.Pick(8, 50))
		}
	}
	c08Differential(c, mine)
}

func c08IdPRun(c *core.Ctx, layout []c08KD, runLen int) {
	rnd := fx.NewRecReader(c.Rng.Int63())
	rnd.MaxChunk = []int{0, 0, 0, 1, 7, 16}[c.Rng.Intn(6)] // short reads are within the io.Reader contract of a configured random source
	c.Observe("random_source_read_sizes", fmt.Sprintf("max %d bytes per Read (0 = whole buffer)", rnd.MaxChunk))
	xmlenc.RandReader = rnd
	saml.RandReader = fx.NewRecReader(c.Rng.Int63())
	if c08LiveWorld == nil { // one IdP object per process
		c08LiveWorld = so.NewIDPWorld()
	}
	w := c08LiveWorld
	for id := range w.Registry {
		delete(w.Registry, id)
	}
	md := &saml.EntityDescriptor{EntityID: so.SPMeta}
	d := saml.SPSSODescriptor{AssertionConsumerServices: []saml.IndexedEndpoint{{Binding: saml.HTTPPostBinding, Location: so.SPACS, Index: 1}}}
	var names []string
	for _, kd := range layout {
		// the algorithms the SP lists for the key are its preferences; whatever they say, a published encryption key means "encrypt"
		emKind := []string{"", "", "supported", "unsupported-only", "content-only", "mixed"}[c.Rng.Intn(6)]
		var ems []saml.EncryptionMethod
		switch emKind {
		case "supported":
			ems = []saml.EncryptionMethod{{Algorithm: "http://www.w3.org/2001/04/xmlenc#aes128-cbc"}, {Algorithm: "http://www.w3.org/2001/04/xmlenc#rsa-oaep-mgf1p"}}
		case "unsupported-only":
			ems = []saml.EncryptionMethod{{Algorithm: "http://www.w3.org/2009/xmlenc11#aes256-gcm"}, {Algorithm: "http://www.w3.org/2009/xmlenc11#rsa-oaep"}}
		case "content-only":
			ems = []saml.EncryptionMethod{{Algorithm: "http://www.w3.org/2001/04/xmlenc#aes256-cbc"}}
		case "mixed":
			ems = []saml.EncryptionMethod{{Algorithm: "http://www.w3.org/2009/xmlenc11#aes128-gcm"}, {Algorithm: "http://www.w3.org/2001/04/xmlenc#aes128-cbc"}, {Algorithm: "http://www.w3.org/2001/04/xmlenc#rsa-1_5"}}
		}
		c.Observe("key_descriptor_encryption_method_lists", "methods="+emKind)
		d.KeyDescriptors = append(d.KeyDescriptors, saml.KeyDescriptor{Use: kd.use, EncryptionMethods: ems, KeyInfo: saml.KeyInfo{X509Data: saml.X509Data{X509Certificates: c08CertData(kd.cert)}}})
		n := fmt.Sprintf("%s:%s", map[string]string{"encryption": "enc", "": "omitted", "signing": "sig"}[kd.use], kd.cert)
		if emKind != "" {
			n += "(methods:" + emKind + ")"
		}
		names = append(names, n)
	}
	md.SPSSODescriptors = []saml.SPSSODescriptor{d}
	mb, _ := xml.Marshal(md)
	var parsed saml.EntityDescriptor
	if err := xml.Unmarshal(mb, &parsed); err != nil {
		c.Inconclusive("metadata does not reparse")
		return
	}
	w.Registry[so.SPMeta] = &parsed
	lname := "[" + strings.Join(names, " ") + "]"
	advertised := false
	usable := map[string]bool{}
	for _, kd := range layout {
		if c08Advertises(kd) {
			advertised = true
			if u := c08Usable(kd.cert); u != "" {
				usable[u] = true
			}
		}
	}
	seenCEK := map[string]int{}
	seenIV := map[string]int{}
	for i := 0; i < runLen; i++ {
		sess := taggedSession(c, fmt.Sprintf("U%d", i))
		w.Session = sess
		rnd.Reset()
		rec := httptest.NewRecorder()
		initiated := i%3 == 2
		desc := fmt.Sprintf("layout=%s response#%d initiated=%v", lname, i, initiated)
		c.Journal("C08 " + desc)
		stepwise := !initiated && c.Rng.Intn(4) == 0
		if stepwise {
			desc += " stepwise-api-with-failed-first-attempt"
		}
		p, pv, frame, _ := core.Guard(func() {
			if stepwise {
				// an application driving the request object itself: the first attempt to build the assertion element fails
				// (the random source is down for a moment), the application tries again on the same request object
				f := string(saml.TransientNameIDFormat)
				ar := saml.AuthnRequest{ID: "id-c08", Version: "2.0", IssueInstant: fx.Now(), Destination: so.IDPSSO, Issuer: &saml.Issuer{Value: so.SPMeta}, NameIDPolicy: &saml.NameIDPolicy{Format: &f}}
				req, err := saml.NewIdpAuthnRequest(w.IDP, so.SSORequestPOST(so.IDPSSO, so.Bytes(ar.Element()), "relay"))
				if err != nil || req.Validate() != nil {
					rec.WriteHeader(http.StatusBadRequest)
					return
				}
				if err := (saml.DefaultAssertionMaker{}).MakeAssertion(req, sess); err != nil {
					rec.WriteHeader(http.StatusInternalServerError)
					return
				}
				rnd.Fail = true
				first := req.MakeAssertionEl()
				rnd.Fail = false
				if first != nil {
					c.Count("stepwise_first_attempt_failed")
				}
				if err := req.WriteResponse(rec); err != nil && rec.Body.Len() == 0 {
					rec.WriteHeader(http.StatusInternalServerError)
				}
				return
			}
			if initiated {
				w.IDP.ServeIDPInitiated(rec, httptest.NewRequest("GET", "https://idp.example.com/login/x", nil), so.SPMeta, "relay")
			} else {
				f := string(saml.TransientNameIDFormat)
				ar := saml.AuthnRequest{ID: fmt.Sprintf("id-req-%d", i), Version: "2.0", IssueInstant: fx.Now(), Destination: so.IDPSSO, AssertionConsumerServiceURL: so.SPACS, Issuer: &saml.Issuer{Value: so.SPMeta}, NameIDPolicy: &saml.NameIDPolicy{Format: &f}}
				w.IDP.ServeSSO(rec, so.SSORequestPOST(so.IDPSSO, so.Bytes(ar.Element()), "relay"))
			}
		})
		c.Eval()
		body := rec.Body.Bytes()
		replay := map[string]any{"case": desc, "metadata": string(mb), "http_status": rec.Code, "body": string(trunc(body, 12000))}
		if p {
			c.Violation("C08/panic/"+frame+"/"+panicClass(pv), fmt.Sprintf("panic %v (%s)", pv, desc), replay)
			return
		}
		c.Nontrivial(desc)
		em, err := so.DecodeReply(body, nil)
		if err != nil {
			c.Violation("C08/undecodable-reply", err.Error(), replay)
			return
		}
		if !advertised {
			c.Count("no_encryption_key_advertised(no verdict)")
			continue
		}
		if em == nil {
			// error outcome: acceptable; the body must not leak user strings either
			if strings.Contains(string(body), "⟨") {
				c.Violation("C08/leak-in-error-reply", "tagged session string in an error reply", replay)
			}
			if len(usable) > 0 {
				// a usable key is advertised: refusing is safe but odd; record
				c.Count("refused_although_usable_key_advertised(observation)")
				c.Observe("refused_layouts", lname)
			} else {
				c.Count("refused_unusable_key_ok")
			}
			continue
		}
		replay["response"] = string(em.ResponseXML)
		cls := "usable-key"
		if len(usable) == 0 {
			cls = "unusable-key"
		}
		if len(em.ClearAssertions) > 0 || bytes.Contains(em.ResponseXML, []byte("Assertion ")) && len(em.EncryptedAssertions) == 0 {
			c.Violation("C08/clear-assertion/"+cls+"/"+layoutClass(layout), fmt.Sprintf("clear Assertion emitted although the metadata advertises an encryption key (%s)", desc), replay)
			return
		}
		// no tagged string of the user anywhere in clear
		for _, hay := range [][]byte{body, em.ResponseXML} {
			if i := bytes.Index(hay, []byte("⟨")); i >= 0 {
				c.Violation("C08/user-data-in-clear/"+layoutClass(layout), fmt.Sprintf("session string visible in clear: %q (%s)", string(hay[i:min(len(hay), i+40)]), desc), replay)
				return
			}
		}
		if len(em.EncryptedAssertions) != 1 {
			c.Violation("C08/encrypted-assertion-count", fmt.Sprintf("%d EncryptedAssertion elements", len(em.EncryptedAssertions)), replay)
			return
		}
		ed := em.EncryptedAssertions[0].FindElement("./EncryptedData")
		if ed == nil {
			c.Violation("C08/no-encrypted-data", "EncryptedAssertion without EncryptedData", replay)
			return
		}
		// decrypt with each pool RSA key: exactly the advertised one must work
		var plaintext []byte
		okKeys := 0
		for _, kn := range []string{"sp_rsa2048", "sp2_rsa2048", "sp3_rsa2048", "idp_s1", "att_x"} {
			pt, err := refenc.Decrypt(fx.K(kn).RSA(), ed)
			if err == nil && bytes.Contains(pt, []byte("Assertion")) {
				okKeys++
				if !usable[kn] {
					c.Violation("C08/decryptable-with-other-key", fmt.Sprintf("assertion decrypts with key %s which is not an advertised encryption key (%s)", kn, desc), replay)
					return
				}
				plaintext = pt
			}
		}
		if okKeys != 1 {
			c.Violation("C08/not-recoverable", fmt.Sprintf("assertion decrypts with %d of the candidate keys (advertised usable: %v) (%s)", okKeys, usable, desc), replay)
			return
		}
		// plaintext is the IdP-signed assertion of this session
		ael, err := so.Parse(plaintext)
		if err != nil {
			c.Violation("C08/plaintext-not-xml", err.Error(), replay)
			return
		}
		if err := so.VerifyEnveloped(ael, fx.K("idp_s1").Cert, ""); err != nil {
			c.Violation("C08/plaintext-not-signed", "decrypted assertion: "+err.Error(), replay)
			return
		}
		// compared on the parsed element, not on the bytes: character references are a legitimate way to write the same name
		if n := ael.FindElement("./Subject/NameID"); n == nil || n.Text() != sess.NameID {
			c.Violation("C08/plaintext-other-user", "decrypted assertion does not carry this session's NameID", replay)
			return
		}
		// freshness observed at the random source
		var unwrapKey string
		for k := range usable {
			if _, err := refenc.Decrypt(fx.K(k).RSA(), ed); err == nil {
				unwrapKey = k
			}
		}
		ek := ed.FindElement("./KeyInfo/EncryptedKey")
		cvEl := ed.FindElement("./CipherData/CipherValue")
		if ek == nil || cvEl == nil {
			c.Violation("C08/layout", "no EncryptedKey/CipherValue", replay)
			return
		}
		wrapped, _ := base64.StdEncoding.DecodeString(strings.TrimSpace(ek.FindElement("./CipherData/CipherValue").Text()))
		digest := ""
		if dm := ek.FindElement("./EncryptionMethod/DigestMethod"); dm != nil {
			digest = dm.SelectAttrValue("Algorithm", "")
		}
		cek, err := refenc.UnwrapKey(ek.FindElement("./EncryptionMethod").SelectAttrValue("Algorithm", ""), digest, fx.K(unwrapKey).RSA(), wrapped)
		if err != nil {
			c.Violation("C08/unwrap", err.Error(), replay)
			return
		}
		cv, _ := base64.StdEncoding.DecodeString(strings.TrimSpace(cvEl.Text()))
		if len(cv) < 32 {
			c.Violation("C08/short-ciphervalue", "cipher value too short", replay)
			return
		}
		iv := cv[:16]
		stream := rnd.Stream()
		if !bytes.Contains(stream, cek) {
			c.Violation("C08/key-not-from-random-source", fmt.Sprintf("content-encryption key is not a byte range drawn from RandReader during this response (%d bytes drawn) (%s)", len(stream), desc), replay)
			return
		}
		if !bytes.Contains(stream, iv) {
			c.Violation("C08/iv-not-from-random-source", fmt.Sprintf("IV is not a byte range drawn from RandReader during this response (%s)", desc), replay)
			return
		}
		if bytes.Equal(cek[:16], iv) && len(cek) == 16 {
			c.Violation("C08/iv-equals-key", "IV equals the key", replay)
			return
		}
		if j, dup := seenCEK[string(cek)]; dup {
			c.Violation("C08/key-reused", fmt.Sprintf("responses #%d and #%d share a content-encryption key (%s)", j, i, desc), replay)
			return
		}
		if j, dup := seenIV[string(iv)]; dup {
			c.Violation("C08/iv-reused", fmt.Sprintf("responses #%d and #%d share an IV (%s)", j, i, desc), replay)
			return
		}
		seenCEK[string(cek)] = i
		seenIV[string(iv)] = i
		c.Count("encrypted_responses_judged")
		c.Observe("encrypting_layouts", lname)
	}
	c.Sample(map[string]any{"layout": lname, "advertised": advertised, "usable": len(usable) > 0, "run": runLen})
}

// layoutClass names the first descriptor that advertises an encryption key (the one the layout's outcome hinges on).
func layoutClass(l []c08KD) string {
	for _, kd := range l {
		if kd.use == "encryption" {
			return "first-encryption-descriptor:" + kd.cert
		}
	}
	for _, kd := range l {
		if c08Advertises(kd) {
			return "first-unlabelled-descriptor:" + kd.cert
		}
	}
	return "none"
}

// ---- SP side differential: clear vs encrypted rendering of the same assertion ----

func c08Differential(c *core.Ctx, mine func() bool) {
	o := so.New(c.Rng)
	sp := so.NewSP("meta-one-signing", fx.K("sp_rsa2048"))
	cur := mustURL(so.SPACS)
	n := c.Pick(9000, 300000)
	for i := 0; i < n; i++ {
		if !mine() {
			continue
		}
		o.Reset()
		r := c.Rng
		a := o.Assertion(so.AssertionSpec{RequestID: "req-1"})
		var devs []string
		for d := r.Intn(3); d > 0; d-- {
			switch r.Intn(9) {
			case 0:
				a.Subject.SubjectConfirmations[0].SubjectConfirmationData.Recipient = so.SPACS + "/"
				devs = append(devs, "recipient")
			case 1:
				a.Conditions.AudienceRestrictions[0].Audience.Value = "https://other.example/"
				devs = append(devs, "audience")
			case 2:
				a.Conditions.NotOnOrAfter = fx.Now().Add(-saml.MaxClockSkew - time.Millisecond)
				devs = append(devs, "conditions-expired-1ms")
			case 3:
				a.Conditions.NotBefore = fx.Now().Add(saml.MaxClockSkew + time.Millisecond)
				devs = append(devs, "notbefore+1ms")
			case 4:
				a.IssueInstant = fx.Now().Add(-saml.MaxIssueDelay - time.Millisecond)
				devs = append(devs, "assertion-stale-1ms")
			case 5:
				a.Subject.SubjectConfirmations[0].SubjectConfirmationData.InResponseTo = "other"
				devs = append(devs, "confirmation-irt")
			case 6:
				a.Issuer.Value = so.IDPEntity + "x"
				devs = append(devs, "issuer")
			case 7:
				a.Subject.SubjectConfirmations[0].SubjectConfirmationData.NotOnOrAfter = fx.Now().Add(-saml.MaxClockSkew - time.Millisecond)
				devs = append(devs, "confirmation-expired-1ms")
			case 8:
				a.Conditions.NotOnOrAfter = fx.Now().Add(-saml.MaxClockSkew + time.Millisecond)
				devs = append(devs, "conditions-inside-1ms")
			}
		}
		signer := []string{"idp_s1", "idp_s1", "idp_s1", "", "att_x"}[r.Intn(5)]
		respSigned := r.Intn(2) == 0
		ael := a.Element()
		var err error
		if signer != "" {
			if ael, err = o.Sign(ael, fx.K(signer), ""); err != nil {
				continue
			}
		}
		build := func(child *etree.Element) []byte {
			rel := so.ResponseEl(o.Response("req-1", fx.Now()), child)
			if respSigned {
				if s, err := o.Sign(rel, fx.K("idp_s1"), ""); err == nil {
					rel = s
				}
			}
			return so.Bytes(rel)
		}
		clear := build(ael.Copy())
		alg := []string{refenc.AES128CBC, refenc.AES256CBC, refenc.AES128GCM, refenc.TDESCBC}[r.Intn(4)]
		tr := []struct{ a, d string }{{refenc.OAEPMGF1P, refenc.DigestSHA1}, {refenc.OAEPMGF1P, refenc.DigestSHA256}, {refenc.OAEP11, refenc.DigestSHA256}, {refenc.RSA15, ""}}[r.Intn(4)]
		ea, err := o.Encrypt(ael, fx.K("sp_rsa2048"), alg, tr.a, tr.d)
		if err != nil {
			c.Inconclusive("encrypt: " + err.Error())
			continue
		}
		enc := build(ea)
		desc := fmt.Sprintf("differential devs=%v signer=%q respSigned=%v alg=%s/%s", devs, signer, respSigned, shortAlg(alg), shortAlg(tr.a))
		c.Journal("C08 " + desc)
		var a1, a2 *saml.Assertion
		var e1, e2 error
		p, pv, frame, _ := core.Guard(func() {
			a1, e1 = sp.ParseXMLResponse(clear, []string{"req-1"}, cur)
			a2, e2 = sp.ParseXMLResponse(enc, []string{"req-1"}, cur)
		})
		c.Eval()
		replay := map[string]any{"case": desc, "clear": string(clear), "encrypted": string(enc)}
		if p {
			c.Violation("C08/panic/"+frame+"/"+panicClass(pv), fmt.Sprintf("panic %v (%s)", pv, desc), replay)
			continue
		}
		c.Nontrivial(desc)
		if (e1 == nil) != (e2 == nil) {
			which := "encrypted-accepted-clear-rejected"
			if e1 == nil {
				which = "clear-accepted-encrypted-rejected"
			}
			c.Violation("C08/differential/"+which, fmt.Sprintf("clear: %v / encrypted: %v (%s)", errPrivate(e1), errPrivate(e2), desc), replay)
			continue
		}
		if e1 == nil && so.Projection(a1) != so.Projection(a2) {
			c.Violation("C08/differential/projection", "clear and encrypted renderings yield different assertions ("+desc+")", replay)
			continue
		}
		if e1 == nil {
			c.Count("differential_both_accepted")
		} else {
			c.Count("differential_both_rejected")
			if stageOf(errPrivate(e1)) != stageOf(errPrivate(e2)) {
				c.Count("differential_rejected_at_different_stages(observation)")
			}
		}
		// tampered ciphertext alone must be an InvalidResponseError
		if r.Intn(4) == 0 {
			el, _ := so.Parse(enc)
			cv := el.FindElement("//EncryptedData/CipherData/CipherValue")
			b, _ := base64.StdEncoding.DecodeString(strings.TrimSpace(cv.Text()))
			tamper := r.Intn(4)
			switch tamper {
			case 0:
				b[r.Intn(len(b))] ^= 0x40
			case 1:
				b = b[:r.Intn(len(b))]
			case 2:
				b = append(b, 0)
			case 3: // 1..15 stray bytes after a valid cipher value: not whole blocks any more
				b = append(b, bytes.Repeat([]byte{7}, 1+r.Intn(15))...)
			}
			cv.SetText(base64.StdEncoding.EncodeToString(b))
			if respSigned { // keep the response signature valid over the tampered ciphertext: only decryption stands in the way
				rmEl(el, "./Signature")
				if s, err := o.Sign(el, fx.K("idp_s1"), ""); err == nil {
					el = s
				}
			}
			raw := so.Bytes(el)
			var a3 *saml.Assertion
			var e3 error
			if pp, v, fr, _ := core.Guard(func() { a3, e3 = sp.ParseXMLResponse(raw, []string{"req-1"}, cur) }); pp {
				c.Violation("C08/panic/"+fr+"/"+panicClass(v), "panic on tampered ciphertext", map[string]any{"case": desc, "document": string(raw)})
				continue
			}
			c.Eval()
			// The reference decrypter decides what the tampered cipher value is: if it cannot be decrypted (length, padding
			// beyond one block, authentication tag) it is malformed and must be refused; if it still decrypts - a flipped
			// bit in the filler bytes of the CBC padding carries no information - acceptance with the very same content is
			// no failure. (An appended whole block, possible for 3DES, falls under the same rule and not under chance.)
			var refErr error
			if ted := el.FindElement("//EncryptedData"); ted != nil {
				_, refErr = refenc.Decrypt(fx.K("sp_rsa2048").RSA(), ted)
			}
			if e3 == nil && a3 != nil && (refErr != nil || alg == refenc.AES128GCM || so.Projection(a3) != so.Projection(a2) || e2 != nil) {
				c.Violation("C08/tampered-ciphertext-accepted", "response with tampered ciphertext accepted ("+desc+")", map[string]any{"case": desc, "tamper": tamper, "reference": fmt.Sprint(refErr), "document": string(raw)})
			} else if _, ok := e3.(*saml.InvalidResponseError); e3 != nil && !ok {
				c.Violation("C08/tampered-ciphertext-error-type", fmt.Sprintf("%T", e3), nil)
			} else {
				c.Count("tampered_ciphertext_rejected_ok")
			}
		}
		// a cipher value whose padding is longer than one block (xmlenc 5.2 allows 1..block size) is malformed although it
		// "decrypts": the content in front of the padding is the untouched signed assertion, so only the padding rule
		// stands between this input and acceptance
		if alg != refenc.AES128GCM && r.Intn(4) == 0 {
			extra := 1 + r.Intn(3)
			if eo, err := o.EncryptOverlong(ael, fx.K("sp_rsa2048"), alg, tr.a, tr.d, extra); err == nil {
				raw := build(eo)
				var a4 *saml.Assertion
				var e4 error
				if pp, v, fr, _ := core.Guard(func() { a4, e4 = sp.ParseXMLResponse(raw, []string{"req-1"}, cur) }); pp {
					c.Violation("C08/panic/"+fr+"/"+panicClass(v), "panic on overlong padding", map[string]any{"case": desc, "document": string(raw)})
					continue
				}
				c.Eval()
				if e4 == nil && a4 != nil {
					c.Violation("C08/overlong-padding-accepted", fmt.Sprintf("cipher value with %d surplus block(s) of CBC padding accepted (%s)", extra, desc), map[string]any{"case": desc, "extra_blocks": extra, "document": string(raw)})
				} else {
					c.Count("overlong_padding_rejected_ok")
				}
			}
		}
		c.SampleSome(map[string]any{"case": desc, "accepted": e1 == nil})
	}
}

var c08LiveWorld *so.IDPWorld
