//go:build verif

package props

import (
	"bytes"
	"encoding/json"
	"fmt"
	"html/template"
	"net/http"
	"net/http/httptest"
	"net/url"
	"os"
	"path/filepath"
	"regexp"
	"runtime"
	"sort"
	"strings"
	"sync"
	"sync/atomic"
	"time"

	"github.com/anishathalye/porcupine"
	"github.com/crewjam/saml"
	"github.com/crewjam/saml/samlidp"

	"verif/internal/core"
	"verif/internal/fx"
	"verif/internal/sched"
	"verif/internal/so"
)

// C20 — the bundled IdP server and its store are safe under concurrent requests.

func init() {
	core.RegisterSpec(&core.Spec{
		ID:    "C20",
		Level: "exploration",
		Rule: "three monitors in a -race build: (a) free-running stress - 2..16 goroutines issue requests drawn from every handler (metadata, sso, login, idp-initiated, CRUD and lists of users/services/sessions/shortcuts) against few keys through Server.ServeHTTP over the real MemoryStore with seeded yields at store-operation entry, plus direct MemoryStore stress; race-detector reports are collected from GORACE log files and de-duplicated by the pair of innermost crewjam/saml frames; " +
			"(b) linearizability - concurrent histories of <=4 clients x 6 operations (Get/Put/Delete/List, unique values, <=3 keys) recorded at the MemoryStore boundary with one monotonic counter and checked with porcupine against a sequential map (timeout => inconclusive); " +
			"(c) deadlock freedom by controlled scheduling - request goroutines are parked at every store operation by a gating Store wrapper; for pairs of requests all interleavings (for triples, seeded priorities) are driven; a run is a deadlock iff nothing can be released any more and every unfinished request goroutine is in a sync.(RW)Mutex wait (goroutine dump); other stalls are inconclusive. Non-trivial = stress round completed / history checked / schedule driven to an end; distinct by (round seed), (history), (request set, schedule).",
		Assumptions: []string{"interleavings are explored at store-operation granularity plus what the Go scheduler adds under stress; instruction-level interleavings inside critical sections are the race detector's job", "race reports whose stacks contain no crewjam/saml frame are harness defects and break the run instead of counting as violations"},
		FloorQuick:  300,
		FloorThor:   1200,
		Shards:      8,
		Race:        true,
		TimeoutQ:    15 * time.Minute,
		Run:         runC20,
		Post:        c20Post,
		Env: func(shard int, work string) []string {
			return []string{"GORACE=halt_on_error=0 log_path=" + filepath.Join(work, fmt.Sprintf("race-%d", shard))}
		},
		LevelText: "The real server and store run under the Go race detector with a hostile few-keys workload, recorded store histories are checked for linearizability, and lock-order defects are searched by driving every store-operation interleaving of request pairs with a state-based (not time-based) deadlock verdict. Held-on-observed interleavings.",
		LevelNote: "Trusts the Go race detector, porcupine, and runtime.Stack wait reasons for the deadlock verdict.",
		Technique: "runtime monitoring: race detector under stress, porcupine linearizability check of recorded histories, gate-scheduled interleavings with goroutine-state deadlock rule",
		DesignRef: "DESIGN.md §5 C20",
	})
}

func c20Seed(store samlidp.Store) {
	for _, u := range []string{"alice", "bob"} {
		if c19SeedHashes[u] == nil {
			c19SeedHashes[u] = c19Hash("pw-" + u)
		}
		_ = store.Put("/users/"+u, &samlidp.User{Name: u, HashedPassword: c19SeedHashes[u], Email: u + "@example.com", Groups: []string{"g"}})
	}
}

type c20Env struct {
	srv   *samlidp.Server
	wrap  *sched.Wrapper
	sps   []*c19SP
	sess  []string
	mu    sync.Mutex
	alive atomic.Int64
}

func c20NewEnv(hook func(kind, key string)) *c20Env {
	fx.SetNow(fx.Epoch)
	ms := &samlidp.MemoryStore{}
	c20Seed(ms)
	e := &c20Env{wrap: sched.NewWrapper(ms)}
	e.wrap.Hook = hook
	opts := samlidp.Options{URL: mustURL(c19Root), Key: fx.K("idp_s1").Key, Certificate: fx.K("idp_s1").Cert, Store: e.wrap}
	c20EnvCount++
	if c20EnvCount%2 == 0 { // every second server is configured with the application's own login page (one shared template value)
		opts.LoginFormTemplate = c20CustomLogin
	}
	if c20EnvCount%3 == 0 { // a server brought up on a single-processor host (the processor count may be read at start-up)
		prev := runtime.GOMAXPROCS(1)
		defer runtime.GOMAXPROCS(prev)
	}
	srv, err := samlidp.New(opts)
	if err != nil {
		panic(err)
	}
	e.srv = srv
	w := &c19World{srv: srv}
	_ = w
	ib, _ := xmlMarshal(srv.IDP.Metadata())
	for _, n := range []string{"spa", "spb"} {
		var idpMD saml.EntityDescriptor
		_ = xmlUnmarshal(ib, &idpMD)
		sp := &saml.ServiceProvider{Key: fx.K("sp_rsa1024").Key, MetadataURL: mustURL("https://" + n + ".example.com/saml/metadata"), AcsURL: mustURL("https://" + n + ".example.com/saml/acs"), IDPMetadata: &idpMD}
		if n == "spa" { // this one publishes an encryption certificate, written the way metadata files usually are: in 64-column lines
			sp.Certificate = fx.K("sp_rsa1024").Cert
		}
		mb, _ := xmlMarshal(sp.Metadata())
		if sp.Certificate != nil {
			b64 := fx.K("sp_rsa1024").CertB64()
			var wrapped strings.Builder
			for i := 0; i < len(b64); i += 64 {
				wrapped.WriteString("\n" + b64[i:min(len(b64), i+64)])
			}
			mb = bytes.ReplaceAll(mb, []byte(b64), []byte(wrapped.String()+"\n"))
		}
		e.sps = append(e.sps, &c19SP{name: n, sp: sp, entity: sp.MetadataURL.String(), acs: sp.AcsURL.String(), mdXML: mb})
	}
	return e
}

func (e *c20Env) serve(req *http.Request) int {
	rec := httptest.NewRecorder()
	e.srv.ServeHTTP(rec, req)
	for _, ck := range rec.Result().Cookies() {
		if ck.Name == "session" && ck.Value != "" {
			e.mu.Lock()
			if len(e.sess) < 3 {
				e.sess = append(e.sess, ck.Value)
			}
			e.mu.Unlock()
		}
	}
	return rec.Code
}

func (e *c20Env) session(i int) string {
	e.mu.Lock()
	defer e.mu.Unlock()
	if len(e.sess) == 0 {
		return ""
	}
	return e.sess[i%len(e.sess)]
}

// request builds request number kind (one per handler) with small key choices from rnd.
func (e *c20Env) request(kind int, rnd func(int) int) (string, *http.Request) {
	users := []string{"alice", "bob"}
	svcs := []string{"svc1", "svc2"}
	withCookie := func(r *http.Request) *http.Request {
		if s := e.session(rnd(3)); s != "" {
			r.Header.Set("Cookie", "session="+s)
		}
		return r
	}
	switch kind % 25 {
	case 0:
		return "GET /metadata", httptest.NewRequest("GET", c19Root+"/metadata", nil)
	case 1:
		sp := e.sps[rnd(2)]
		ar, _ := sp.sp.MakeAuthenticationRequest(c19Root+"/sso", saml.HTTPRedirectBinding, saml.HTTPPostBinding)
		u, _ := ar.Redirect("rs", sp.sp)
		return "GET /sso", withCookie(httptest.NewRequest("GET", u.String(), nil))
	case 2:
		u := users[rnd(2)]
		f := url.Values{"user": {u}, "password": {"pw-" + u}}
		r := httptest.NewRequest("POST", c19Root+"/login", strings.NewReader(f.Encode()))
		r.Header.Set("Content-Type", "application/x-www-form-urlencoded")
		return "POST /login", r
	case 3:
		return "GET /login/sc1", withCookie(httptest.NewRequest("GET", c19Root+"/login/sc1", nil))
	case 4:
		return "GET /login/sc1/suffix", withCookie(httptest.NewRequest("GET", c19Root+"/login/sc1/x", nil))
	case 5:
		return "PUT /services", httptest.NewRequest("PUT", c19Root+"/services/"+svcs[rnd(2)], bytes.NewReader(e.sps[rnd(2)].mdXML))
	case 6:
		return "DELETE /services", httptest.NewRequest("DELETE", c19Root+"/services/"+svcs[rnd(2)], nil)
	case 7:
		return "GET /services/", httptest.NewRequest("GET", c19Root+"/services/", nil)
	case 8:
		return "GET /services/x", httptest.NewRequest("GET", c19Root+"/services/"+svcs[rnd(2)], nil)
	case 9:
		b, _ := json.Marshal(map[string]any{"email": "x@example.com", "groups": []string{"g"}})
		return "PUT /users", httptest.NewRequest("PUT", c19Root+"/users/"+users[rnd(2)], bytes.NewReader(b))
	case 10:
		return "GET /users/", httptest.NewRequest("GET", c19Root+"/users/", nil)
	case 11:
		return "GET /users/x", httptest.NewRequest("GET", c19Root+"/users/"+users[rnd(2)], nil)
	case 12:
		return "DELETE /users", httptest.NewRequest("DELETE", c19Root+"/users/carol", nil)
	case 13:
		return "GET /sessions/", httptest.NewRequest("GET", c19Root+"/sessions/", nil)
	case 14:
		return "GET /sessions/x", httptest.NewRequest("GET", c19Root+"/sessions/"+url.PathEscape(e.session(rnd(3))), nil)
	case 15:
		return "DELETE /sessions", httptest.NewRequest("DELETE", c19Root+"/sessions/nonexistent", nil)
	case 16:
		b, _ := json.Marshal(samlidp.Shortcut{ServiceProviderID: e.sps[rnd(2)].entity, URISuffixAsRelayState: true})
		return "PUT /shortcuts", httptest.NewRequest("PUT", c19Root+"/shortcuts/sc1", bytes.NewReader(b))
	case 17:
		return "GET /shortcuts/", httptest.NewRequest("GET", c19Root+"/shortcuts/", nil)
	case 18:
		return "GET /shortcuts/x", httptest.NewRequest("GET", c19Root+"/shortcuts/sc1", nil)
	case 19:
		return "DELETE /shortcuts", httptest.NewRequest("DELETE", c19Root+"/shortcuts/sc2", nil)
	case 20:
		sp := e.sps[rnd(2)]
		ar, _ := sp.sp.MakeAuthenticationRequest(c19Root+"/sso", saml.HTTPPostBinding, saml.HTTPPostBinding)
		u := users[rnd(2)]
		f := url.Values{"SAMLRequest": {so.B64(so.Bytes(ar.Element()))}, "user": {u}, "password": {"pw-" + u}}
		r := httptest.NewRequest("POST", c19Root+"/sso", strings.NewReader(f.Encode()))
		r.Header.Set("Content-Type", "application/x-www-form-urlencoded")
		return "POST /sso+credentials", r
	case 22: // no session cookie: the login page is rendered
		sp := e.sps[rnd(2)]
		ar, _ := sp.sp.MakeAuthenticationRequest(c19Root+"/sso", saml.HTTPRedirectBinding, saml.HTTPPostBinding)
		u, _ := ar.Redirect("rs", sp.sp)
		return "GET /sso (no cookie)", httptest.NewRequest("GET", u.String(), nil)
	case 23: // wrong password: the login page with a toast
		f := url.Values{"user": {users[rnd(2)]}, "password": {"wrong"}}
		r := httptest.NewRequest("POST", c19Root+"/login", strings.NewReader(f.Encode()))
		r.Header.Set("Content-Type", "application/x-www-form-urlencoded")
		return "POST /login (wrong password)", r
	case 24:
		return "GET /login/sc1 (no cookie)", httptest.NewRequest("GET", c19Root+"/login/sc1", nil)
	default:
		return "POST /services", httptest.NewRequest("POST", c19Root+"/services/"+svcs[rnd(2)], bytes.NewReader(e.sps[rnd(2)].mdXML))
	}
}

// serveWatched runs one request and applies the lock-wait rule if it does not return.
var c20Stuck atomic.Bool // a single request hung: every further environment would hang the same way

func (e *c20Env) serveWatched(c *core.Ctx, what string, req *http.Request) bool {
	if c20Stuck.Load() {
		return false
	}
	done := make(chan struct{})
	var gid atomic.Int64
	go func() {
		gid.Store(sched.Gid())
		e.serve(req)
		close(done)
	}()
	select {
	case <-done:
		return true
	case <-time.After(20 * time.Second):
		c20Stuck.Store(true)
		states, dump := sched.States()
		st := states[gid.Load()]
		if st != "sync.RWMutex.RLock" && st != "sync.RWMutex.Lock" && st != "sync.Mutex.Lock" {
			quiet := true
			for probe := 0; probe < 5 && quiet; probe++ {
				ss, _ := sched.States()
				quiet = sched.Quiescent(ss, sched.Gid())
				time.Sleep(50 * time.Millisecond)
			}
			if quiet {
				c.Violation("C20/deadlock/single-request-quiescent/"+what, fmt.Sprintf("a single %s request with no other request in flight never completes: its goroutine waits in %q and no goroutine of the process can run", what, st), map[string]any{"goroutines": truncate(dump, 20000)})
				return false
			}
		}
		if st == "sync.RWMutex.RLock" || st == "sync.RWMutex.Lock" || st == "sync.Mutex.Lock" {
			c.Violation("C20/deadlock/single-request/"+what, fmt.Sprintf("a single %s request with no other request in flight never completes: its goroutine waits in %s", what, st), map[string]any{"goroutines": truncate(dump, 20000)})
		} else {
			c.Inconclusive("single request did not return: state " + st)
		}
		return false
	}
}

func (e *c20Env) prepareWatched(c *core.Ctx) bool {
	if !e.serveWatched(c, "PUT /services", httptest.NewRequest("PUT", c19Root+"/services/svc1", bytes.NewReader(e.sps[0].mdXML))) {
		return false
	}
	b, _ := json.Marshal(samlidp.Shortcut{ServiceProviderID: e.sps[0].entity})
	if !e.serveWatched(c, "PUT /shortcuts", httptest.NewRequest("PUT", c19Root+"/shortcuts/sc1", bytes.NewReader(b))) {
		return false
	}
	_, r := e.request(2, func(int) int { return 0 })
	if !e.serveWatched(c, "POST /login", r) {
		return false
	}
	_, r = e.request(3, func(int) int { return 0 })
	return e.serveWatched(c, "GET /login/sc1", r)
}

func (e *c20Env) prepare() {
	// one service, one shortcut, one live session, sequentially
	e.serve(httptest.NewRequest("PUT", c19Root+"/services/svc1", bytes.NewReader(e.sps[0].mdXML)))
	b, _ := json.Marshal(samlidp.Shortcut{ServiceProviderID: e.sps[0].entity})
	e.serve(httptest.NewRequest("PUT", c19Root+"/shortcuts/sc1", bytes.NewReader(b)))
	_, r := e.request(2, func(int) int { return 0 })
	e.serve(r)
}

func runC20(c *core.Ctx) {
	so.Quiet()
	fx.ResetTolerances()
	saml.RandReader = &lockedReader{r: fx.NewRecReader(c.Seed)}
	c20Stress(c)
	c20Linearizability(c)
	c20SingleWriter(c)
	c20Deadlock(c)
}

type lockedReader struct {
	mu sync.Mutex
	r  *fx.RecReader
}

func (l *lockedReader) Read(p []byte) (int, error) {
	l.mu.Lock()
	defer l.mu.Unlock()
	n, err := l.r.Read(p)
	l.r.Reset()
	return n, err
}

// ---- (a) stress under the race detector ----

func c20Stress(c *core.Ctx) {
	rounds := c.Pick(5, 40)
	for round := 0; round < rounds; round++ {
		seed := c.Seed*1000 + int64(c.Shard)*100 + int64(round)
		c.Journal(fmt.Sprintf("C20 stress round seed=%d", seed))
		var yield atomic.Int64
		e := c20NewEnv(func(kind, key string) {
			// seeded yields / short sleeps at operation entry widen the windows between critical sections
			n := yield.Add(1)
			switch (n*2654435761 + seed) % 7 {
			case 0:
				runtime.Gosched()
			case 1:
				time.Sleep(time.Duration((n+seed)%50) * time.Microsecond)
			}
		})
		if !e.prepareWatched(c) {
			return
		}
		g := 2 + int(seed%15)
		reqs := c.Pick(60, 200)
		var wg sync.WaitGroup
		var served atomic.Int64
		statuses := make([]map[string]int, g)
		gids := make([]atomic.Int64, g)
		finished := make([]atomic.Bool, g)
		for i := 0; i < g; i++ {
			wg.Add(1)
			statuses[i] = map[string]int{}
			go func(i int) {
				defer wg.Done()
				defer finished[i].Store(true)
				gids[i].Store(sched.Gid())
				state := uint64(seed)*7919 + uint64(i)*104729 + 1
				rnd := func(n int) int {
					state = state*6364136223846793005 + 1442695040888963407
					return int((state >> 33) % uint64(n))
				}
				for k := 0; k < reqs; k++ {
					name, r := e.request(rnd(25), rnd)
					code := e.serve(r)
					served.Add(1)
					statuses[i][fmt.Sprintf("%s=%d", name, code)]++
				}
			}(i)
		}
		done := make(chan struct{})
		go func() { wg.Wait(); close(done) }()
		select {
		case <-done:
		case <-time.After(90 * time.Second):
			// state-based verdict: if every unfinished request goroutine sits in a lock wait (stable over several probes),
			// nobody is left who could release those locks
			allLocked, dump, blocked := true, "", []string{}
			for probe := 0; probe < 5 && allLocked; probe++ {
				var states map[int64]string
				states, dump = sched.States()
				blocked = blocked[:0]
				for i := range gids {
					if finished[i].Load() {
						continue
					}
					st := states[gids[i].Load()]
					if st != "sync.RWMutex.RLock" && st != "sync.RWMutex.Lock" && st != "sync.Mutex.Lock" {
						allLocked = false
					}
					blocked = append(blocked, st)
				}
				time.Sleep(50 * time.Millisecond)
			}
			if !allLocked && len(blocked) > 0 {
				// second rule: the whole process is quiescent (nobody runs, sleeps or waits for the outside world) while
				// requests are unfinished, and stays so: whatever they wait for (a channel, a condition) will not come
				quiet := true
				for probe := 0; probe < 5 && quiet; probe++ {
					states, d := sched.States()
					dump = d
					quiet = sched.Quiescent(states, sched.Gid())
					time.Sleep(50 * time.Millisecond)
				}
				if quiet {
					sort.Strings(blocked)
					c.Violation("C20/deadlock/stress-quiescent", fmt.Sprintf("free-running stress stopped making progress: %d request goroutines are unfinished (%v) and no goroutine of the process can run", len(blocked), blocked), map[string]any{"seed": seed, "goroutines": truncate(dump, 20000)})
					return
				}
			}
			if allLocked && len(blocked) > 0 {
				sort.Strings(blocked)
				c.Violation("C20/deadlock/stress", fmt.Sprintf("free-running stress stopped making progress: all %d unfinished request goroutines wait for locks %v", len(blocked), blocked), map[string]any{"seed": seed, "goroutines": truncate(dump, 20000)})
			} else {
				c.Inconclusive("stress round did not finish within the watchdog and not all goroutines are lock-blocked")
				c.Note("stress watchdog dump (truncated): %s", truncate(dump, 1500))
			}
			return
		}
		c.EvalN(served.Load())
		c.Nontrivial(fmt.Sprintf("stress|seed=%d|g=%d", seed, g))
		c.CountN("stress_requests_served", served.Load())

		for _, m := range statuses {
			for k := range m {
				c.Observe("stress_request_outcomes", k)
			}
		}
		// direct MemoryStore stress on 3 keys
		ms := &samlidp.MemoryStore{}
		var wg2 sync.WaitGroup
		for i := 0; i < 8; i++ {
			wg2.Add(1)
			go func(i int) {
				defer wg2.Done()
				for k := 0; k < 300; k++ {
					key := fmt.Sprintf("/k/%d", (i+k)%3)
					switch (i + k) % 4 {
					case 0:
						_ = ms.Put(key, k)
					case 1:
						var v int
						_ = ms.Get(key, &v)
					case 2:
						_, _ = ms.List("/k/")
					case 3:
						_ = ms.Delete(key)
					}
				}
			}(i)
		}
		wg2.Wait()
		c.EvalN(2400)
		c.CountN("direct_store_operations", 2400)
	}
	c.Sample(map[string]any{"monitor": "stress", "rounds": rounds})
}

// ---- (b) linearizability of MemoryStore ----

type lzIn struct {
	Op  string // get put delete list
	Key string
	Val string
}
type lzOut struct {
	Val   string
	Found bool
	List  string
	Err   string
}

func lzModel() porcupine.Model {
	return porcupine.Model{
		Init: func() interface{} { return "" },
		Step: func(state, input, output interface{}) (bool, interface{}) {
			st := decodeState(state.(string))
			in := input.(lzIn)
			out := output.(lzOut)
			switch in.Op {
			case "put":
				st[in.Key] = in.Val
				return out.Err == "", encodeState(st)
			case "delete":
				delete(st, in.Key)
				return out.Err == "", state2(st)
			case "get":
				v, ok := st[in.Key]
				if !ok {
					return !out.Found, state
				}
				return out.Found && out.Val == v, state
			case "list":
				var ks []string
				for k := range st {
					if strings.HasPrefix(k, in.Key) {
						ks = append(ks, strings.TrimPrefix(k, in.Key))
					}
				}
				sort.Strings(ks)
				return out.List == strings.Join(ks, ","), state
			}
			return false, state
		},
		Equal: func(a, b interface{}) bool { return a.(string) == b.(string) },
		DescribeOperation: func(input, output interface{}) string {
			return fmt.Sprintf("%+v -> %+v", input, output)
		},
	}
}

func state2(m map[string]string) string { return encodeState(m) }

func encodeState(m map[string]string) string {
	var ks []string
	for k := range m {
		ks = append(ks, k)
	}
	sort.Strings(ks)
	var b strings.Builder
	for _, k := range ks {
		b.WriteString(k + "=" + m[k] + ";")
	}
	return b.String()
}

func decodeState(s string) map[string]string {
	m := map[string]string{}
	for _, p := range strings.Split(s, ";") {
		if i := strings.IndexByte(p, '='); i > 0 {
			m[p[:i]] = p[i+1:]
		}
	}
	return m
}

func c20Linearizability(c *core.Ctx) {
	n := c.Pick(2000, 100000) / c.NShards
	model := lzModel()
	for h := 0; h < n; h++ {
		ms := &samlidp.MemoryStore{}
		clients := 2 + c.Rng.Intn(3)
		var clock atomic.Int64
		ops := make([][]porcupine.Operation, clients)
		plans := make([][]lzIn, clients)
		for cl := 0; cl < clients; cl++ {
			for k := 0; k < 6; k++ {
				key := fmt.Sprintf("/d/k%d", c.Rng.Intn(3))
				switch c.Rng.Intn(5) {
				case 0, 1:
					plans[cl] = append(plans[cl], lzIn{"put", key, fmt.Sprintf("c%d#%d", cl, k)})
				case 2:
					plans[cl] = append(plans[cl], lzIn{"get", key, ""})
				case 3:
					plans[cl] = append(plans[cl], lzIn{"list", "/d/", ""})
				case 4:
					plans[cl] = append(plans[cl], lzIn{"delete", key, ""})
				}
			}
		}
		var wg sync.WaitGroup
		start := make(chan struct{})
		for cl := 0; cl < clients; cl++ {
			wg.Add(1)
			go func(cl int) {
				defer wg.Done()
				<-start
				for _, in := range plans[cl] {
					var out lzOut
					call := clock.Add(1)
					switch in.Op {
					case "put":
						if err := ms.Put(in.Key, in.Val); err != nil {
							out.Err = err.Error()
						}
					case "get":
						var v string
						err := ms.Get(in.Key, &v)
						switch err {
						case nil:
							out.Found, out.Val = true, v
						case samlidp.ErrNotFound:
						default:
							out.Err = err.Error()
						}
					case "delete":
						if err := ms.Delete(in.Key); err != nil {
							out.Err = err.Error()
						}
					case "list":
						l, err := ms.List(in.Key)
						if err != nil {
							out.Err = err.Error()
						}
						sort.Strings(l)
						out.List = strings.Join(l, ",")
					}
					ret := clock.Add(1)
					ops[cl] = append(ops[cl], porcupine.Operation{ClientId: cl, Input: in, Call: call, Output: out, Return: ret})
					if (call+int64(cl))%3 == 0 {
						runtime.Gosched()
					}
				}
			}(cl)
		}
		close(start)
		wg.Wait()
		var all []porcupine.Operation
		for _, l := range ops {
			all = append(all, l...)
		}
		c.Eval()
		res, _ := porcupine.CheckOperationsVerbose(model, all, 60*time.Second)
		desc := fmt.Sprintf("lin|%v", plans)
		switch res {
		case porcupine.Ok:
			c.Nontrivial(desc)
			c.Count("histories_linearizable")
		case porcupine.Unknown:
			c.Inconclusive("porcupine timed out on a history")
		case porcupine.Illegal:
			c.Nontrivial(desc)
			var lines []string
			for _, o := range all {
				lines = append(lines, fmt.Sprintf("client %d [%d,%d] %+v -> %+v", o.ClientId, o.Call, o.Return, o.Input, o.Output))
			}
			sort.Strings(lines)
			hasList := false
			for _, o := range all {
				if o.Input.(lzIn).Op == "list" {
					hasList = true
				}
			}
			cls := "get-put-delete"
			if hasList {
				cls = "with-list"
			}
			c.Violation("C20/not-linearizable/"+cls, "MemoryStore history is not linearizable w.r.t. a sequential map", map[string]any{"history": lines})
		}
		if h%500 == 0 {
			c.Sample(map[string]any{"monitor": "linearizability", "clients": clients, "plans": fmt.Sprint(plans)})
		}
	}
}

// ---- (c) deadlock freedom by controlled scheduling ----

func c20Deadlock(c *core.Ctx) {
	type rq struct {
		name string
		kind int
	}
	lockers := []rq{{"idp-initiated", 3}, {"idp-initiated-suffix", 4}, {"sso", 1}, {"sso-post-credentials", 20}, {"metadata", 0}, {"put-service", 5}, {"delete-service", 6}, {"post-service", 21}}
	others := []rq{{"login", 2}, {"list-services", 7}, {"put-user", 9}, {"list-sessions", 13}, {"put-shortcut", 16}, {"get-service", 8}}
	all := append(append([]rq{}, lockers...), others...)
	idx := 0
	drive := func(set []rq, pickSeed int64, perm []int) {
		gate := sched.NewGate()
		e := c20NewEnv(nil)
		if !e.prepareWatched(c) {
			return
		}
		e.wrap.Hook = gate.Hook
		var names []string
		codes := make([]int, len(set))
		for i, r := range set {
			i, r := i, r
			name := fmt.Sprintf("%d:%s", i, r.name)
			names = append(names, name)
			_, req := e.request(r.kind, func(int) int { return 0 })
			gate.Go(name, func() { codes[i] = e.serve(req) })
		}
		step := 0
		state := uint64(pickSeed)*2862933555777941757 + 3037000493
		out := gate.Run(func(parked []string) int {
			defer func() { step++ }()
			if perm != nil {
				// follow the given interleaving word: perm[step] names the request index that should move next, if parked
				if step < len(perm) {
					for k, n := range parked {
						if strings.HasPrefix(n, fmt.Sprintf("%d:", perm[step])) {
							return k
						}
					}
				}
				return 0
			}
			state = state*6364136223846793005 + 1442695040888963407
			return int((state >> 33) % uint64(len(parked)))
		}, 30*time.Second)
		c.Eval()
		desc := fmt.Sprintf("sched|%v|%v", names, out.Schedule)
		c.Journal("C20 " + desc)
		switch {
		case out.Deadlock:
			c.Nontrivial(desc)
			var bl []string
			for n, st := range out.Blocked {
				if i := strings.IndexByte(n, ':'); i >= 0 {
					n = n[i+1:]
				}
				bl = append(bl, n+"["+strings.TrimPrefix(st, "sync.")+"]")
			}
			sort.Strings(bl)
			c.Violation("C20/deadlock/"+strings.Join(bl, "+"), fmt.Sprintf("requests %v can no longer make progress: every unfinished request goroutine waits for a lock (%v) after schedule %v", names, bl, out.Schedule), map[string]any{"requests": names, "schedule": out.Schedule, "blocked": out.Blocked, "goroutines": truncate(out.Dump, 20000)})
		case out.Inconclusive != "":
			c.Inconclusive("deadlock run: " + out.Inconclusive)
		default:
			c.Nontrivial(desc)
			c.Count("schedules_completed")
			for i, code := range codes {
				c.Observe("scheduled_request_outcomes", fmt.Sprintf("%s=%d", set[i].name, code))
			}
		}
	}
	// all ordered pairs involving a registry-lock-bearing handler, all interleavings (as words over {0,1})
	for _, a := range lockers {
		for _, b := range all {
			words := interleavingWords(4, 4, c.Pick(12, 70), c.Rng)
			for _, w := range words {
				idx++
				if !c.Mine(idx) {
					continue
				}
				drive([]rq{a, b}, 0, w)
			}
		}
	}
	// triples / quadruples with seeded priorities
	n := c.Pick(300, 6000)
	for i := 0; i < n; i++ {
		idx++
		if !c.Mine(idx) {
			continue
		}
		k := 3 + c.Rng.Intn(2)
		var set []rq
		set = append(set, lockers[c.Rng.Intn(len(lockers))])
		for len(set) < k {
			set = append(set, all[c.Rng.Intn(len(all))])
		}
		drive(set, c.Rng.Int63(), nil)
	}
	c.Sample(map[string]any{"monitor": "deadlock", "pairs": len(lockers) * len(all)})
}

// interleavingWords returns up to max distinct words with a zeros and b ones (which request moves next), sampled.
func interleavingWords(a, b, max int, r interface{ Intn(int) int }) [][]int {
	seen := map[string]bool{}
	var out [][]int
	for tries := 0; tries < max*6 && len(out) < max; tries++ {
		w := make([]int, 0, a+b)
		x, y := a, b
		for x+y > 0 {
			if x > 0 && (y == 0 || r.Intn(x+y) < x) {
				w = append(w, 0)
				x--
			} else {
				w = append(w, 1)
				y--
			}
		}
		k := fmt.Sprint(w)
		if !seen[k] {
			seen[k] = true
			out = append(out, w)
		}
	}
	return out
}

// ---- driver side: race-log parsing ----

var raceFrame = regexp.MustCompile(`^\s+(github\.com/crewjam/saml\S+?)\(\)\s*$`)
var anyFrame = regexp.MustCompile(`^\s+\S+\(\)\s*$`)

func c20Post(d *core.DriveState) {
	files, _ := filepath.Glob(filepath.Join(d.WorkDir, "race-*"))
	reports := 0
	pairs := map[string]string{}
	harnessOnly := 0
	for _, f := range files {
		b, err := os.ReadFile(f)
		if err != nil {
			continue
		}
		blocks := strings.Split(string(b), "WARNING: DATA RACE")
		for _, blk := range blocks[1:] {
			reports++
			// split into the two access stacks
			var stacks [][]string
			var cur []string
			for _, line := range strings.Split(blk, "\n") {
				t := strings.TrimSpace(line)
				if strings.HasSuffix(t, ":") && (strings.HasPrefix(t, "Read at") || strings.HasPrefix(t, "Write at") || strings.HasPrefix(t, "Previous read at") || strings.HasPrefix(t, "Previous write at")) {
					if cur != nil {
						stacks = append(stacks, cur)
					}
					cur = []string{}
					continue
				}
				if strings.HasPrefix(t, "Goroutine ") {
					if cur != nil {
						stacks = append(stacks, cur)
					}
					cur = nil
					continue
				}
				if cur != nil && anyFrame.MatchString(line) {
					cur = append(cur, line)
				}
			}
			if cur != nil {
				stacks = append(stacks, cur)
			}
			var fr []string
			for _, st := range stacks {
				name := ""
				for _, line := range st {
					if m := raceFrame.FindStringSubmatch(line); m != nil {
						name = strings.TrimPrefix(m[1], "github.com/crewjam/")
						break
					}
				}
				fr = append(fr, name)
			}
			if len(fr) > 2 {
				fr = fr[:2]
			}
			sort.Strings(fr)
			key := strings.Join(fr, "|")
			if strings.Trim(key, "|") == "" {
				harnessOnly++
				d.Notes = append(d.Notes, "race report without crewjam/saml frame: "+truncate(blk, 600))
				continue
			}
			if _, ok := pairs[key]; !ok {
				pairs[key] = truncate(blk, 6000)
			}
		}
	}
	d.Counters["race_reports_total"] = int64(reports)
	d.Counters["race_report_distinct_frame_pairs"] = int64(len(pairs))
	for k, blk := range pairs {
		d.AddViolation("C20/race/"+k, "data race reported by the race detector between "+k, map[string]any{"report": blk})
	}
	if harnessOnly > 0 {
		d.Broken = append(d.Broken, fmt.Sprintf("%d race reports involve only harness code", harnessOnly))
	}
}

// c20SingleWriter is a second linearizability monitor, for long histories that porcupine could not search: one writer
// changes the store step by step (every value unique), so the sequence of store states S_0..S_M is known exactly, and
// any number of readers call List and Get the whole time. A reader notes lo = number of writer operations completed
// before its call and hi = number begun when its call returned; linearizability then requires its result to equal
// S_j for some lo <= j <= hi. The check is exact for single-writer histories and costs O(hi-lo) per read.
func c20SingleWriter(c *core.Ctx) {
	rounds := c.Pick(6, 60) / c.NShards
	if rounds == 0 {
		rounds = 1
	}
	steps := c.Pick(30000, 150000)
	keys := []string{"/w/a", "/w/b", "/w/c", "/w/d"}
	for round := 0; round < rounds; round++ {
		ms := &samlidp.MemoryStore{}
		// plan the writer and the resulting states
		type wop struct {
			put bool
			key int
			val string
		}
		plan := make([]wop, steps)
		states := make([][4]string, steps+1) // value per key, "" = absent
		cur := [4]string{}
		// two regimes alternate: "token" (put the next key, then delete the previous one: never empty, and the reverse:
		// never two) and free random updates
		tok := 0
		for i := 0; i < steps; {
			states[i] = cur
			switch (i / 2000) % 3 {
			case 0: // put next, delete previous
				nx := (tok + 1) % 4
				plan[i] = wop{true, nx, fmt.Sprintf("v%d", i)}
				cur[nx] = plan[i].val
				i++
				if i < steps {
					states[i] = cur
					plan[i] = wop{false, tok, ""}
					cur[tok] = ""
					i++
				}
				tok = nx
			case 1: // delete previous, put next
				nx := (tok + 1) % 4
				plan[i] = wop{false, tok, ""}
				cur[tok] = ""
				i++
				if i < steps {
					states[i] = cur
					plan[i] = wop{true, nx, fmt.Sprintf("v%d", i)}
					cur[nx] = plan[i].val
					i++
				}
				tok = nx
			default:
				k := c.Rng.Intn(4)
				if cur[k] != "" && c.Rng.Intn(2) == 0 {
					plan[i] = wop{false, k, ""}
					cur[k] = ""
				} else {
					plan[i] = wop{true, k, fmt.Sprintf("v%d", i)}
					cur[k] = plan[i].val
				}
				i++
			}
		}
		states[steps] = cur
		listOf := func(st [4]string) string {
			var l []string
			for k, v := range st {
				if v != "" {
					l = append(l, strings.TrimPrefix(keys[k], "/w/"))
				}
			}
			return strings.Join(l, ",")
		}
		var begun, done atomic.Int64
		var stop atomic.Bool
		var mu sync.Mutex
		var bads []string
		var reads, overlapped atomic.Int64
		var wg sync.WaitGroup
		readers := 3 + c.Rng.Intn(3)
		for r := 0; r < readers; r++ {
			wg.Add(1)
			go func(r int) {
				defer wg.Done()
				for n := 0; !stop.Load(); n++ {
					lo := done.Load()
					var got string
					isList := (n+r)%3 != 0
					k := (n / 3) % 4
					if isList {
						l, _ := ms.List("/w/")
						sort.Strings(l)
						got = strings.Join(l, ",")
					} else {
						var v string
						if err := ms.Get(keys[k], &v); err == nil {
							got = v
						}
					}
					hi := begun.Load()
					ok := false
					for j := lo; j <= hi && !ok; j++ {
						if isList {
							ok = listOf(states[j]) == got
						} else {
							ok = states[j][k] == got
						}
					}
					reads.Add(1)
					if hi > lo {
						overlapped.Add(1)
					}
					if !ok {
						mu.Lock()
						if len(bads) < 5 {
							what := fmt.Sprintf("Get(%s)=%q", keys[k], got)
							if isList {
								what = fmt.Sprintf("List(/w/)=[%s]", got)
							}
							var window []string
							for j := lo; j <= hi && j < lo+6; j++ {
								window = append(window, "{"+listOf(states[j])+"}")
							}
							bads = append(bads, fmt.Sprintf("%s is none of the store states that existed during the call (writer operations %d..%d: %s)", what, lo, hi, strings.Join(window, " ")))
						}
						mu.Unlock()
					}
				}
			}(r)
		}
		for i, op := range plan {
			begun.Store(int64(i + 1))
			if op.put {
				_ = ms.Put(keys[op.key], op.val)
			} else {
				_ = ms.Delete(keys[op.key])
			}
			done.Store(int64(i + 1))
			if i%64 == 0 {
				runtime.Gosched()
			}
		}
		stop.Store(true)
		wg.Wait()
		c.EvalN(reads.Load())
		c.CountN("single_writer_reads_checked", reads.Load())
		c.CountN("single_writer_reads_overlapping_a_write", overlapped.Load())
		if overlapped.Load() > 0 {
			c.Nontrivial(fmt.Sprintf("single-writer round %d shard %d", round, c.Shard))
		}
		for _, b := range bads {
			c.Violation("C20/linearizability/single-writer-snapshot", b, map[string]any{"round": round, "readers": readers, "steps": steps})
		}
	}
}

var c20EnvCount int

var c20CustomLogin = template.Must(template.New("custom-login").Parse(`<html><body><h1>Sign in</h1><p class="toast">{{.Toast}}</p><form method="post" action="{{.URL}}"><input name="user"/><input type="password" name="password"/><input type="hidden" name="SAMLRequest" value="{{.SAMLRequest}}"/><input type="hidden" name="RelayState" value="{{.RelayState}}"/><button>Log in</button></form></body></html>`))
