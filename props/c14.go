//go:build verif

package props

import (
	"bytes"
	"encoding/xml"
	"fmt"
	"net/http"
	"net/http/httptest"
	"net/url"
	"strings"

	"github.com/crewjam/saml"
	"github.com/crewjam/saml/samlidp"
	"github.com/crewjam/saml/samlsp"

	"verif/internal/core"
	"verif/internal/fx"
	"verif/internal/htmlmon"
	"verif/internal/so"
)

// C14 — peer-controlled strings cannot alter emitted HTML forms or smuggle script URLs.

func init() {
	core.HookCommits = []string{"84c66a9"}
	core.RegisterSpec(&core.Spec{
		ID:    "C14",
		Level: "exploration",
		Rule: "forms: every emitter (AuthnRequest.Post, LogoutRequest.Post, LogoutResponse.Post, IdpAuthnRequest.WriteResponse, the middleware POST page, the samlidp login form incl. its toast through the verif export) x every interpolated position (action URL, message field, RelayState, toast) x hostile strings (quotes, <, >, &, backtick, </script>, </form>, -->, ]]>, NUL, U+2028/2029, template delimiters, javascript:/data:/vbscript: URLs in many spellings, 64 KiB, invalid UTF-8); each page is parsed with an HTML5 parser and must have exactly the element/attribute structure of the benign baseline, the string back as inert attribute value (or text), a non-script action scheme, and only the constant scripts. " +
			"metadata: generated documents with every endpoint-bearing element in every descriptor kind (also nested in EntitiesDescriptor) x bindings {5 known, unknown, empty, absent} x Location/ResponseLocation values over schemes and spellings; parsed through xml.Unmarshal, samlsp.ParseMetadata and PUT /services; oracle: parse error, or known binding => browser-extracted scheme of every surviving Location/ResponseLocation is http/https, unknown binding => blank; surviving values are then used to emit SP request forms/redirects and IdP response forms and checked again. Non-trivial = page parsed / metadata document consumed; distinct by (emitter, position, string) or (element, descriptor, binding, value).",
		Assumptions: []string{"action attributes are compared modulo percent-encoding (html/template normalises URLs)", "line breaks in attribute values are compared modulo HTML newline normalisation", "x/net/html models the browser's parser"},
		FloorQuick:  1500,
		FloorThor:   10000,
		Run:         runC14,
		LevelText:   "Every interpolation position of every emitted form is driven with a hostile string corpus and the result is judged on the DOM an independent HTML5 parser builds (structure equality with the benign baseline, inert values, action scheme); metadata scheme filtering is checked on generated documents for every endpoint-bearing element and then end-to-end on the forms/redirects built from the surviving values. Held-on-observed.",
		LevelNote:   "Trusts golang.org/x/net/html as browser model and a 20-line browser-scheme extractor.",
		Technique:   "runtime monitoring: HTML5-parse structural oracle on emitted forms; browser-scheme oracle on parsed metadata",
		DesignRef:   "DESIGN.md §5 C14",
	})
}

var c14Strings = []string{
	"plain", "", "\"", "'", "<", ">", "&", "`", "\"><script>alert(1)</script>", "'><img src=x onerror=alert(1)>", "</script><script>alert(1)</script>", "</form><form action=\"https://evil.example/\">", "-->", "<!--", "]]>",
	"\x00", "a\x00b", " ", " ", "{{.}}", "{{define \"x\"}}{{end}}", "{{ .URL }}", "<", "&quot;onmouseover=&quot;alert(1)", "\" onmouseover=\"alert(1)", "' autofocus onfocus=alert(1) x='", "javascript:alert(1)", "JaVaScRiPt:alert(1)",
	" javascript:alert(1)", "\tjavascript:alert(1)", "java\tscript:alert(1)", "java\nscript:alert(1)", "\x01javascript:alert(1)", "data:text/html,<script>alert(1)</script>", "vbscript:msgbox(1)", "//evil.example/x", "/relative", "?q=1", "#frag",
	"https://evil.example/\"><script>x</script>", "https://ok.example/path?a=1&b=2", "https://ok.example/ünï", "\xff\xfe", "\xc3\x28", strings.Repeat("A", 65536), strings.Repeat("\"<>&'", 2000), "%22%3E%3Cscript%3E", "&#34;&#62;", "\\\"", "\r\n", "a\rb",
	"<input name=\"SAMLResponse\" value=\"evil\">", "<textarea>", "</textarea>", "<style>", "<svg/onload=alert(1)>", "<iframe srcdoc=\"x\">", "\u0000\u0001\u0002", "\ufeff", "\U000E0001",
}

func c14Str(c *core.Ctx) string {
	if c.Rng.Intn(6) == 0 {
		var b strings.Builder
		for i := 1 + c.Rng.Intn(8); i > 0; i-- {
			b.WriteString([]string{"\"", "'", "<", ">", "&", "`", "=", " ", "/", "script", "on", "javascript:", "\\", "\n", "{{", "}}", "-->", "x"}[c.Rng.Intn(18)])
		}
		return b.String()
	}
	return c14Strings[c.Rng.Intn(len(c14Strings))]
}

type c14Emitter struct {
	name      string
	positions []string
	// emit renders the page with the values for each position (missing => benign default)
	emit func(v map[string]string) ([]byte, error)
	// field names of the hidden inputs that carry RelayState / message
	relayField string
}

func pick(v map[string]string, k, def string) string {
	if x, ok := v[k]; ok {
		return x
	}
	return def
}

func c14Emitters() []c14Emitter {
	kp := fx.K("sp_rsa2048")
	mkSP := func(dest string) *saml.ServiceProvider {
		md := so.IDPMetadata("meta-one-signing")
		md.IDPSSODescriptors[0].SingleSignOnServices = []saml.Endpoint{{Binding: saml.HTTPPostBinding, Location: dest}}
		md.IDPSSODescriptors[0].SingleLogoutServices = []saml.Endpoint{{Binding: saml.HTTPPostBinding, Location: dest}}
		return &saml.ServiceProvider{Key: kp.Key, Certificate: kp.Cert, MetadataURL: mustURL(so.SPMeta), AcsURL: mustURL(so.SPACS), SloURL: mustURL(so.SPSLO), IDPMetadata: md}
	}
	const benignURL = "https://idp.example.com/sso"
	idpSrv, _ := samlidp.New(samlidp.Options{URL: mustURL("https://idp.example.com"), Key: fx.K("idp_s1").Key, Certificate: fx.K("idp_s1").Cert, Store: &samlidp.MemoryStore{}})
	return []c14Emitter{
		{"AuthnRequest.Post", []string{"url", "relay", "message"}, func(v map[string]string) ([]byte, error) {
			sp := mkSP(pick(v, "url", benignURL))
			ar, err := sp.MakeAuthenticationRequest(sp.GetSSOBindingLocation(saml.HTTPPostBinding), saml.HTTPPostBinding, saml.HTTPPostBinding)
			if err != nil {
				return nil, err
			}
			if m, ok := v["message"]; ok {
				ar.ID = m // flows into the (base64) message field
			}
			return ar.Post(pick(v, "relay", "relay")), nil
		}, "RelayState"},
		{"LogoutRequest.Post", []string{"url", "relay", "message"}, func(v map[string]string) ([]byte, error) {
			sp := mkSP(pick(v, "url", benignURL))
			return sp.MakePostLogoutRequest(pick(v, "message", "name-id"), pick(v, "relay", "relay"))
		}, "RelayState"},
		{"LogoutResponse.Post", []string{"url", "relay", "message"}, func(v map[string]string) ([]byte, error) {
			sp := mkSP(pick(v, "url", benignURL))
			return sp.MakePostLogoutResponse(pick(v, "message", "id-req"), pick(v, "relay", "relay"))
		}, "RelayState"},
		{"IdpAuthnRequest.WriteResponse", []string{"url", "relay", "message"}, func(v map[string]string) ([]byte, error) {
			w := so.NewIDPWorld()
			w.Session.NameID = pick(v, "message", "alice")
			req := &saml.IdpAuthnRequest{IDP: w.IDP, HTTPRequest: httptest.NewRequest("GET", "https://idp.example.com/x", nil), RelayState: pick(v, "relay", "relay"), Now: fx.Now(),
				ServiceProviderMetadata: &saml.EntityDescriptor{EntityID: so.SPMeta}, SPSSODescriptor: &saml.SPSSODescriptor{},
				ACSEndpoint: &saml.IndexedEndpoint{Binding: saml.HTTPPostBinding, Location: pick(v, "url", so.SPACS)}}
			if err := (saml.DefaultAssertionMaker{}).MakeAssertion(req, w.Session); err != nil {
				return nil, err
			}
			rec := httptest.NewRecorder()
			if err := req.WriteResponse(rec); err != nil {
				return nil, err
			}
			return rec.Body.Bytes(), nil
		}, "RelayState"},
		{"middleware-post-page", []string{"url", "relay"}, func(v map[string]string) ([]byte, error) {
			md := so.IDPMetadata("meta-one-signing")
			md.IDPSSODescriptors[0].SingleSignOnServices = []saml.Endpoint{{Binding: saml.HTTPPostBinding, Location: pick(v, "url", benignURL)}}
			m, err := samlsp.New(samlsp.Options{URL: mustURL(so.SPRoot), Key: kp.Key, Certificate: kp.Cert, IDPMetadata: md,
				RelayStateFunc: func(http.ResponseWriter, *http.Request) string { return pick(v, "relay", "relay") }})
			if err != nil {
				return nil, err
			}
			m.Binding = saml.HTTPPostBinding
			rec := httptest.NewRecorder()
			m.HandleStartAuthFlow(rec, httptest.NewRequest("GET", "https://sp.example.com/protected", nil))
			if rec.Code >= 500 {
				return nil, fmt.Errorf("status %d: %s", rec.Code, rec.Body.String())
			}
			return rec.Body.Bytes(), nil
		}, "RelayState"},
		{"samlidp-login-form", []string{"toast", "relay", "message", "url"}, func(v map[string]string) ([]byte, error) {
			idp := idpSrv.IDP
			idp.LoginURL = mustURLLoose(pick(v, "url", "https://idp.example.com/login"))
			req := &saml.IdpAuthnRequest{IDP: &idp, RelayState: pick(v, "relay", "relay"), RequestBuffer: []byte(pick(v, "message", "<AuthnRequest/>"))}
			rec := httptest.NewRecorder()
			idpSrv.VerifSendLoginForm(rec, req, pick(v, "toast", "Invalid username or password"))
			return rec.Body.Bytes(), nil
		}, "RelayState"},
		{"samlidp-login-form-via-sso", []string{"relay", "message"}, func(v map[string]string) ([]byte, error) {
			// through real requests: unauthenticated SSO request -> login form carrying the peer's RelayState and request
			srv, _ := samlidp.New(samlidp.Options{URL: mustURL("https://idp.example.com"), Key: fx.K("idp_s1").Key, Certificate: fx.K("idp_s1").Cert, Store: &samlidp.MemoryStore{}})
			spmd := c09SPMetadata()
			b, _ := xml.Marshal(spmd)
			rec0 := httptest.NewRecorder()
			srv.ServeHTTP(rec0, httptest.NewRequest("PUT", "https://idp.example.com/services/sp", bytes.NewReader(b)))
			f := string(saml.TransientNameIDFormat)
			ar := saml.AuthnRequest{ID: "id-" + pick(v, "message", "req"), Version: "2.0", IssueInstant: fx.Now(), Destination: "https://idp.example.com/sso", AssertionConsumerServiceURL: so.SPACS, Issuer: &saml.Issuer{Value: so.SPMeta}, NameIDPolicy: &saml.NameIDPolicy{Format: &f}}
			rec := httptest.NewRecorder()
			srv.ServeHTTP(rec, so.SSORequestPOST("https://idp.example.com/sso", so.Bytes(ar.Element()), pick(v, "relay", "relay")))
			if rec.Code != 200 {
				return nil, fmt.Errorf("status %d", rec.Code)
			}
			return rec.Body.Bytes(), nil
		}, "RelayState"},
	}
}

func mustURLLoose(s string) url.URL {
	u, err := url.Parse(s)
	if err != nil {
		return url.URL{Opaque: s}
	}
	return *u
}

func looseString(s string) string {
	u := mustURLLoose(s)
	return u.String()
}

func htmlNorm(s string) string {
	// HTML input-stream preprocessing: CRLF and CR become LF; NUL in attribute values becomes U+FFFD
	s = strings.ReplaceAll(strings.ReplaceAll(s, "\r\n", "\n"), "\r", "\n")
	return strings.ReplaceAll(s, "\x00", "�")
}

func runC14(c *core.Ctx) {
	so.Quiet()
	fx.SetNow(fx.Epoch)
	fx.ResetTolerances()
	saml.RandReader = fx.NewRecReader(c.Seed)
	ems := c14Emitters()
	idx := 0
	mine := func() bool { idx++; return c.Mine(idx) }
	baselines := map[string]string{}
	scripts := map[string][]string{}
	for _, e := range ems {
		page, err := e.emit(map[string]string{})
		if err != nil {
			c.Inconclusive("baseline of " + e.name + " failed: " + err.Error())
			continue
		}
		pg, perr := htmlmon.Parse(page)
		if perr != nil {
			c.Inconclusive("baseline of " + e.name + " unparsable")
			continue
		}
		baselines[e.name] = pg.Shape()
		scripts[e.name] = pg.Scripts
		c.Observe("baseline_shapes", e.name+": "+pg.Shape())
	}
	reps := c.Pick(8, 80)
	for _, e := range ems {
		if baselines[e.name] == "" {
			continue
		}
		for _, pos := range e.positions {
			for _, s := range c14Strings {
				if mine() {
					c14Form(c, e, map[string]string{pos: s}, baselines[e.name], scripts[e.name])
				}
			}
			for r := 0; r < reps*20; r++ {
				if mine() {
					c14Form(c, e, map[string]string{pos: c14Str(c)}, baselines[e.name], scripts[e.name])
				}
			}
		}
		// several positions at once
		for r := 0; r < reps*40; r++ {
			if !mine() {
				continue
			}
			v := map[string]string{}
			for _, pos := range e.positions {
				if c.Rng.Intn(2) == 0 {
					v[pos] = c14Str(c)
				}
			}
			c14Form(c, e, v, baselines[e.name], scripts[e.name])
		}
	}
	c14Metadata(c, mine)
}

func c14Form(c *core.Ctx, e c14Emitter, v map[string]string, baseline string, baseScripts []string) {
	var keys []string
	for k, s := range v {
		keys = append(keys, fmt.Sprintf("%s=%q", k, truncate(s, 60)))
	}
	desc := e.name + " " + strings.Join(keys, " ")
	c.Journal("C14 " + desc)
	var page []byte
	var err error
	p, pv, frame, _ := core.Guard(func() { page, err = e.emit(v) })
	c.Eval()
	replay := map[string]any{"case": desc, "values": v}
	if p {
		c.Violation("C14/panic/"+e.name+"/"+frame, fmt.Sprintf("panic %v (%s)", pv, desc), replay)
		return
	}
	if err != nil {
		c.Count("emitter_refused(error)")
		return
	}
	replay["page"] = string(trunc(page, 10000))
	// pages handed out earlier stay what they were: a page that a later emission (with other, possibly hostile values)
	// rewrites is a page whose content the peer of that later request controls
	for i := range c14Held {
		if !bytes.Equal(c14Held[i].page, c14Held[i].copy) {
			c.Violation("C14/form/earlier-page-rewritten/"+c14Held[i].name, fmt.Sprintf("the page emitted for (%s) changed after a later emission (%s)", truncate(c14Held[i].desc, 200), truncate(desc, 200)), map[string]any{"was": string(trunc(c14Held[i].copy, 4000)), "is": string(trunc(c14Held[i].page, 4000))})
			c14Held = nil
			return
		}
	}
	c14Held = append(c14Held, c14HeldPage{e.name, desc, page, append([]byte(nil), page...)})
	if len(c14Held) > 6 {
		c14Held = c14Held[1:]
	}
	pg, perr := htmlmon.Parse(page)
	if perr != nil {
		c.Violation("C14/unparsable/"+e.name, perr.Error(), replay)
		return
	}
	c.Nontrivial(desc)
	var posNames []string
	for k := range v {
		posNames = append(posNames, k)
	}
	posKey := strings.Join(posNames, "+")
	if len(posNames) > 1 {
		posKey = "several"
	}
	bad := func(clause, m string) {
		c.Violation("C14/form/"+clause+"/"+e.name+"/"+posKey, m+" ("+truncate(desc, 300)+")", replay)
	}
	if sh := pg.Shape(); sh != baseline {
		// a page may legitimately leave out a field whose value is empty: compare with the benign page that has the same
		// positions empty before calling it a change
		alt := baseline
		benign := map[string]string{}
		anyEmpty := false
		for k, s := range v {
			if s == "" {
				benign[k] = ""
				anyEmpty = true
			}
		}
		if anyEmpty {
			if bp, berr := e.emit(benign); berr == nil {
				if bpg, bperr := htmlmon.Parse(bp); bperr == nil {
					alt = bpg.Shape()
				}
			}
		}
		if sh != alt {
			bad("structure-changed", fmt.Sprintf("page structure %q differs from the benign baseline %q", truncate(sh, 300), truncate(alt, 300)))
			return
		}
	}
	if len(pg.Scripts) != len(baseScripts) {
		bad("scripts", "number of script elements changed")
		return
	}
	for i := range pg.Scripts {
		if pg.Scripts[i] != baseScripts[i] {
			bad("scripts", fmt.Sprintf("script %d changed: %q", i, truncate(pg.Scripts[i], 200)))
			return
		}
		for k := range pg.ScriptAttrs[i] {
			bad("scripts", "script element has attribute "+k)
			return
		}
	}
	if len(pg.Forms) != 1 {
		bad("form-count", fmt.Sprintf("%d forms", len(pg.Forms)))
		return
	}
	f := pg.Forms[0]
	action := f.Attrs["action"]
	if sc := htmlmon.BrowserScheme(action); sc == "javascript" || sc == "data" || sc == "vbscript" {
		bad("script-scheme-action", fmt.Sprintf("form action %q has scheme %s", truncate(action, 100), sc))
		return
	}
	if u, ok := v["url"]; ok {
		sc := htmlmon.BrowserScheme(u)
		same := func(a, b string) bool {
			return a == b || pctDecode(a) == pctDecode(b) || pctDecode(pctDecode(a)) == pctDecode(pctDecode(b))
		}
		switch {
		case action == "#ZgotmplZ":
			c.Count("actions_neutralised_by_template")
		case same(action, u) || same(action, htmlNorm(u)) || same(action, toValidUTF8(u)) || same(action, looseString(u)) || same(action, looseString(htmlNorm(u))):
			if sc == "javascript" || sc == "data" || sc == "vbscript" {
				bad("script-scheme-action", "action carries the hostile URL")
				return
			}
		default:
			if e.name != "samlidp-login-form" { // LoginURL is configuration and goes through url.URL, which re-encodes
				bad("action-differs", fmt.Sprintf("action %q is neither the intended URL %q nor the template sentinel", truncate(action, 200), truncate(u, 200)))
				return
			}
		}
	}
	for _, in := range f.Inputs {
		if in.Attrs["name"] == e.relayField {
			if r, ok := v["relay"]; ok && (r != "" || e.name != "middleware-post-page") && htmlNorm(in.Attrs["value"]) != htmlNorm(toValidUTF8(r)) && htmlNorm(in.Attrs["value"]) != htmlNorm(r) { // line breaks compared modulo the HTML parser's CR/CRLF -> LF (an emitter may also preserve them with character references)
				bad("relay-value", fmt.Sprintf("RelayState field %q, input %q", truncate(in.Attrs["value"], 200), truncate(r, 200)))
				return
			}
		}
	}
	if t, ok := v["toast"]; ok {
		want := htmlNorm(toValidUTF8(t))
		if !strings.Contains(htmlNorm(pg.Text), want) && !strings.Contains(htmlNorm(pg.Text), htmlNorm(t)) {
			bad("toast-text", fmt.Sprintf("toast text not found verbatim as inert text; page text %q", truncate(pg.Text, 200)))
			return
		}
	}
	c.Count("forms_ok")
	c.SampleSome(map[string]any{"case": truncate(desc, 200), "shape": truncate(baseline, 120)})
}

func toValidUTF8(s string) string { return strings.ToValidUTF8(s, "�") }

// ---- metadata ----

var c14Locations = []string{
	"http://ok.example/a", "https://ok.example/a", "HTTP://ok.example/a", "HttPs://ok.example/a", "javascript:alert(1)", "JaVaScRiPt:alert(1)", "data:text/html,x", "vbscript:x", " javascript:alert(1)", "\tjavascript:alert(1)", "\njavascript:alert(1)",
	"javascript:alert(1) ", "java\tscript:alert(1)", "java\nscript:alert(1)", "\x01javascript:alert(1)", "javascript&#58;alert(1)", "//evil.example/x", "/relative", "relative", "", "https://ok.example/%zz", "https://[::1]:8443/a", "https://user:pw@ok.example/a",
	"https://ok.example/a?x=1&y=2#f", "ftp://ok.example/a", "file:///etc/passwd", "urn:x:y", "mailto:a@b", "https:/ok.example", "https:ok.example", "http:javascript:alert(1)", "jAvAsCrIpT://ok.example/%0aalert(1)", "https://ok.example/\"><script>",
	"javascript://%0aalert(1)", "blob:https://x/1", "about:blank", "view-source:javascript:alert(1)", " javascript:alert(1)", "ｊavascript:alert(1)", "https://ok.example/ünï",
	// http(s) URLs wrapped in white space or separators: a browser would skip the junk, a URL is what is left after it
	" https://ok.example/a", "https://ok.example/a ", "\n\t\thttps://ok.example/a\n\t", "\u2028https://ok.example/a", "\u00a0https://ok.example/a", "\u3000http://ok.example/a\u3000", "\x0chttps://ok.example/a", "\rhttps://ok.example/a\r\n",
}

var c14MdBindings = []string{saml.HTTPPostBinding, saml.HTTPRedirectBinding, saml.HTTPArtifactBinding, saml.SOAPBinding, saml.SOAPBindingV1, "urn:mace:shibboleth:1.0:profiles:AuthnRequest", "urn:unknown", "", "<absent>"}

type c14Slot struct {
	descriptor string // IDPSSODescriptor ...
	element    string
	indexed    bool
}

var c14Slots = []c14Slot{
	{"IDPSSODescriptor", "SingleSignOnService", false}, {"IDPSSODescriptor", "SingleLogoutService", false}, {"IDPSSODescriptor", "ArtifactResolutionService", true}, {"IDPSSODescriptor", "ManageNameIDService", false},
	{"IDPSSODescriptor", "NameIDMappingService", false}, {"IDPSSODescriptor", "AssertionIDRequestService", false},
	{"SPSSODescriptor", "AssertionConsumerService", true}, {"SPSSODescriptor", "SingleLogoutService", false}, {"SPSSODescriptor", "ArtifactResolutionService", true}, {"SPSSODescriptor", "ManageNameIDService", false},
	{"AuthnAuthorityDescriptor", "AuthnQueryService", false}, {"AuthnAuthorityDescriptor", "AssertionIDRequestService", false},
	{"PDPDescriptor", "AuthzService", false}, {"PDPDescriptor", "AssertionIDRequestService", false},
	{"AttributeAuthorityDescriptor", "AttributeService", false}, {"AttributeAuthorityDescriptor", "AssertionIDRequestService", false},
}

func xmlAttrEscape(s string) string {
	var b bytes.Buffer
	_ = xml.EscapeText(&b, []byte(s))
	return b.String()
}

// c14Twin selects how the (hostile) Location is spelled next to a harmless one: a namespace-qualified attribute of the same
// local name is a different attribute to XML, but a decoder that matches by local name may let it shadow the plain one.
var c14Twin = ""

// c14IndexAttrs is what an indexed endpoint carries after its locations (also in malformed spellings).
var c14IndexAttrs = ` index="1" isDefault="true"`

func c14MdDoc(slot c14Slot, binding, loc string, respLoc *string, nested bool, entityID string) []byte {
	var b strings.Builder
	if nested {
		b.WriteString(`<EntitiesDescriptor xmlns="urn:oasis:names:tc:SAML:2.0:metadata">`)
	}
	fmt.Fprintf(&b, `<EntityDescriptor xmlns="urn:oasis:names:tc:SAML:2.0:metadata" entityID="%s">`, xmlAttrEscape(entityID))
	fmt.Fprintf(&b, `<%s protocolSupportEnumeration="urn:oasis:names:tc:SAML:2.0:protocol">`, slot.descriptor)
	if slot.descriptor == "SPSSODescriptor" && slot.element != "AssertionConsumerService" {
		// keep the document useful for end-to-end use
	}
	fmt.Fprintf(&b, `<%s`, slot.element)
	if binding != "<absent>" {
		fmt.Fprintf(&b, ` Binding="%s"`, xmlAttrEscape(binding))
	}
	switch c14Twin {
	case "":
		fmt.Fprintf(&b, ` Location="%s"`, xmlAttrEscape(loc))
	case "qualified-after":
		fmt.Fprintf(&b, ` Location="https://ok.example/a" xmlns:x="urn:example:x" x:Location="%s"`, xmlAttrEscape(loc))
	case "qualified-before":
		fmt.Fprintf(&b, ` xmlns:x="urn:example:x" x:Location="%s" Location="https://ok.example/a"`, xmlAttrEscape(loc))
	case "md-prefixed-after":
		fmt.Fprintf(&b, ` Location="https://ok.example/a" xmlns:md="urn:oasis:names:tc:SAML:2.0:metadata" md:Location="%s"`, xmlAttrEscape(loc))
	case "plain-hostile-qualified-good":
		fmt.Fprintf(&b, ` Location="%s" xmlns:x="urn:example:x" x:Location="https://ok.example/a"`, xmlAttrEscape(loc))
	case "qualified-binding-too":
		fmt.Fprintf(&b, ` Location="https://ok.example/a" xmlns:x="urn:example:x" x:Location="%s" x:Binding="urn:oasis:names:tc:SAML:2.0:bindings:HTTP-POST" x:ResponseLocation="%s"`, xmlAttrEscape(loc), xmlAttrEscape(loc))
	}
	if respLoc != nil {
		fmt.Fprintf(&b, ` ResponseLocation="%s"`, xmlAttrEscape(*respLoc))
	}
	if slot.indexed {
		b.WriteString(c14IndexAttrs)
	}
	b.WriteString(`/>`)
	fmt.Fprintf(&b, `</%s></EntityDescriptor>`, slot.descriptor)
	if nested {
		b.WriteString(`</EntitiesDescriptor>`)
	}
	return []byte(b.String())
}

type c14Ep struct {
	where, binding, loc, resp string
}

func collectAllEndpoints(m *saml.EntityDescriptor) []c14Ep {
	var out []c14Ep
	ep := func(w string, l []saml.Endpoint) {
		for _, e := range l {
			out = append(out, c14Ep{w, e.Binding, e.Location, e.ResponseLocation})
		}
	}
	iep := func(w string, l []saml.IndexedEndpoint) {
		for _, e := range l {
			r := ""
			if e.ResponseLocation != nil {
				r = *e.ResponseLocation
			}
			out = append(out, c14Ep{w, e.Binding, e.Location, r})
		}
	}
	for _, d := range m.IDPSSODescriptors {
		ep("idp.sso", d.SingleSignOnServices)
		ep("idp.ars", d.ArtifactResolutionServices)
		iep("idp.sso-desc.ars", d.SSODescriptor.ArtifactResolutionServices)
		ep("idp.slo", d.SingleLogoutServices)
		ep("idp.mni", d.ManageNameIDServices)
		ep("idp.nim", d.NameIDMappingServices)
		ep("idp.air", d.AssertionIDRequestServices)
	}
	for _, d := range m.SPSSODescriptors {
		iep("sp.acs", d.AssertionConsumerServices)
		iep("sp.ars", d.ArtifactResolutionServices)
		ep("sp.slo", d.SingleLogoutServices)
		ep("sp.mni", d.ManageNameIDServices)
	}
	for _, d := range m.AuthnAuthorityDescriptors {
		ep("aa.aq", d.AuthnQueryServices)
		ep("aa.air", d.AssertionIDRequestServices)
	}
	for _, d := range m.PDPDescriptors {
		ep("pdp.az", d.AuthzServices)
		ep("pdp.air", d.AssertionIDRequestServices)
	}
	for _, d := range m.AttributeAuthorityDescriptors {
		ep("attr.as", d.AttributeServices)
		ep("attr.air", d.AssertionIDRequestServices)
	}
	return out
}

func c14Metadata(c *core.Ctx, mine func() bool) {
	srv, _ := samlidp.New(samlidp.Options{URL: mustURL("https://idp.example.com"), Key: fx.K("idp_s1").Key, Certificate: fx.K("idp_s1").Cert, Store: &samlidp.MemoryStore{}})
	judge := func(desc string, doc []byte, md *saml.EntityDescriptor, via string) {
		replay := map[string]any{"case": desc, "via": via, "document": string(doc)}
		eps := collectAllEndpoints(md)
		if len(eps) == 0 {
			c.Count("metadata_parsed_without_endpoints")
		}
		for _, e := range eps {
			for which, val := range map[string]string{"Location": e.loc, "ResponseLocation": e.resp} {
				if which == "ResponseLocation" && val == "" {
					continue
				}
				if knownBinding(e.binding) {
					if sc := htmlmon.BrowserScheme(val); sc != "http" && sc != "https" {
						c.Violation(fmt.Sprintf("C14/metadata/non-http-scheme/%s/%s", e.where, which), fmt.Sprintf("%s of %s with binding %s survived parsing (%s) as %q (browser scheme %q) (%s)", which, e.where, shortAlg(e.binding), via, truncate(val, 80), sc, desc), replay)
						return
					}
					// "an http or https URL": also for a URL library, not only for a browser that skips leading junk; a stored
					// value that only becomes a URL after trimming is not one (the form templates refuse it as an action)
					if u, perr := url.Parse(val); perr != nil || (!strings.EqualFold(u.Scheme, "http") && !strings.EqualFold(u.Scheme, "https")) {
						c.Violation(fmt.Sprintf("C14/metadata/not-a-url/%s/%s", e.where, which), fmt.Sprintf("%s of %s with binding %s survived parsing (%s) as %q, which is not an absolute http(s) URL (%v) (%s)", which, e.where, shortAlg(e.binding), via, truncate(val, 80), perr, desc), replay)
						return
					}
				} else if val != "" {
					c.Violation(fmt.Sprintf("C14/metadata/unknown-binding-not-blanked/%s/%s", e.where, which), fmt.Sprintf("%s of %s with unknown binding %q kept value %q (%s) (%s)", which, e.where, e.binding, truncate(val, 80), via, desc), replay)
					return
				}
			}
		}
		c.Count("metadata_documents_ok")
		// end to end: use the surviving values
		if len(md.IDPSSODescriptors) > 0 && via == "samlsp.ParseMetadata" {
			sp := &saml.ServiceProvider{Key: fx.K("sp_rsa2048").Key, Certificate: fx.K("sp_rsa2048").Cert, MetadataURL: mustURL(so.SPMeta), AcsURL: mustURL(so.SPACS), SloURL: mustURL(so.SPSLO), IDPMetadata: md}
			for _, b := range []string{saml.HTTPPostBinding, saml.HTTPRedirectBinding} {
				if loc := sp.GetSSOBindingLocation(b); loc != "" || true {
					var page []byte
					var u *url.URL
					var err error
					if pp, _, _, _ := core.Guard(func() {
						if b == saml.HTTPPostBinding {
							page, err = sp.MakePostAuthenticationRequest("relay")
						} else {
							u, err = sp.MakeRedirectAuthenticationRequest("relay")
						}
					}); pp || err != nil {
						continue
					}
					if page != nil {
						if pg, e := htmlmon.Parse(page); e == nil && len(pg.Forms) == 1 {
							a := pg.Forms[0].Attrs["action"]
							if sc := htmlmon.BrowserScheme(a); sc != "http" && sc != "https" && a != "" && a != "#ZgotmplZ" {
								c.Violation("C14/end-to-end/sp-form-action", fmt.Sprintf("SP request form action %q (scheme %q) from parsed metadata (%s)", truncate(a, 80), sc, desc), replay)
							}
							c.Count("end_to_end_forms")
						}
					}
					if u != nil && u.String() != "" {
						if sc := htmlmon.BrowserScheme(u.String()); sc != "http" && sc != "https" && sc != "" {
							c.Violation("C14/end-to-end/sp-redirect", fmt.Sprintf("SP redirect %q (scheme %q) from parsed metadata (%s)", truncate(u.String(), 80), sc, desc), replay)
						}
						c.Count("end_to_end_redirects")
					}
				}
			}
		}
		if len(md.SPSSODescriptors) > 0 && via == "PUT /services" {
			// IdP-initiated towards the stored service: form action must be http(s)
			w := so.NewIDPWorld()
			w.Registry[md.EntityID] = md
			rec := httptest.NewRecorder()
			if pp, _, _, _ := core.Guard(func() {
				w.IDP.ServeIDPInitiated(rec, httptest.NewRequest("GET", "https://idp.example.com/login/x", nil), md.EntityID, "relay")
			}); !pp {
				if em, e := so.DecodeReply(rec.Body.Bytes(), nil); e == nil && em != nil {
					if sc := htmlmon.BrowserScheme(em.Action); sc != "http" && sc != "https" {
						c.Violation("C14/end-to-end/idp-form-action", fmt.Sprintf("IdP response form action %q (scheme %q) (%s)", truncate(em.Action, 80), sc, desc), replay)
					}
					c.Count("end_to_end_idp_forms")
				}
			}
		}
	}
	run := func(slot c14Slot, binding, loc string, resp *string, nested bool) {
		desc := fmt.Sprintf("%s/%s binding=%q Location=%q ResponseLocation=%v nested=%v", slot.descriptor, slot.element, binding, truncate(loc, 60), respStr(resp), nested)
		if c14Twin != "" {
			desc += " spelled=" + c14Twin
		}
		doc := c14MdDoc(slot, binding, loc, resp, nested, so.SPMeta)
		c.Journal("C14 md " + desc)
		c.Eval()
		c.Nontrivial(desc)
		// xml.Unmarshal
		if !nested {
			var md saml.EntityDescriptor
			var err error
			if pp, v, fr, _ := core.Guard(func() { err = xml.Unmarshal(doc, &md) }); pp {
				c.Violation("C14/panic/"+fr, fmt.Sprint(v), desc)
				return
			}
			if err == nil {
				judge(desc, doc, &md, "xml.Unmarshal")
			} else {
				c.Count("metadata_rejected")
			}
		} else {
			var mds saml.EntitiesDescriptor
			if err := xml.Unmarshal(doc, &mds); err == nil {
				for i := range mds.EntityDescriptors {
					judge(desc, doc, &mds.EntityDescriptors[i], "xml.Unmarshal(EntitiesDescriptor)")
				}
			} else {
				c.Count("metadata_rejected")
			}
		}
		// samlsp.ParseMetadata (wants an IdP descriptor)
		if md, err := samlsp.ParseMetadata(doc); err == nil && md != nil {
			judge(desc, doc, md, "samlsp.ParseMetadata")
		}
		// PUT /services
		if c.Rng.Intn(3) == 0 {
			rec := httptest.NewRecorder()
			if pp, v, fr, _ := core.Guard(func() {
				srv.ServeHTTP(rec, httptest.NewRequest("PUT", "https://idp.example.com/services/s1", bytes.NewReader(doc)))
			}); pp {
				c.Violation("C14/panic/"+fr, fmt.Sprint(v), desc)
				return
			}
			if rec.Code >= 200 && rec.Code < 300 {
				var svc samlidp.Service
				if err := srv.Store.Get("/services/s1", &svc); err == nil {
					judge(desc, doc, &svc.Metadata, "PUT /services")
				}
			}
		}
		c.SampleSome(map[string]any{"case": desc})
	}
	for _, slot := range c14Slots {
		for _, b := range c14MdBindings {
			for _, loc := range c14Locations {
				if mine() {
					run(slot, b, loc, nil, false)
				}
				if mine() { // hostile ResponseLocation next to a good Location
					l := loc
					run(slot, b, "https://ok.example/a", &l, c.Rng.Intn(4) == 0)
				}
			}
		}
	}
	// indexed endpoints whose index / isDefault attributes are malformed, after a hostile Location
	for _, ia := range []string{` index="one" isDefault="true"`, ` index="1" isDefault="yes"`, ` index="" isDefault=""`, ` index="1.0"`, ` index="99999999999999999999"`, ` isDefault="TRUE" index="-1"`, ` index=" 1"`} {
		for _, slot := range c14Slots {
			if !slot.indexed {
				continue
			}
			for bi, b := range c14MdBindings {
				for li, loc := range c14Locations {
					if c.Quick() && (bi+li)%3 != 0 {
						continue
					}
					if !mine() {
						continue
					}
					c14IndexAttrs = ia
					run(slot, b, loc, nil, false)
					l := loc
					run(slot, b, "https://ok.example/a", &l, false)
					c14IndexAttrs = ` index="1" isDefault="true"`
					c.Count("metadata_documents_with_malformed_index_attributes")
				}
			}
		}
	}
	// the same values spelled as namespace-qualified twins of the plain attribute
	for _, tw := range []string{"qualified-after", "qualified-before", "md-prefixed-after", "plain-hostile-qualified-good", "qualified-binding-too"} {
		for _, slot := range c14Slots {
			for bi, b := range c14MdBindings {
				for li, loc := range c14Locations {
					if c.Quick() && (bi+li)%4 != 0 {
						continue
					}
					if !mine() {
						continue
					}
					c14Twin = tw
					run(slot, b, loc, nil, false)
					c14Twin = ""
					c.Count("metadata_documents_with_qualified_twin_attributes")
				}
			}
		}
	}
	n := c.Pick(4000, 200000)
	for i := 0; i < n; i++ {
		if !mine() {
			continue
		}
		slot := c14Slots[c.Rng.Intn(len(c14Slots))]
		var resp *string
		if c.Rng.Intn(2) == 0 {
			s := c14Locations[c.Rng.Intn(len(c14Locations))]
			resp = &s
		}
		run(slot, c14MdBindings[c.Rng.Intn(len(c14MdBindings))], c14Locations[c.Rng.Intn(len(c14Locations))], resp, c.Rng.Intn(3) == 0)
	}
}

func respStr(p *string) string {
	if p == nil {
		return "<nil>"
	}
	return fmt.Sprintf("%q", truncate(*p, 60))
}

type c14HeldPage struct {
	name, desc string
	page, copy []byte
}

var c14Held []c14HeldPage
