package props

import (
	"bytes"
	"crypto/rsa"
	"crypto/x509"
	"fmt"
	mrand "math/rand"
	"strings"

	"github.com/beevik/etree"
	"github.com/crewjam/saml/xmlenc"

	"verif/internal/core"
	"verif/internal/fx"
	"verif/internal/refenc"
)

// C10 — XML encryption round-trips for every offered algorithm and interoperates with an independent implementation.

func init() {
	core.RegisterSpec(&core.Spec{
		ID:    "C10",
		Level: "exploration",
		Rule: "cases = block cipher {aes128/192/256-cbc, tripledes-cbc, aes128-gcm} x key transport {direct, OAEP-mgf1p x {sha1,sha256,sha512,ripemd160}, OAEP_SHA256(), OAEP_SHA512(), PKCS1v1.5} x RSA key {1024,2048,4096} " +
			"x plaintext length 0..4 blocks+1 exhaustively (x contents zeros/0xFF/ending 0x00,0x01,0x10/random) and random lengths to 64 KiB x nonce {nil, supplied}. Each case runs three clauses: package decrypts its own (serialised and re-parsed) output; " +
			"package decrypts the stdlib reference's ciphertext; reference decrypts the package's ciphertext. Plus wrong-size/wrong-type keys must error and a relabelled DigestMethod must fail. Non-trivial = a case in which at least one side produced a ciphertext that the other side was asked to decrypt; distinct by (algorithms, key, length, content class, nonce).",
		Assumptions: []string{"crypto/aes, crypto/des, crypto/cipher, crypto/rsa are correct", "internal/refenc follows the W3C recommendation (CBC: IV prefix + xmlenc padding; GCM: 12-byte nonce prefix, 16-byte tag, no padding)", "OAEP uses the DigestMethod hash also for MGF1 (crypto/rsa convention); MGF1-SHA1 peers are an observation without verdict"},
		FloorQuick:  2500,
		FloorThor:   8000,
		Run:         runC10,
		LevelText:   "The real Encrypt/Decrypt code is executed on an exhaustive small-length lattice and random long plaintexts for every algorithm combination the package offers, and each output is cross-decrypted by an independent stdlib reference (and vice versa) after going through XML text. Held-on-observed; appropriate because the algorithms are deterministic given key/IV and the defects of interest (padding, IV, nonce, registry) show at specific lengths/algorithms that the lattice enumerates.",
		LevelNote:   "Trusts Go crypto primitives and the 250-line reference in internal/refenc.",
		Technique:   "runtime monitoring: differential cross-decryption against an independent reference over an exhaustive length lattice",
		DesignRef:   "DESIGN.md §5 C10",
	})
}

type c10Block struct {
	name string
	pkg  xmlenc.BlockCipher
	ref  string
}

var c10Blocks = []c10Block{
	{"aes128-cbc", xmlenc.AES128CBC, refenc.AES128CBC},
	{"aes192-cbc", xmlenc.AES192CBC, refenc.AES192CBC},
	{"aes256-cbc", xmlenc.AES256CBC, refenc.AES256CBC},
	{"tripledes-cbc", xmlenc.TripleDES, refenc.TDESCBC},
	{"aes128-gcm", xmlenc.AES128GCM, refenc.AES128GCM},
}

type c10Transport struct {
	name      string
	mk        func() xmlenc.RSA // nil = direct key
	digest    xmlenc.DigestMethod
	refAlg    string
	refDigest string
}

func c10Transports() []c10Transport {
	sha1, sha256, sha512, rip := xmlenc.SHA1, xmlenc.SHA256, xmlenc.SHA512, xmlenc.RIPEMD160
	return []c10Transport{
		{name: "direct"},
		{"oaep-mgf1p/sha1", xmlenc.OAEP, &sha1, refenc.OAEPMGF1P, refenc.DigestSHA1},
		{"oaep-mgf1p/sha256", xmlenc.OAEP, &sha256, refenc.OAEPMGF1P, refenc.DigestSHA256},
		{"oaep-mgf1p/sha512", xmlenc.OAEP, &sha512, refenc.OAEPMGF1P, refenc.DigestSHA512},
		{"oaep-mgf1p/ripemd160", xmlenc.OAEP, &rip, refenc.OAEPMGF1P, refenc.DigestRIPEMD},
		{"oaep-mgf1p/default", xmlenc.OAEP, nil, refenc.OAEPMGF1P, refenc.DigestSHA256},
		{"oaep11/OAEP_SHA256", xmlenc.OAEP_SHA256, nil, refenc.OAEP11, refenc.DigestSHA256},
		{"oaep11/OAEP_SHA512", xmlenc.OAEP_SHA512, nil, refenc.OAEP11, refenc.DigestSHA512},
		{"oaep11/sha1", xmlenc.OAEP_SHA256, &sha1, refenc.OAEP11, refenc.DigestSHA1},
		{"rsa-1_5", xmlenc.PKCS1v15, nil, refenc.RSA15, ""},
	}
}

func c10Content(r *mrand.Rand, n int, class int) ([]byte, string) {
	b := make([]byte, n)
	switch class {
	case 0:
		return b, "zeros"
	case 1:
		for i := range b {
			b[i] = 0xff
		}
		return b, "ff"
	case 2, 3, 4:
		r.Read(b)
		if n > 0 {
			b[n-1] = []byte{0x00, 0x01, 0x10}[class-2]
		}
		return b, []string{"end00", "end01", "end10"}[class-2]
	default:
		r.Read(b)
		return b, "random"
	}
}

func lenClass(n, bs int) string {
	switch {
	case n == 0:
		return "empty"
	case n%bs == 0:
		return "block-aligned"
	case n > 4*bs+1:
		return "long"
	}
	return "short"
}

func runC10(c *core.Ctx) {
	rnd := fx.NewRecReader(c.Seed*31 + int64(c.Shard))
	xmlenc.RandReader = rnd
	rsaKeys := []*fx.KeyPair{fx.K("sp_rsa2048"), fx.K("sp_rsa1024"), fx.K("sp_rsa4096")}
	idx := 0
	for _, blk := range c10Blocks {
		bs := refenc.BlockSize(blk.ref)
		for _, tr := range c10Transports() {
			for ki, kp := range rsaKeys {
				if tr.mk == nil && ki > 0 {
					continue
				}
				// lengths: exhaustive 0..4bs+1 on the 2048 key (all content classes), reduced on the other keys
				var lens []int
				maxL := 4*bs + 1
				for n := 0; n <= maxL; n++ {
					lens = append(lens, n)
				}
				classes := []int{0, 1, 2, 3, 4, 5}
				if ki > 0 {
					lens = []int{0, 1, bs - 1, bs, bs + 1, 2 * bs, 4*bs + 1}
					classes = []int{5, 3}
					if c.Thorough() {
						lens = nil
						for n := 0; n <= maxL; n++ {
							lens = append(lens, n)
						}
					}
				}
				nrand := c.Pick(6, 60)
				for j := 0; j < nrand; j++ {
					lens = append(lens, -1)
				}
				for _, n := range lens {
					for _, cl := range classes {
						if n < 0 && cl != 5 {
							continue
						}
						for nonceMode := 0; nonceMode < 2; nonceMode++ {
							if nonceMode == 1 && !(n <= bs+1 || cl == 5) {
								continue
							}
							idx++
							if !c.Mine(idx) {
								continue
							}
							ln := n
							if ln < 0 {
								ln = maxL + 1 + c.Rng.Intn(65536-maxL)
								if c.Rng.Intn(3) == 0 {
									ln = maxL + 1 + c.Rng.Intn(600)
								}
							}
							pt, cname := c10Content(c.Rng, ln, cl)
							c10Case(c, blk, tr, kp, pt, cname, nonceMode == 1, rnd)
						}
					}
				}
			}
		}
	}
	c10WrongKeys(c, rnd)
	c10DigestHonoured(c, rnd)
}

func c10Case(c *core.Ctx, blk c10Block, tr c10Transport, kp *fx.KeyPair, pt []byte, cname string, withNonce bool, rnd *fx.RecReader) {
	bs := refenc.BlockSize(blk.ref)
	var nonce []byte
	if withNonce {
		nonce = make([]byte, 12)
		c.Rng.Read(nonce)
	}
	desc := fmt.Sprintf("%s|%s|%s|len=%d|%s|nonce=%v", blk.name, tr.name, kp.Name, len(pt), cname, withNonce)
	if tr.mk == nil {
		desc = fmt.Sprintf("%s|direct|len=%d|%s|nonce=%v", blk.name, len(pt), cname, withNonce)
	}
	c.Journal("C10 " + desc)
	cls := lenClass(len(pt), bs)
	keySuffix := fmt.Sprintf("%s/%s/%s", blk.name, trFamily(tr.name), cls)
	replay := map[string]any{"case": desc, "plaintext_hex": fmt.Sprintf("%x", trunc(pt, 200)), "nonce_hex": fmt.Sprintf("%x", nonce)}

	// direct keys: half of the cases draw a fresh key, the other half take one of a few long-lived key slices that every
	// algorithm of that key length shares for the whole process (the same 24 bytes serve AES-192 and 3DES); the package
	// gets the shared slice itself, the reference gets a copy, and the slice must still hold the key afterwards
	directKey := make([]byte, refenc.KeySize(blk.ref))
	c.Rng.Read(directKey)
	var pooled []byte
	if c.Rng.Intn(2) == 0 {
		pooled = c10PoolKey(len(directKey), c.Rng.Intn(3))
		directKey = pooled
	}
	pristine := append([]byte(nil), directKey...)
	if tr.mk == nil {
		// the same key bytes were just used with every other algorithm of that key length (AES-128-CBC / AES-128-GCM,
		// AES-192 / 3DES): what a key was used for before must not matter
		for _, ob := range c10Blocks {
			if ob.name != blk.name && refenc.KeySize(ob.ref) == len(directKey) && !refenc.IsGCM(ob.ref) {
				_, _, _, _ = core.Guard(func() { _, _ = ob.pkg.Encrypt(directKey, []byte("warm-up"), nil) })
				c.Count("sibling_algorithm_used_with_same_key_first")
			}
		}
	}
	defer func() {
		if !bytes.Equal(directKey, pristine) {
			c.Violation("C10/key-material-modified/"+blk.name, fmt.Sprintf("the caller's key slice was modified by the package (%x -> %x) (%s)", trunc(pristine, 8), trunc(directKey, 8), desc), replay)
			copy(directKey, pristine) // keep the pool usable for the rest of the run
		}
	}()
	var decKey any = directKey
	var pkgEncKey any = directKey
	var enc xmlenc.Encrypter = blk.pkg
	var cert *x509.Certificate
	if tr.mk != nil {
		e := tr.mk()
		e.BlockCipher = blk.pkg
		if tr.digest != nil {
			e.DigestMethod = tr.digest
		}
		enc = e
		pkgEncKey = kp.Cert
		decKey = kp.RSA()
		if c.Rng.Intn(4) == 0 { // the same key as an application may hold it: modulus and exponents only, no primes
			full := kp.RSA()
			decKey = &rsa.PrivateKey{PublicKey: full.PublicKey, D: full.D}
			desc += "|key-without-primes"
		}
		cert = kp.Cert
		replay["rsa_key"] = kp.Name
	} else {
		replay["key_hex"] = fmt.Sprintf("%x", directKey)
	}

	// reference side first: tells us whether this (transport, key size) combination is feasible at all
	refEl, _, refErr := refenc.Encrypt(blk.ref, tr.refAlg, tr.refDigest, cert, pristine, pt, c.Rng, true)
	if refErr != nil {
		if strings.Contains(refErr.Error(), "message too long") {
			c.Count("infeasible_key_too_small_for_digest")
			// the package must then fail too, not produce something
			var pkgErr error
			p, v, frame, _ := core.Guard(func() { _, pkgErr = enc.Encrypt(pkgEncKey, pt, nonce) })
			c.Eval()
			if p {
				if blk.name == "aes128-gcm" {
					c.Violation("C10/encrypt-panic/aes128-gcm/"+frame, fmt.Sprintf("panic %v", v), replay)
				} else {
					c.Violation("C10/encrypt-panic/"+keySuffix+"/"+frame, fmt.Sprintf("panic %v", v), replay)
				}
			} else if pkgErr == nil {
				c.Violation("C10/infeasible-accepted/"+keySuffix, "package produced a ciphertext where RSA-OAEP cannot fit the key", replay)
			}
			return
		}
		c.Inconclusive("reference encrypt failed: " + refErr.Error())
		return
	}

	// (b) package decrypts reference ciphertext
	c.Eval()
	nontrivial := false
	{
		el, _, err := refenc.Reparse(refEl)
		if err != nil {
			c.Inconclusive("reference element does not reparse")
			return
		}
		var got []byte
		var derr error
		p, v, frame, _ := core.Guard(func() { got, derr = xmlenc.Decrypt(decKey, el) })
		nontrivial = true
		switch {
		case p:
			c.Violation("C10/decrypt-panic/"+keySuffix+"/"+frame, fmt.Sprintf("panic %v decrypting reference ciphertext", v), withXML(replay, el))
		case derr != nil:
			c.Violation("C10/pkg-decrypts-ref/"+keySuffix, fmt.Sprintf("package cannot decrypt reference ciphertext: %v", derr), withXML(replay, el))
		case !bytes.Equal(got, pt):
			c.Violation("C10/pkg-decrypts-ref/"+keySuffix, fmt.Sprintf("package decrypts reference ciphertext to different plaintext (len %d vs %d)", len(got), len(pt)), withXML(replay, el))
		default:
			c.Count("pkg_decrypts_ref_ok")
		}
	}

	// package encrypts
	c.Eval()
	var pkgEl *etree.Element
	var eerr error
	p, v, frame, _ := core.Guard(func() { pkgEl, eerr = enc.Encrypt(pkgEncKey, pt, nonce) })
	if p {
		c.Nontrivial(desc)
		c.Violation("C10/encrypt-panic/"+blk.name+"/"+frame, fmt.Sprintf("panic %v in Encrypt", v), replay)
		return
	}
	if eerr != nil {
		c.Nontrivial(desc)
		c.Violation("C10/encrypt-error/"+keySuffix, fmt.Sprintf("Encrypt failed where the reference succeeds: %v", eerr), replay)
		return
	}
	el, raw, err := refenc.Reparse(pkgEl)
	if err != nil {
		c.Violation("C10/encrypt-output-not-xml/"+keySuffix, err.Error(), replay)
		return
	}
	replayP := withXML(replay, el)
	_ = raw
	// (a) package decrypts its own output
	c.Eval()
	{
		var got []byte
		var derr error
		p, v, frame, _ := core.Guard(func() { got, derr = xmlenc.Decrypt(decKey, el) })
		switch {
		case p:
			c.Violation("C10/decrypt-panic/"+keySuffix+"/"+frame, fmt.Sprintf("panic %v decrypting own ciphertext", v), replayP)
		case derr != nil:
			c.Violation("C10/self-roundtrip/"+keySuffix, fmt.Sprintf("Decrypt(Encrypt(p)) error: %v", derr), replayP)
		case !bytes.Equal(got, pt):
			c.Violation("C10/self-roundtrip/"+keySuffix, fmt.Sprintf("Decrypt(Encrypt(p)) != p (len %d vs %d)", len(got), len(pt)), replayP)
		default:
			c.Count("self_roundtrip_ok")
		}
	}
	// (c) reference decrypts package ciphertext
	c.Eval()
	{
		var refKey any = decKey
		if tr.mk == nil {
			refKey = pristine // the reference works on its own copy of the key
		}
		got, derr := refenc.Decrypt(refKey, el)
		switch {
		case derr != nil:
			c.Violation("C10/ref-decrypts-pkg/"+keySuffix, fmt.Sprintf("reference cannot decrypt package ciphertext: %v", derr), replayP)
		case !bytes.Equal(got, pt):
			c.Violation("C10/ref-decrypts-pkg/"+keySuffix, fmt.Sprintf("reference decrypts package ciphertext to different plaintext (len %d vs %d)", len(got), len(pt)), replayP)
		default:
			c.Count("ref_decrypts_pkg_ok")
		}
	}
	if nontrivial {
		c.Nontrivial(desc)
	}
	c.Observe("algorithm_pairs", blk.name+" + "+tr.name)
	c.SampleSome(map[string]any{"case": desc})
}

func trunc(b []byte, n int) []byte {
	if len(b) > n {
		return b[:n]
	}
	return b
}

func withXML(m map[string]any, el *etree.Element) map[string]any {
	out := map[string]any{}
	for k, v := range m {
		out[k] = v
	}
	d := etree.NewDocument()
	d.SetRoot(el.Copy())
	s, _ := d.WriteToString()
	if len(s) > 6000 {
		s = s[:6000] + "..."
	}
	out["element"] = s
	return out
}

// wrong-size and wrong-type keys must yield errors, never output or panics.
func c10WrongKeys(c *core.Ctx, rnd *fx.RecReader) {
	pt := []byte("<x>hello</x>")
	i := 0
	for _, blk := range c10Blocks {
		ks := refenc.KeySize(blk.ref)
		var keys []any
		for n := 0; n <= 33; n++ {
			if n != ks {
				keys = append(keys, make([]byte, n))
			}
		}
		keys = append(keys, "string-key", 42, nil, fx.K("sp_rsa2048").RSA(), *fx.K("sp_rsa2048").RSA(), fx.K("sp_p256").EC(), fx.K("sp_rsa2048").Cert, []int{1}, [16]byte{})
		for _, k := range keys {
			i++
			if !c.Mine(i) {
				continue
			}
			desc := fmt.Sprintf("wrongkey|%s|%T|%v", blk.name, k, keyLen(k))
			c.Journal("C10 " + desc)
			c.Eval()
			var el *etree.Element
			var err error
			p, v, frame, _ := core.Guard(func() { el, err = blk.pkg.Encrypt(k, pt, nil) })
			c.Nontrivial(desc)
			if p {
				c.Violation("C10/wrongkey-panic/"+blk.name+"/"+frame, fmt.Sprintf("panic %v for key %T", v, k), desc)
			} else if err == nil || el != nil {
				// the pinned tree's "TripleDES" took 8-byte keys; after the fix only 24 is right
				c.Violation("C10/wrongkey-accepted/"+blk.name, fmt.Sprintf("Encrypt accepted key %T len %v", k, keyLen(k)), desc)
			} else {
				c.Count("wrong_key_rejected_ok")
			}
		}
	}
	// RSA transports with wrong "certificate" values
	for _, tr := range c10Transports() {
		if tr.mk == nil {
			continue
		}
		for _, k := range []any{fx.K("sp_p256").Cert, fx.K("sp_rsa2048").Cert.Raw, "x", nil, fx.K("sp_rsa2048").RSA(), *fx.K("sp_rsa2048").Cert} {
			i++
			if !c.Mine(i) {
				continue
			}
			desc := fmt.Sprintf("wrongcert|%s|%T", tr.name, k)
			c.Eval()
			e := tr.mk()
			var el *etree.Element
			var err error
			p, v, frame, _ := core.Guard(func() { el, err = e.Encrypt(k, pt, nil) })
			c.Nontrivial(desc)
			if p {
				c.Violation("C10/wrongkey-panic/"+tr.name+"/"+frame, fmt.Sprintf("panic %v for %T", v, k), desc)
			} else if err == nil || el != nil {
				c.Violation("C10/wrongkey-accepted/"+tr.name, fmt.Sprintf("Encrypt accepted %T", k), desc)
			} else {
				c.Count("wrong_key_rejected_ok")
			}
		}
	}
}

func keyLen(k any) any {
	if b, ok := k.([]byte); ok {
		return len(b)
	}
	return "-"
}

// Decrypt must honour DigestMethod: reference ciphertext wrapped with digest h must fail under a relabelled h'.
func c10DigestHonoured(c *core.Ctx, rnd *fx.RecReader) {
	kp := fx.K("sp_rsa2048")
	pt := []byte("<saml:Assertion xmlns:saml=\"urn:oasis:names:tc:SAML:2.0:assertion\">x</saml:Assertion>")
	i := 0
	for _, alg := range []string{refenc.OAEPMGF1P, refenc.OAEP11} {
		for _, h := range refenc.Digests {
			for _, h2 := range append(append([]string{}, refenc.Digests...), "") {
				if h2 == h || (h2 == "" && h == refenc.DigestSHA1) {
					continue
				}
				i++
				if !c.Mine(i) {
					continue
				}
				desc := fmt.Sprintf("digest-relabel|%s|%s->%s", alg, h, h2)
				c.Eval()
				el, _, err := refenc.Encrypt(refenc.AES128CBC, alg, h, kp.Cert, nil, pt, c.Rng, false)
				if err != nil {
					c.Inconclusive("ref encrypt: " + err.Error())
					continue
				}
				dm := el.FindElement("./KeyInfo/EncryptedKey/EncryptionMethod/DigestMethod")
				if h2 == "" {
					dm.Parent().RemoveChild(dm)
				} else {
					dm.CreateAttr("Algorithm", h2)
				}
				el2, _, _ := refenc.Reparse(el)
				var got []byte
				var derr error
				p, v, frame, _ := core.Guard(func() { got, derr = xmlenc.Decrypt(kp.RSA(), el2) })
				c.Nontrivial(desc)
				if p {
					c.Violation("C10/decrypt-panic/digest-relabel/"+frame, fmt.Sprintf("panic %v", v), withXML(map[string]any{"case": desc}, el2))
				} else if derr == nil && bytes.Equal(got, pt) {
					if alg == refenc.OAEP11 && false {
						continue
					}
					c.Violation("C10/digest-ignored/"+shortAlg(alg), fmt.Sprintf("key wrapped with %s decrypts although DigestMethod says %q", h, h2), withXML(map[string]any{"case": desc}, el2))
				} else {
					c.Count("digest_mismatch_rejected_ok")
				}
			}
		}
	}
}

func shortAlg(a string) string {
	if i := strings.LastIndexAny(a, "#/"); i >= 0 {
		return a[i+1:]
	}
	return a
}

func trFamily(n string) string {
	if i := strings.Index(n, "/"); i > 0 {
		return n[:i]
	}
	return n
}

var c10KeyPool = map[string][]byte{}

// c10PoolKey returns the i-th long-lived key slice of length n (same backing array on every call).
func c10PoolKey(n, i int) []byte {
	id := fmt.Sprintf("%d/%d", n, i)
	if k, ok := c10KeyPool[id]; ok {
		return k
	}
	k := make([]byte, n)
	for j := range k {
		k[j] = byte(17*i + 31*j + n)
	}
	if n == 24 { // keep 3DES happy about key parity-independent but distinct thirds
		k[0], k[8], k[16] = byte(1+i), byte(101+i), byte(201+i)
	}
	c10KeyPool[id] = k
	return k
}
