package props

import (
	"crypto/x509"
	"encoding/xml"
	"fmt"
	"math"
	"math/big"
	"net/url"
	"reflect"
	"regexp"
	"strings"
	"time"

	"github.com/crewjam/saml"

	"verif/internal/core"
	"verif/internal/fx"
)

// C15 — durations, instants and metadata round-trip through their XML text forms.

func init() {
	core.RegisterSpec(&core.Spec{
		ID:    "C15",
		Level: "exploration",
		Rule: "durations: boundary classes enumerated exhaustively (every single non-zero sub-second digit pattern with <=3 significant digits at every scale, +-1ns..+-999999999ns digit positions, carries at 1s/60s/60min/24h, extremes MinInt64/MaxInt64 +-k) plus seeded random int64; grammar-generated xsd:duration strings judged by an exact big-integer parser; " +
			"instants: nanosecond instants in years 1..9999 with random zone offsets and lexical forms (Z, +hh:mm, no zone, 0..9 fraction digits incl. rounding carries), reject set of malformed strings; " +
			"metadata: generated SP/IdP configurations and generated EntityDescriptor values marshalled and re-parsed. " +
			"A case is non-trivial when the library produced text or a value that the oracle compared (distinct by input value/string).",
		Assumptions: []string{"Go encoding/xml, time and math/big are correct", "30-day month / 365-day year as documented in duration.go", "Go's extra RFC3339 leniencies (second 60, comma fraction, hour 24) are not judged"},
		FloorQuick:  100000,
		FloorThor:   400000,
		Run:         runC15,
		LevelText:   "Boundary classes of durations are enumerated exhaustively and millions of seeded random durations, instants, lexical forms and generated metadata values are pushed through the real Marshal/Unmarshal code; every result is compared with an exact-arithmetic oracle. Held-on-observed, not a proof; right level because the functions are pure and cheap so the workload reaches every digit position, carry and extreme.",
		LevelNote:   "Trusts Go's encoding/xml, time, math/big and our own 60-line exact duration/instant parsers; Go's extra RFC3339 leniencies, >9 fraction digits and beyond-int64 strings are recorded without verdict.",
		Technique:   "runtime monitoring: round-trip and reference-model oracle over enumerated boundary classes and seeded random inputs",
		DesignRef:   "DESIGN.md §5 C15",
	})
}

var xsdDurationRe = regexp.MustCompile(`^-?P(\d+Y)?(\d+M)?(\d+D)?(T(\d+H)?(\d+M)?(\d+(\.\d+)?S)?)?$`)

func validXSDDuration(s string) bool {
	if !xsdDurationRe.MatchString(s) {
		return false
	}
	// at least one component; if T present, at least one time component
	body := strings.TrimPrefix(strings.TrimPrefix(s, "-"), "P")
	if body == "" || strings.HasSuffix(body, "T") {
		return false
	}
	return true
}

// exactDuration parses a grammar-conforming xsd:duration with big-integer arithmetic (ns). ok=false when outside the grammar.
var exactRe = regexp.MustCompile(`^(-?)P(?:(\d+)Y)?(?:(\d+)M)?(?:(\d+)D)?(?:T(?:(\d+)H)?(?:(\d+)M)?(?:(\d+)(?:\.(\d+))?S)?)?$`)

func exactDuration(s string) (*big.Int, bool) {
	if !validXSDDuration(s) {
		return nil, false
	}
	m := exactRe.FindStringSubmatch(s)
	if m == nil {
		return nil, false
	}
	tot := new(big.Int)
	add := func(num string, unit int64) {
		if num == "" {
			return
		}
		n, _ := new(big.Int).SetString(num, 10)
		tot.Add(tot, n.Mul(n, big.NewInt(unit)))
	}
	const day = int64(24 * time.Hour)
	add(m[2], 365*day)
	add(m[3], 30*day)
	add(m[4], day)
	add(m[5], int64(time.Hour))
	add(m[6], int64(time.Minute))
	add(m[7], int64(time.Second))
	if f := m[8]; f != "" {
		if len(f) > 9 {
			return nil, false // finer than ns: grey zone
		}
		for len(f) < 9 {
			f += "0"
		}
		add(f, 1)
	}
	if m[1] == "-" {
		tot.Neg(tot)
	}
	return tot, true
}

func durRoundTrip(c *core.Ctx, d int64, class string) {
	c.Eval()
	var txt []byte
	var got saml.Duration
	var err1, err2 error
	p, v, frame, _ := core.Guard(func() {
		txt, err1 = saml.Duration(d).MarshalText()
		if err1 == nil {
			err2 = (&got).UnmarshalText(txt)
		}
	})
	if p {
		c.Violation("C15/duration/panic/"+frame, fmt.Sprintf("panic %v for duration %d", v, d), map[string]any{"duration_ns": d})
		return
	}
	c.Nontrivial(fmt.Sprintf("d:%d", d))
	if err1 != nil {
		c.Violation("C15/duration/marshal-error/"+class, fmt.Sprintf("MarshalText(%d) error %v", d, err1), map[string]any{"duration_ns": d})
		return
	}
	if d != 0 && !validXSDDuration(string(txt)) {
		c.Violation("C15/duration/lexical/"+class, fmt.Sprintf("MarshalText(%d) = %q is not xsd:duration", d, txt), map[string]any{"duration_ns": d, "text": string(txt)})
		return
	}
	if err2 != nil {
		c.Violation("C15/duration/unmarshal-own-output/"+class, fmt.Sprintf("UnmarshalText(MarshalText(%d)=%q) error %v", d, txt, err2), map[string]any{"duration_ns": d, "text": string(txt)})
		return
	}
	if int64(got) != d {
		c.Violation("C15/duration/roundtrip/"+class, fmt.Sprintf("UnmarshalText(MarshalText(%d)=%q) = %d (diff %d)", d, txt, int64(got), int64(got)-d), map[string]any{"duration_ns": d, "text": string(txt), "got": int64(got)})
		return
	}
	c.Count("duration_roundtrip_ok")
	if d != 0 {
		// the exact parser must agree on library-produced text
		if ex, ok := exactDuration(string(txt)); !ok || !ex.IsInt64() || ex.Int64() != d {
			c.Violation("C15/duration/exact-value/"+class, fmt.Sprintf("MarshalText(%d) = %q denotes %v", d, txt, ex), map[string]any{"duration_ns": d, "text": string(txt)})
		}
	}
	c.SampleSome(map[string]any{"kind": "duration", "ns": d, "text": string(txt)})
}

func durString(c *core.Ctx, s string) {
	c.Eval()
	var got saml.Duration
	var err error
	p, v, frame, _ := core.Guard(func() { err = (&got).UnmarshalText([]byte(s)) })
	if p {
		c.Violation("C15/duration-string/panic/"+frame, fmt.Sprintf("panic %v for %q", v, s), map[string]any{"text": s})
		return
	}
	ex, ok := exactDuration(s)
	if !ok {
		if validXSDDuration(s) {
			c.Count("duration_string_grey_finer_than_ns")
			return
		}
		c.Nontrivial("ds:" + s)
		if err == nil {
			c.Violation("C15/duration-string/accepts-invalid", fmt.Sprintf("UnmarshalText(%q) accepted (=%d) but is not xsd:duration", s, int64(got)), map[string]any{"text": s})
		} else {
			c.Count("duration_string_rejected_ok")
		}
		return
	}
	if !ex.IsInt64() {
		c.Count("duration_string_grey_beyond_int64")
		return
	}
	c.Nontrivial("ds:" + s)
	if err != nil {
		c.Violation("C15/duration-string/rejects-valid", fmt.Sprintf("UnmarshalText(%q) error %v", s, err), map[string]any{"text": s})
		return
	}
	// fixed point: U(M(U(s))) == U(s)
	txt, _ := got.MarshalText()
	var again saml.Duration
	if e := (&again).UnmarshalText(txt); e != nil || again != got {
		c.Violation("C15/duration-string/fixed-point", fmt.Sprintf("U(%q)=%d, M=%q, U(M)=%d err=%v", s, int64(got), txt, int64(again), e), map[string]any{"text": s})
		return
	}
	c.Count("duration_string_fixed_point_ok")
	if ex.Int64() != int64(got) {
		// value judged only as an observation for strings not produced by MarshalText (DESIGN §C15)
		c.Count("duration_string_value_differs_from_exact(observation)")
	}
	c.SampleSome(map[string]any{"kind": "duration-string", "text": s, "value": int64(got)})
}

var instRe = regexp.MustCompile(`^\d{4}-\d{2}-\d{2}T\d{2}:\d{2}:\d{2}(\.\d+)?Z$`)

func instRoundTrip(c *core.Ctx, t time.Time) {
	c.Eval()
	r := t.Round(time.Millisecond)
	if y := r.UTC().Year(); y < 1 || y > 9999 {
		c.Count("instant_grey_year")
		return
	}
	var txt []byte
	var back saml.RelaxedTime
	var err error
	p, v, frame, _ := core.Guard(func() {
		txt, _ = saml.RelaxedTime(t).MarshalText()
		err = (&back).UnmarshalText(txt)
	})
	if p {
		c.Violation("C15/instant/panic/"+frame, fmt.Sprintf("panic %v", v), map[string]any{"unix_ns": t.UnixNano(), "zone": t.Location().String()})
		return
	}
	c.Nontrivial(fmt.Sprintf("t:%d:%d:%s", t.Unix(), t.Nanosecond(), t.Location()))
	if !instRe.Match(txt) {
		c.Violation("C15/instant/lexical", fmt.Sprintf("MarshalText = %q is not UTC xsd:dateTime", txt), map[string]any{"unix": t.Unix(), "ns": t.Nanosecond()})
		return
	}
	if err != nil {
		c.Violation("C15/instant/unmarshal-own-output", fmt.Sprintf("UnmarshalText(%q) error %v", txt, err), map[string]any{"text": string(txt)})
		return
	}
	bt := time.Time(back)
	if !bt.Equal(r) || bt.Location() != time.UTC && bt.Location().String() != "UTC" {
		_, off := bt.Zone()
		if !bt.Equal(r) || off != 0 {
			c.Violation("C15/instant/roundtrip", fmt.Sprintf("t=%v text=%q back=%v want %v", t, txt, bt, r), map[string]any{"unix": t.Unix(), "ns": t.Nanosecond(), "text": string(txt)})
			return
		}
	}
	c.Count("instant_roundtrip_ok")
	c.SampleSome(map[string]any{"kind": "instant", "in": t.Format(time.RFC3339Nano), "text": string(txt)})
}

// instString judges a lexical form against an independently computed instant.
func instAccept(c *core.Ctx, y, mo, d, h, mi, s int, frac string, zone string) {
	c.Eval()
	txt := fmt.Sprintf("%04d-%02d-%02dT%02d:%02d:%02d", y, mo, d, h, mi, s)
	if frac != "" {
		txt += "." + frac
	}
	txt += zone
	// expected
	ns := 0
	if frac != "" {
		f := frac
		if len(f) > 9 {
			c.Count("instant_grey_fraction_gt9")
			return
		}
		for len(f) < 9 {
			f += "0"
		}
		fmt.Sscanf(f, "%d", &ns)
	}
	loc := time.UTC
	if zone != "" && zone != "Z" {
		var zh, zm int
		fmt.Sscanf(zone[1:], "%02d:%02d", &zh, &zm)
		off := zh*3600 + zm*60
		if zone[0] == '-' {
			off = -off
		}
		loc = time.FixedZone("", off)
	}
	want := time.Date(y, time.Month(mo), d, h, mi, s, 0, loc)
	// round ns to ms half-up, by our own arithmetic
	ms := (ns + 500000) / 1000000
	want = want.Add(time.Duration(ms) * time.Millisecond)
	if yy := want.UTC().Year(); yy < 1 || yy > 9999 {
		c.Count("instant_grey_year")
		return
	}
	var got saml.RelaxedTime
	var err error
	p, v, frame, _ := core.Guard(func() { err = (&got).UnmarshalText([]byte(txt)) })
	if p {
		c.Violation("C15/instant-string/panic/"+frame, fmt.Sprintf("panic %v", v), map[string]any{"text": txt})
		return
	}
	c.Nontrivial("ts:" + txt)
	if err != nil {
		c.Violation("C15/instant-string/rejects-valid/"+zoneClass(zone, frac), fmt.Sprintf("UnmarshalText(%q) error %v", txt, err), map[string]any{"text": txt})
		return
	}
	if !time.Time(got).Equal(want) {
		c.Violation("C15/instant-string/value/"+zoneClass(zone, frac), fmt.Sprintf("UnmarshalText(%q) = %v want %v", txt, time.Time(got).UTC(), want.UTC()), map[string]any{"text": txt})
		return
	}
	c.Count("instant_string_accept_ok")
	c.SampleSome(map[string]any{"kind": "instant-string", "text": txt, "utc": want.UTC().Format(time.RFC3339Nano)})
}

func zoneClass(zone, frac string) string {
	z := "nozone"
	if zone == "Z" {
		z = "Z"
	} else if zone != "" {
		z = "offset"
	}
	if frac == "" {
		return z + "/nofrac"
	}
	return fmt.Sprintf("%s/frac%d", z, len(frac))
}

func instReject(c *core.Ctx, txt string) {
	c.Eval()
	var got saml.RelaxedTime
	var err error
	p, v, frame, _ := core.Guard(func() { err = (&got).UnmarshalText([]byte(txt)) })
	if p {
		c.Violation("C15/instant-string/panic/"+frame, fmt.Sprintf("panic %v", v), map[string]any{"text": txt})
		return
	}
	c.Nontrivial("tr:" + txt)
	if err == nil {
		c.Violation("C15/instant-string/accepts-invalid", fmt.Sprintf("UnmarshalText(%q) accepted as %v", txt, time.Time(got)), map[string]any{"text": txt})
		return
	}
	c.Count("instant_string_reject_ok")
}

func runC15(c *core.Ctx) {
	fx.SetNow(fx.Epoch)
	idx := 0
	next := func() bool { idx++; return c.Mine(idx) }

	// ---- durations: boundary classes ----
	pow10 := []int64{1, 10, 100, 1000, 10000, 100000, 1000000, 10000000, 100000000}
	// every sub-second value with <=3 significant digits at every scale, alone and on top of carries
	bases := []int64{0, int64(time.Second), 59 * int64(time.Second), int64(time.Minute), 3599 * int64(time.Second), int64(time.Hour), 24 * int64(time.Hour), 86399 * int64(time.Second)}
	for _, p := range pow10 {
		for k := int64(1); k < 1000; k++ {
			ns := k * p
			if ns >= int64(time.Second) {
				continue
			}
			for _, b := range bases {
				if next() {
					durRoundTrip(c, b+ns, "subsecond")
				}
				if b == 0 || b == int64(time.Hour) {
					if next() {
						durRoundTrip(c, -(b + ns), "subsecond-negative")
					}
				}
			}
		}
	}
	// +-1 around carries and extremes
	carries := []int64{0, 1, 999999999, int64(time.Second), int64(time.Minute), int64(time.Hour), 24 * int64(time.Hour), 365 * 24 * int64(time.Hour), math.MaxInt64 / 2, math.MaxInt64 - 1000}
	for _, b := range carries {
		for k := int64(-1000); k <= 1000; k++ {
			if next() {
				durRoundTrip(c, b+k, "carry")
			}
			if next() {
				durRoundTrip(c, -(b + k), "carry-negative")
			}
		}
	}
	for k := int64(0); k < 2000; k++ {
		if next() {
			durRoundTrip(c, math.MaxInt64-k, "extreme")
		}
		if next() {
			cls := "extreme"
			if k == 0 {
				cls = "minint64"
			}
			durRoundTrip(c, math.MinInt64+k, cls)
		}
	}
	// k * 10^j
	for _, p := range append(pow10, 1e9, 1e10, 1e11, 1e12, 1e13, 1e14, 1e15, 1e16, 1e17, 1e18) {
		for k := int64(1); k <= 9; k++ {
			if next() {
				durRoundTrip(c, k*p, "power")
			}
			if next() {
				durRoundTrip(c, -k*p, "power-negative")
			}
		}
	}
	// seeded random int64 (full range, and sub-minute range with full ns precision)
	nr := c.Pick(600000, 40000000)
	rng := fx.NewRecReader(c.Seed) // only used as deterministic byte source
	_ = rng
	for i := 0; i < nr/c.NShards; i++ {
		var d int64
		switch i % 4 {
		case 0:
			d = c.Rng.Int63()
		case 1:
			d = -c.Rng.Int63()
		case 2:
			d = c.Rng.Int63n(int64(2 * time.Minute))
		case 3:
			d = c.Rng.Int63n(int64(48 * time.Hour))
		}
		cls := []string{"random", "random-negative", "random-subminute", "random-2days"}[i%4]
		durRoundTrip(c, d, cls)
	}

	// ---- duration strings ----
	reject := []string{"", "P", "PT", "-P", "-PT", "1S", "P1S", "PT1.S", "PT.5S", "PT-1S", "P-1D", "PT1H2H", "P1D2Y", "PT1S1M", " PT1S", "PT1S ", "PT1S\n", "pt1s", "P1.5D", "PT1.5H", "PT1.5M",
		"PT1,5S", "P1YT", "P1Y2M3DT", "PTS", "PT1", "P1", "PT1H30", "+PT1S", "--PT1S", "PT1e3S", "PT0x1S", "PT１S", "P1W", "PT1.2.3S", "P T1S", "PT 1S", "T1S", "PTT1S", "PP1D"}
	for _, s := range reject {
		if next() {
			durString(c, s)
		}
	}
	ng := c.Pick(150000, 5000000)
	for i := 0; i < ng/c.NShards; i++ {
		durString(c, genDurationString(c))
	}

	// ---- instants ----
	ni := c.Pick(400000, 20000000)
	minT := time.Date(1, 1, 1, 0, 0, 0, 0, time.UTC).Unix()
	maxT := time.Date(9999, 12, 31, 23, 59, 59, 0, time.UTC).Unix()
	for i := 0; i < ni/c.NShards; i++ {
		var sec int64
		switch i % 3 {
		case 0:
			sec = minT + c.Rng.Int63n(maxT-minT)
		case 1:
			sec = fx.Epoch.Unix() + c.Rng.Int63n(86400*365*20) - 86400*365*10
		case 2: // near second/minute/day/year boundaries
			y := 1 + c.Rng.Intn(9999)
			sec = time.Date(y, time.Month(1+c.Rng.Intn(12)), 1+c.Rng.Intn(28), 23, 59, 59, 0, time.UTC).Unix() + int64(c.Rng.Intn(3)) - 1
		}
		var ns int64
		switch c.Rng.Intn(5) {
		case 0:
			ns = c.Rng.Int63n(1e9)
		case 1:
			ns = int64(c.Rng.Intn(1000))*1e6 + 499999 + int64(c.Rng.Intn(3)) // around half-ms
		case 2:
			ns = 999499999 + int64(c.Rng.Intn(3)) // around carry into next second
		case 3:
			ns = int64(c.Rng.Intn(1000)) * 1e6
		case 4:
			ns = 0
		}
		off := (c.Rng.Intn(29) - 14) * 3600
		if c.Rng.Intn(3) == 0 {
			off += []int{0, 900, 1800, 2700, 3540}[c.Rng.Intn(5)]
		}
		loc := time.UTC
		if c.Rng.Intn(2) == 0 {
			loc = time.FixedZone("", off)
		}
		instRoundTrip(c, time.Unix(sec, ns).In(loc))
	}
	// extremes
	for _, t := range []time.Time{time.Date(1, 1, 1, 0, 0, 0, 0, time.UTC), time.Date(1, 1, 1, 0, 0, 0, 499999, time.UTC), time.Date(9999, 12, 31, 23, 59, 59, 999499999, time.UTC),
		time.Date(1970, 1, 1, 0, 0, 0, 0, time.UTC), time.Date(1969, 12, 31, 23, 59, 59, 999500000, time.UTC), time.Date(2000, 2, 29, 12, 0, 0, 0, time.FixedZone("", 5*3600+1800))} {
		if next() {
			instRoundTrip(c, t)
		}
	}
	na := c.Pick(300000, 10000000)
	fracs := []string{"", "0", "5", "000", "123", "999", "1234", "9995", "9994", "123456", "999500", "999499", "123456789", "999999999", "000500000", "000499999", "4995", "0005"}
	for i := 0; i < na/c.NShards; i++ {
		y := 1 + c.Rng.Intn(9999)
		if c.Rng.Intn(2) == 0 {
			y = 1990 + c.Rng.Intn(60)
		}
		mo := 1 + c.Rng.Intn(12)
		d := 1 + c.Rng.Intn(28)
		h, mi, s := c.Rng.Intn(24), c.Rng.Intn(60), c.Rng.Intn(60)
		if c.Rng.Intn(8) == 0 {
			h, mi, s = 23, 59, 59
		}
		frac := fracs[c.Rng.Intn(len(fracs))]
		if c.Rng.Intn(4) == 0 {
			n := 1 + c.Rng.Intn(9)
			b := make([]byte, n)
			for j := range b {
				b[j] = byte('0' + c.Rng.Intn(10))
			}
			frac = string(b)
		}
		zone := "Z"
		switch c.Rng.Intn(4) {
		case 0:
			zone = ""
		case 1:
			zone = fmt.Sprintf("%c%02d:%02d", "+-"[c.Rng.Intn(2)], c.Rng.Intn(15), []int{0, 15, 30, 45, 59}[c.Rng.Intn(5)])
		case 2:
			zone = []string{"+05:30", "-08:00", "+00:00", "-00:00", "+14:00", "-12:00"}[c.Rng.Intn(6)]
		}
		instAccept(c, y, mo, d, h, mi, s, frac, zone)
	}
	rejectT := []string{"2024-01-01", "2024-01-01T10:00Z", "2024-01-01T10:00", "2024-01-01 10:00:00Z", "garbage", "2024-01-01T10:00:00Zjunk", "2024-01-01T10:00:00Z ", " 2024-01-01T10:00:00Z",
		"2024-13-01T10:00:00Z", "2024-00-10T10:00:00Z", "2024-01-32T10:00:00Z", "2024-02-30T10:00:00Z", "2023-02-29T10:00:00Z", "2024-01-01T25:00:00Z", "2024-01-01T10:60:00Z", "2024-01-01T10:00:61Z",
		"24-01-01T10:00:00Z", "2024-1-1T10:00:00Z", "2024/01/01T10:00:00Z", "2024-01-01T10:00:00+0530", "2024-01-01T10:00:00+5:30", "2024-01-01T10:00:00.Z", "2024-01-01T10:00:00.", "T10:00:00Z",
		"1700000000", "Mon, 02 Jan 2006 15:04:05 MST", "2024-01-01T10:00:00ZZ", "2024-01-01T10:00:00+05:30Z", "2024-01-01T10.5:00:00Z", "-2024-01-01T10:00:00Z", "2024-01-01T10:00:00 +05:30", "\x002024-01-01T10:00:00Z", "２０２４-01-01T10:00:00Z"}
	for _, s := range rejectT {
		if next() {
			instReject(c, s)
		}
	}
	// empty string -> zero instant
	if next() {
		c.Eval()
		var z saml.RelaxedTime
		if err := (&z).UnmarshalText(nil); err != nil || !time.Time(z).IsZero() {
			c.Violation("C15/instant-string/empty", fmt.Sprintf("empty -> %v %v", time.Time(z), err), nil)
		} else {
			c.Nontrivial("ts:<empty>")
		}
	}

	// ---- metadata ----
	nm := c.Pick(6000, 200000)
	for i := 0; i < nm/c.NShards; i++ {
		metaGenerated(c, i)
		metaFixedPoint(c, i)
		if i%3 == 0 {
			metaEntities(c)
		}
	}
}

// metaEntities wraps generated EntityDescriptors into (nested) EntitiesDescriptor values: the wrapper's own instant and
// duration must survive, and every contained EntityDescriptor must come out exactly as it does from a standalone round trip.
func metaEntities(c *core.Ctx) {
	r := c.Rng
	var gen func(depth int) saml.EntitiesDescriptor
	gen = func(depth int) saml.EntitiesDescriptor {
		var w saml.EntitiesDescriptor
		if r.Intn(2) == 0 {
			t := fx.Epoch.Add(time.Duration(r.Int63n(int64(100000*time.Hour))) + time.Duration(r.Intn(1e9)))
			w.ValidUntil = &t
		}
		if r.Intn(2) == 0 {
			d := time.Duration(r.Int63n(int64(1000 * time.Hour)))
			if r.Intn(3) == 0 {
				d = time.Duration(1+r.Intn(999)) * time.Millisecond
			}
			w.CacheDuration = &d
		}
		if r.Intn(2) == 0 {
			w.Name = strPtr(genText(c))
		}
		if r.Intn(2) == 0 {
			w.ID = strPtr("_w" + genText(c))
		}
		for i := r.Intn(3); i > 0; i-- {
			w.EntityDescriptors = append(w.EntityDescriptors, *genEntityDescriptor(c))
		}
		if depth < 2 {
			for i := r.Intn(2); i > 0; i-- {
				w.EntitiesDescriptors = append(w.EntitiesDescriptors, gen(depth+1))
			}
		}
		return w
	}
	w0 := gen(0)
	c.Eval()
	b0, err := xml.Marshal(w0)
	if err != nil {
		c.Violation("C15/entities/marshal-error", err.Error(), nil)
		return
	}
	var w1 saml.EntitiesDescriptor
	if err := xml.Unmarshal(b0, &w1); err != nil {
		c.Violation("C15/entities/reparse-error", err.Error(), map[string]any{"xml": truncate(string(b0), 4000)})
		return
	}
	c.Nontrivial(fmt.Sprintf("me:%x", fnvBytes(b0)))
	var cmp func(a, b *saml.EntitiesDescriptor, path string) string
	cmp = func(a, b *saml.EntitiesDescriptor, path string) string {
		switch {
		case (a.ValidUntil == nil) != (b.ValidUntil == nil):
			return path + ".ValidUntil presence"
		case a.ValidUntil != nil && !b.ValidUntil.Equal(a.ValidUntil.Round(time.Millisecond)):
			return fmt.Sprintf("%s.ValidUntil %v vs %v", path, a.ValidUntil, b.ValidUntil)
		case (a.CacheDuration == nil) != (b.CacheDuration == nil):
			return path + ".CacheDuration presence"
		case a.CacheDuration != nil && *a.CacheDuration != *b.CacheDuration:
			return fmt.Sprintf("%s.CacheDuration %v vs %v", path, *a.CacheDuration, *b.CacheDuration)
		case (a.Name == nil) != (b.Name == nil) || a.Name != nil && *a.Name != *b.Name:
			return path + ".Name"
		case (a.ID == nil) != (b.ID == nil) || a.ID != nil && *a.ID != *b.ID:
			return path + ".ID"
		case len(a.EntityDescriptors) != len(b.EntityDescriptors):
			return fmt.Sprintf("%s: %d vs %d EntityDescriptors", path, len(a.EntityDescriptors), len(b.EntityDescriptors))
		case len(a.EntitiesDescriptors) != len(b.EntitiesDescriptors):
			return fmt.Sprintf("%s: %d vs %d nested EntitiesDescriptors", path, len(a.EntitiesDescriptors), len(b.EntitiesDescriptors))
		}
		for i := range a.EntityDescriptors {
			// what a standalone round trip of the same value gives
			sb, err := xml.Marshal(a.EntityDescriptors[i])
			if err != nil {
				return path + ": standalone marshal " + err.Error()
			}
			var alone saml.EntityDescriptor
			if err := xml.Unmarshal(sb, &alone); err != nil {
				return path + ": standalone reparse " + err.Error()
			}
			x, y := reflect.ValueOf(&alone), reflect.ValueOf(&b.EntityDescriptors[i])
			normalize(x)
			normalize(y)
			if d := firstDiff(x, y, fmt.Sprintf("%s.EntityDescriptors[%d]", path, i)); d != "" {
				return "contained descriptor differs from its standalone round trip: " + d
			}
		}
		for i := range a.EntitiesDescriptors {
			if d := cmp(&a.EntitiesDescriptors[i], &b.EntitiesDescriptors[i], fmt.Sprintf("%s.EntitiesDescriptors[%d]", path, i)); d != "" {
				return d
			}
		}
		return ""
	}
	if d := cmp(&w0, &w1, "EntitiesDescriptor"); d != "" {
		c.Violation("C15/entities/"+pathClass(d), "EntitiesDescriptor round trip: "+d, map[string]any{"xml": truncate(string(b0), 6000)})
		return
	}
	c.Count("entities_descriptor_roundtrip_ok")
}

func genDurationString(c *core.Ctx) string {
	r := c.Rng
	num := func(max int64) string {
		switch r.Intn(6) {
		case 0:
			return "0"
		case 1:
			return fmt.Sprintf("%d", r.Int63n(10))
		case 2:
			return fmt.Sprintf("%03d", r.Int63n(100)) // leading zeros are legal
		default:
			return fmt.Sprintf("%d", r.Int63n(max))
		}
	}
	for {
		var b strings.Builder
		if r.Intn(4) == 0 {
			b.WriteByte('-')
		}
		b.WriteByte('P')
		any := false
		if r.Intn(4) == 0 {
			b.WriteString(num(290) + "Y")
			any = true
		}
		if r.Intn(4) == 0 {
			b.WriteString(num(1200) + "M")
			any = true
		}
		if r.Intn(3) == 0 {
			b.WriteString(num(100000) + "D")
			any = true
		}
		if r.Intn(5) != 0 {
			var t strings.Builder
			if r.Intn(3) == 0 {
				t.WriteString(num(2000000) + "H")
			}
			if r.Intn(3) == 0 {
				t.WriteString(num(100000000) + "M")
			}
			if r.Intn(3) != 0 {
				t.WriteString(num(4000000000))
				if r.Intn(2) == 0 {
					n := 1 + r.Intn(9)
					if r.Intn(10) == 0 {
						n = 10 + r.Intn(5)
					}
					t.WriteByte('.')
					for j := 0; j < n; j++ {
						t.WriteByte(byte('0' + r.Intn(10)))
					}
				}
				t.WriteByte('S')
			}
			if t.Len() > 0 {
				b.WriteString("T" + t.String())
				any = true
			}
		}
		if any {
			return b.String()
		}
	}
}

// ---- metadata ----

var nameType = reflect.TypeOf(xml.Name{})
var timeType = reflect.TypeOf(time.Time{})

// normalize zeroes XMLName fields, turns empty slices into nil and rounds instants to ms/UTC so that DeepEqual
// compares exactly what the property promises.
func normalize(v reflect.Value) {
	switch v.Kind() {
	case reflect.Ptr, reflect.Interface:
		if !v.IsNil() {
			normalize(v.Elem())
		}
	case reflect.Struct:
		if v.Type() == nameType {
			if v.CanSet() {
				v.Set(reflect.Zero(nameType))
			}
			return
		}
		if v.Type() == timeType {
			if v.CanSet() {
				t := v.Interface().(time.Time)
				if t.IsZero() {
					v.Set(reflect.ValueOf(time.Time{}))
				} else {
					v.Set(reflect.ValueOf(t.Round(time.Millisecond).UTC()))
				}
			}
			return
		}
		for i := 0; i < v.NumField(); i++ {
			if v.Type().Field(i).PkgPath != "" {
				continue
			}
			normalize(v.Field(i))
		}
	case reflect.Slice:
		if v.Len() == 0 && !v.IsNil() && v.CanSet() {
			v.Set(reflect.Zero(v.Type()))
			return
		}
		for i := 0; i < v.Len(); i++ {
			normalize(v.Index(i))
		}
	}
}

func firstDiff(a, b reflect.Value, path string) string {
	if a.Kind() != b.Kind() {
		return path + ": kind"
	}
	switch a.Kind() {
	case reflect.Ptr, reflect.Interface:
		if a.IsNil() != b.IsNil() {
			return fmt.Sprintf("%s: nil(%v) vs nil(%v)", path, a.IsNil(), b.IsNil())
		}
		if a.IsNil() {
			return ""
		}
		return firstDiff(a.Elem(), b.Elem(), path)
	case reflect.Struct:
		if a.Type() == timeType {
			if !a.Interface().(time.Time).Equal(b.Interface().(time.Time)) {
				return fmt.Sprintf("%s: %v vs %v", path, a.Interface(), b.Interface())
			}
			return ""
		}
		for i := 0; i < a.NumField(); i++ {
			if a.Type().Field(i).PkgPath != "" {
				continue
			}
			if d := firstDiff(a.Field(i), b.Field(i), path+"."+a.Type().Field(i).Name); d != "" {
				return d
			}
		}
		return ""
	case reflect.Slice:
		if a.Len() != b.Len() {
			return fmt.Sprintf("%s: len %d vs %d", path, a.Len(), b.Len())
		}
		for i := 0; i < a.Len(); i++ {
			if d := firstDiff(a.Index(i), b.Index(i), fmt.Sprintf("%s[%d]", path, i)); d != "" {
				return d
			}
		}
		return ""
	default:
		if !reflect.DeepEqual(a.Interface(), b.Interface()) {
			return fmt.Sprintf("%s: %v vs %v", path, a.Interface(), b.Interface())
		}
		return ""
	}
}

func pathClass(d string) string {
	p := d
	if i := strings.Index(p, ":"); i > 0 {
		p = p[:i]
	}
	return regexp.MustCompile(`\[\d+\]`).ReplaceAllString(p, "[]")
}

func metaGenerated(c *core.Ctx, i int) {
	r := c.Rng
	// clock with sub-ms part
	fx.SetNow(fx.Epoch.Add(time.Duration(r.Int63n(int64(1000 * time.Hour)))))
	defer fx.SetNow(fx.Epoch)
	durs := []time.Duration{0, time.Hour, 48 * time.Hour, 90 * time.Second, 1500 * time.Millisecond, time.Duration(r.Int63n(int64(100 * time.Hour))), time.Duration(1+r.Int63n(999)) * time.Millisecond, time.Duration(r.Int63n(int64(time.Minute)))}
	vd := durs[r.Intn(len(durs))]
	var m *saml.EntityDescriptor
	desc := ""
	if i%2 == 0 {
		kp := fx.K([]string{"sp_rsa2048", "sp_p256", "sp_rsa1024", "sp_p521"}[r.Intn(4)])
		sp := saml.ServiceProvider{
			MetadataURL:           mustURL("https://sp.example.com/saml/metadata"),
			AcsURL:                mustURL("https://sp.example.com/saml/acs?x=" + url.QueryEscape(fx.XMLStrings[r.Intn(len(fx.XMLStrings))])),
			SloURL:                mustURL("https://sp.example.com/saml/slo"),
			MetadataValidDuration: vd,
		}
		if r.Intn(2) == 0 {
			sp.EntityID = "urn:sp:" + fx.XMLStrings[r.Intn(len(fx.XMLStrings))]
		}
		if r.Intn(4) != 0 {
			sp.Key = kp.Key
			sp.Certificate = kp.Cert
			if r.Intn(3) == 0 {
				sp.Intermediates = []*x509.Certificate{fx.K("idp_s2").Cert}
			}
		}
		if r.Intn(2) == 0 {
			sp.SignatureMethod = []string{"http://www.w3.org/2001/04/xmldsig-more#rsa-sha256", "http://www.w3.org/2000/09/xmldsig#rsa-sha1", "http://www.w3.org/2001/04/xmldsig-more#ecdsa-sha256"}[r.Intn(3)]
		}
		switch r.Intn(4) {
		case 1:
			sp.LogoutBindings = []string{saml.HTTPPostBinding}
		case 2:
			sp.LogoutBindings = []string{saml.HTTPPostBinding, saml.HTTPRedirectBinding}
		case 3:
			sp.LogoutBindings = []string{saml.HTTPRedirectBinding}
		}
		sp.AuthnNameIDFormat = []saml.NameIDFormat{"", saml.EmailAddressNameIDFormat, saml.UnspecifiedNameIDFormat, saml.PersistentNameIDFormat}[r.Intn(4)]
		desc = fmt.Sprintf("sp-metadata vd=%v entity=%q cert=%v sig=%q slo=%v", vd, sp.EntityID, sp.Certificate != nil, sp.SignatureMethod, sp.LogoutBindings)
		m = sp.Metadata()
	} else {
		kp := fx.K([]string{"idp_s1", "idp_s2"}[r.Intn(2)])
		idp := saml.IdentityProvider{
			Key: kp.Key, Certificate: kp.Cert,
			MetadataURL: mustURL("https://idp.example.com/metadata"),
			SSOURL:      mustURL("https://idp.example.com/sso"),
		}
		if r.Intn(2) == 0 {
			idp.LogoutURL = mustURL("https://idp.example.com/logout")
		}
		if r.Intn(4) != 0 {
			idp.ValidDuration = &vd
		}
		desc = fmt.Sprintf("idp-metadata vd=%v set=%v logout=%v", vd, idp.ValidDuration != nil, idp.LogoutURL.String())
		m = idp.Metadata()
	}
	c.Eval()
	buf, err := xml.Marshal(m)
	if err != nil {
		c.Violation("C15/metadata/generated/marshal-error", err.Error(), desc)
		return
	}
	var back saml.EntityDescriptor
	if err := xml.Unmarshal(buf, &back); err != nil {
		c.Violation("C15/metadata/generated/reparse-error", err.Error(), map[string]any{"config": desc, "xml": string(buf)})
		return
	}
	c.Nontrivial("mg:" + desc + fx.Now().String())
	a := reflect.ValueOf(m)
	b := reflect.ValueOf(&back)
	normalize(a)
	normalize(b)
	if d := firstDiff(a, b, "EntityDescriptor"); d != "" {
		kind := "sp"
		if i%2 == 1 {
			kind = "idp"
		}
		c.Violation("C15/metadata/generated/"+kind+"/"+pathClass(d), "generated metadata does not re-parse to an equal value: "+d, map[string]any{"config": desc, "xml": string(buf)})
		return
	}
	c.Count("metadata_generated_equal")
	c.SampleSome(map[string]any{"kind": "generated-metadata", "config": desc})
}

func metaFixedPoint(c *core.Ctx, i int) {
	r := c.Rng
	m0 := genEntityDescriptor(c)
	c.Eval()
	b0, err := xml.Marshal(m0)
	if err != nil {
		c.Violation("C15/metadata/fixedpoint/marshal-error", err.Error(), nil)
		return
	}
	var m1 saml.EntityDescriptor
	if err := xml.Unmarshal(b0, &m1); err != nil {
		c.Violation("C15/metadata/fixedpoint/reparse-error", err.Error(), map[string]any{"xml": string(b0)})
		return
	}
	b1, err := xml.Marshal(&m1)
	if err != nil {
		c.Violation("C15/metadata/fixedpoint/marshal2-error", err.Error(), map[string]any{"xml": string(b0)})
		return
	}
	var m2 saml.EntityDescriptor
	if err := xml.Unmarshal(b1, &m2); err != nil {
		c.Violation("C15/metadata/fixedpoint/reparse2-error", err.Error(), map[string]any{"xml": string(b1)})
		return
	}
	c.Nontrivial(fmt.Sprintf("mf:%x", fnvBytes(b0)))
	a := reflect.ValueOf(&m1)
	b := reflect.ValueOf(&m2)
	normalize(a)
	normalize(b)
	if d := firstDiff(a, b, "EntityDescriptor"); d != "" {
		c.Violation("C15/metadata/fixedpoint/"+pathClass(d), "m2 != m1: "+d, map[string]any{"xml0": string(b0), "xml1": string(b1)})
		return
	}
	// preservation m0 -> m1 of the promised parts
	if m1.EntityID != m0.EntityID {
		c.Violation("C15/metadata/preserve/entityID", fmt.Sprintf("%q vs %q", m0.EntityID, m1.EntityID), map[string]any{"xml0": string(b0)})
		return
	}
	if !m1.ValidUntil.Equal(m0.ValidUntil.Round(time.Millisecond)) && !(m0.ValidUntil.IsZero() && m1.ValidUntil.IsZero()) {
		c.Violation("C15/metadata/preserve/validUntil", fmt.Sprintf("%v vs %v", m0.ValidUntil, m1.ValidUntil), map[string]any{"xml0": string(b0)})
		return
	}
	if m1.CacheDuration != m0.CacheDuration {
		c.Violation("C15/metadata/preserve/cacheDuration", fmt.Sprintf("%v vs %v (diff %d ns)", m0.CacheDuration, m1.CacheDuration, int64(m1.CacheDuration-m0.CacheDuration)), map[string]any{"xml0": string(b0)})
		return
	}
	e0, e1 := collectEndpoints(m0, true), collectEndpoints(&m1, true)
	if !reflect.DeepEqual(e0, e1) {
		c.Violation("C15/metadata/preserve/endpoints", fmt.Sprintf("%v vs %v", e0, e1), map[string]any{"xml0": string(b0)})
		return
	}
	k0, k1 := collectKeys(m0), collectKeys(&m1)
	if !reflect.DeepEqual(k0, k1) {
		c.Violation("C15/metadata/preserve/keydescriptors", fmt.Sprintf("%v vs %v", k0, k1), map[string]any{"xml0": string(b0)})
		return
	}
	c.Count("metadata_fixed_point_ok")
	if r.Intn(200) == 0 {
		c.Sample(map[string]any{"kind": "entity-descriptor", "xml": truncate(string(b0), 400)})
	}
}

func truncate(s string, n int) string {
	if len(s) > n {
		return s[:n] + "..."
	}
	return s
}

func collectEndpoints(m *saml.EntityDescriptor, onlyKnown bool) []string {
	var out []string
	ep := func(kind string, e saml.Endpoint) {
		if onlyKnown && !knownBinding(e.Binding) {
			return
		}
		out = append(out, fmt.Sprintf("%s|%s|%s|%s", kind, e.Binding, e.Location, e.ResponseLocation))
	}
	iep := func(kind string, e saml.IndexedEndpoint) {
		if onlyKnown && !knownBinding(e.Binding) {
			return
		}
		rl := "<nil>"
		if e.ResponseLocation != nil {
			rl = *e.ResponseLocation
		}
		def := "<nil>"
		if e.IsDefault != nil {
			def = fmt.Sprint(*e.IsDefault)
		}
		out = append(out, fmt.Sprintf("%s|%s|%s|%s|%d|%s", kind, e.Binding, e.Location, rl, e.Index, def))
	}
	sso := func(p string, s saml.SSODescriptor) {
		for _, e := range s.ArtifactResolutionServices {
			iep(p+"ars", e)
		}
		for _, e := range s.SingleLogoutServices {
			ep(p+"slo", e)
		}
		for _, e := range s.ManageNameIDServices {
			ep(p+"mni", e)
		}
	}
	for _, d := range m.IDPSSODescriptors {
		// IDPSSODescriptor declares its own ArtifactResolutionServices which shadows the embedded one (see DESIGN §9)
		d.SSODescriptor.ArtifactResolutionServices = nil
		sso("idp.", d.SSODescriptor)
		for _, e := range d.ArtifactResolutionServices {
			ep("idp.ars", e)
		}
		for _, e := range d.SingleSignOnServices {
			ep("idp.sso", e)
		}
		for _, e := range d.NameIDMappingServices {
			ep("idp.nim", e)
		}
		for _, e := range d.AssertionIDRequestServices {
			ep("idp.air", e)
		}
	}
	for _, d := range m.SPSSODescriptors {
		sso("sp.", d.SSODescriptor)
		for _, e := range d.AssertionConsumerServices {
			iep("sp.acs", e)
		}
	}
	for _, d := range m.AuthnAuthorityDescriptors {
		for _, e := range d.AuthnQueryServices {
			ep("aa.aq", e)
		}
		for _, e := range d.AssertionIDRequestServices {
			ep("aa.air", e)
		}
	}
	for _, d := range m.AttributeAuthorityDescriptors {
		for _, e := range d.AttributeServices {
			ep("attr.as", e)
		}
		for _, e := range d.AssertionIDRequestServices {
			ep("attr.air", e)
		}
	}
	for _, d := range m.PDPDescriptors {
		for _, e := range d.AuthzServices {
			ep("pdp.az", e)
		}
		for _, e := range d.AssertionIDRequestServices {
			ep("pdp.air", e)
		}
	}
	return out
}

func collectKeys(m *saml.EntityDescriptor) []string {
	var out []string
	kd := func(p string, l []saml.KeyDescriptor) {
		for _, k := range l {
			var certs []string
			for _, x := range k.KeyInfo.X509Data.X509Certificates {
				certs = append(certs, x.Data)
			}
			var em []string
			for _, e := range k.EncryptionMethods {
				em = append(em, e.Algorithm)
			}
			out = append(out, fmt.Sprintf("%s|%s|%v|%v", p, k.Use, certs, em))
		}
	}
	for _, d := range m.IDPSSODescriptors {
		kd("idp", d.KeyDescriptors)
	}
	for _, d := range m.SPSSODescriptors {
		kd("sp", d.KeyDescriptors)
	}
	for _, d := range m.RoleDescriptors {
		kd("role", d.KeyDescriptors)
	}
	for _, d := range m.AuthnAuthorityDescriptors {
		kd("aa", d.KeyDescriptors)
	}
	for _, d := range m.AttributeAuthorityDescriptors {
		kd("attr", d.KeyDescriptors)
	}
	for _, d := range m.PDPDescriptors {
		kd("pdp", d.KeyDescriptors)
	}
	return out
}
