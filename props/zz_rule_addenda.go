package props

import "verif/internal/core"

// Workload dimensions added after the second round of independent mutations (DESIGN.md §9.6). They are appended to the
// rule text of each check so that evidence and manifest describe what is actually driven.
func init() {
	add := map[string]string{
		"C02": "Added: artifact envelopes signed in half of the artifact cases; unsigned Responses without Destination.",
		"C03": "Added: origin-form received-at URLs (path, path+query) with same-request-URI Destinations on foreign hosts and schemes; second-level status codes nested under every top-level value.",
		"C04": "Added: unsigned Responses without Destination (signed assertion inside) for every (outstanding set, InResponseTo, confirmation) combination on the XML and POST entries.",
		"C06": "Added: registry metadata mixing HTTP-Redirect/HTTP-Artifact endpoints at their own locations with the POST ones (a non-POST selection must emit nothing); a preceding response for another session written to a connection that fails part-way.",
		"C07": "Added: sessions that repeat an attribute Name/NameFormat (of an earlier custom attribute or of a built-in one).",
		"C08": "Added: EncryptionMethod lists on the key descriptors {none, supported, unsupported-only, content-only, mixed}; random sources serving short reads (1/7/16 bytes per Read).",
		"C09": "Added: scripted resolver answers that are well-formed but fail one semantic check each (status values, InResponseTo, IssueInstant, Issuer, Version, inner Response status/issuer/freshness/InResponseTo/Destination, no assertion).",
		"C12": "Added: random sources serving short reads (1/7/8/16 bytes per Read); RequestedAuthnContext with Comparison exact/unset/minimum/better.",
		"C13": "Added: RequestedAuthnContext {none, exact, Comparison unset, minimum}, ForceAuthn nil/true/false and NameID format varied per message.",
		"C16": "Added: AuthnStatements carrying SessionNotOnOrAfter before, inside and far beyond the configured session lifetime.",
		"C17": "Added: flows started at URLs whose percent-encoded path decodes to '//host', '?', '#', '../' or carries ';param', and a path-only URL; the restored Location is compared byte-for-byte.",
		"C18": "Added: attacker re-signing with two certificates in KeyInfo (attacker+genuine, both orders); second-level status codes (PartialLogout, AuthnFailed, Success) nested under every top-level value.",
		"C19": "Added: PUT /users with an empty password member; logins and SSO POST credentials with the replaced (previous) password.",
		"C20": "Added: (b2) single-writer/many-reader monitor over long histories (30k-150k writer steps, 3-5 readers calling List/Get continuously): every result must equal a store state that existed between the writer operations completed before the call and begun at its return (exact for single-writer histories).",
	}
	for id, t := range add {
		if s := core.LookupSpec(id); s != nil {
			s.Rule += " " + t
		}
	}
}
