package props

import "verif/internal/core"

// Workload dimensions added after the second round of independent mutations (DESIGN.md §9.6). They are appended to the
// rule text of each check so that evidence and manifest describe what is actually driven.
func init() {
	add := map[string]string{
		"C02": "Added: artifact envelopes signed in half of the artifact cases; unsigned Responses without Destination. Round 3: AllowIDPInitiated on a quarter of the sampled cases; holder-of-key / sender-vouches / empty confirmation Methods.",
		"C03": "Added: origin-form received-at URLs (path, path+query) with same-request-URI Destinations on foreign hosts and schemes; second-level status codes nested under every top-level value. Round 3: AllowIDPInitiated on/off; non-bearer confirmation Methods.",
		"C04": "Added: unsigned Responses without Destination (signed assertion inside) for every (outstanding set, InResponseTo, confirmation) combination on the XML and POST entries. Round 3: non-bearer confirmation Methods; scripted resolver whose first exchange fails (transport error / 503) and which answers any retry with the first request's ID.",
		"C06": "Added: registry metadata mixing HTTP-Redirect/HTTP-Artifact endpoints at their own locations with the POST ones (a non-POST selection must emit nothing); a preceding response for another session written to a connection that fails part-way.",
		"C07": "Added: sessions that repeat an attribute Name/NameFormat (of an earlier custom attribute or of a built-in one).",
		"C08": "Added: EncryptionMethod lists on the key descriptors {none, supported, unsupported-only, content-only, mixed}; random sources serving short reads (1/7/16 bytes per Read).",
		"C09": "Added: scripted resolver answers that are well-formed but fail one semantic check each (status values, InResponseTo, IssueInstant, Issuer, Version, inner Response status/issuer/freshness/InResponseTo/Destination, no assertion). Round 3: one more SP per delivery from the six other trust configurations; dictionary sweeps (path/template/format metacharacters, PEM armour fragments, base64 edge cases) over the X509Certificate text of both signature positions under every trust configuration, and over EncryptedKey Id / RetrievalMethod URI of encrypted assertions in the sibling-EncryptedKey layout; vocabulary insertion and targeted garbling in the structural mutator.",
		"C12": "Added: random sources serving short reads (1/7/8/16 bytes per Read); RequestedAuthnContext with Comparison exact/unset/minimum/better. Round 3: IdP SingleLogoutService endpoints with a ResponseLocation (requests must go to Location; responses may go to either, consistently).",
		"C13": "Added: RequestedAuthnContext {none, exact, Comparison unset, minimum}, ForceAuthn nil/true/false and NameID format varied per message. Round 3: samlsp.Middleware.HandleStartAuthFlow with SignRequest on, IdP offering redirect-only / POST-only / both SSO endpoints, Middleware.Binding unset / redirect / POST; near-miss method URIs (white space, case, trailing #, truncated); SP Intermediates.",
		"C16": "Added: AuthnStatements carrying SessionNotOnOrAfter before, inside and far beyond the configured session lifetime. Round 3: a deployment whose codec has different Issuer and Audience names, with re-signed tokens carrying each name in the other claim.",
		"C17": "Added: flows started at URLs whose percent-encoded path decodes to '//host', '?', '#', '../' or carries ';param', and a path-only URL; the restored Location is compared byte-for-byte. Round 3: DefaultRedirectURI, CookieName, SignRequest, CookieSameSite varied per world; deliveries that present the authentic cookie of the answered flow plus a second, undecodable cookie named by RelayState.",
		"C18": "Added: attacker re-signing with two certificates in KeyInfo (attacker+genuine, both orders); second-level status codes (PartialLogout, AuthnFailed, Success) nested under every top-level value. Round 3: trust-reconfiguration sequences on one long-lived SP (as C01).",
		"C19": "Added: PUT /users with an empty password member; logins and SSO POST credentials with the replaced (previous) password. Round 3: sparse PUT bodies (e-mail, groups, names left out) with the stored user compared to the body; two seeded users without e-mail; live / older / forged session cookies attached to credential logins.",
		"C20": "Added: (b2) single-writer/many-reader monitor over long histories (30k-150k writer steps, 3-5 readers calling List/Get continuously): every result must equal a store state that existed between the writer operations completed before the call and begun at its return (exact for single-writer histories).",
		"C05": "Added: optional request content that must not matter (requester Conditions window, Subject with foreign Recipient, Scoping, Extensions, ForceAuthn/IsPassive); client-controlled receive host (Host / X-Forwarded-Host equal to the forged Destination's host or a third host).",
		"C11": "Added: unusual certificates of other keys (CA, CA with path length 0, expired, same subject and serial, no key usage, EC CA); key values without key material (typed-nil and zero *rsa.PrivateKey, public-only key, nil slices, typed-nil ECDSA key and certificate).",
		"C14": "Added: metadata endpoint attributes spelled as namespace-qualified twins of the plain attribute (before/after it, foreign or metadata namespace prefix, qualified Binding / ResponseLocation twins).",
	}
	for id, t := range add {
		if s := core.LookupSpec(id); s != nil {
			s.Rule += " " + t
		}
	}
}
