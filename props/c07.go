package props

import (
	"crypto/x509"
	"encoding/xml"
	"fmt"
	"net/http"
	"net/http/httptest"
	"net/url"
	"reflect"
	"strings"
	"time"
	"unicode/utf8"

	"github.com/crewjam/saml"

	"verif/internal/core"
	"verif/internal/fx"
	"verif/internal/htmlmon"
	"verif/internal/so"
)

// C07 — IdP-to-SP round trip preserves the authenticated identity exactly.

func init() {
	core.RegisterSpec(&core.Spec{
		ID:    "C07",
		Level: "exploration",
		Rule: "sessions whose strings (NameID, user name, e-mail, common/sur/given name, affiliation, groups, custom attribute names/values, session index, subject id) are drawn from XML 1.0 Char classes (markup, quotes, TAB/LF/CR/CRLF, leading/trailing/only white space, CDATA/comment look-alikes, U+0085/U+2028/U+FFFD, non-BMP, empty) x SP configuration {entity ID set/unset, RSA-1024..4096 and ECDSA P-256/384/521 keys, redirect/POST request binding, signed/unsigned requests} x IdP signature method {default, rsa-sha1/256/384/512}. " +
			"The library SP is configured from xml(idp.Metadata()) re-parsed, registers at the library IdP with xml(sp.Metadata()) re-parsed, issues a request through its binding, the IdP answers through ServeSSO-equivalent steps and the SP parses the emitted form. Oracle: accepted, NameID and the ordered attribute (name, friendly name, format, values) list equal the assertion the IdP built and every session-originated string equals the session's. Non-trivial = IdP produced a response and the SP was called; distinct by session strings x configuration.",
		Assumptions: []string{"strings outside XML 1.0 Char (NUL, U+FFFE...) are not generated", "third-party IdPs/SPs are not in the loop"},
		FloorQuick:  450,
		FloorThor:   2000,
		Run:         runC07,
		LevelText:   "Generated IdP output is fed into the SP across the string and configuration space (something no existing test does) and identity equality is judged on the SP's result. Held-on-observed.",
		LevelNote:   "Trusts x/net/html for reading the emitted form; the expectation is the assertion struct the IdP itself built plus the session given to it.",
		Technique:   "runtime monitoring: end-to-end round-trip identity oracle",
		DesignRef:   "DESIGN.md §5 C07",
	})
}

var c07Strings = append(append([]string{}, fx.XMLStrings...), fx.CRStrings...)

func c07Str(c *core.Ctx) string {
	r := c.Rng
	switch r.Intn(10) {
	case 0: // random composition of Char classes
		var b strings.Builder
		for i := 1 + r.Intn(12); i > 0; i-- {
			b.WriteString([]string{"a", " ", "\t", "\n", "\r", "\r\n", "<", ">", "&", "\"", "'", "]]>", "é", "\u0085", " ", "\U0001F600", "&#13;", "%", "=", " ", "�", "-->", "<!--"}[r.Intn(23)])
		}
		return b.String()
	case 1:
		return strings.Repeat(c07Strings[r.Intn(len(c07Strings))], 1+r.Intn(50))
	}
	return c07Strings[r.Intn(len(c07Strings))]
}

func c07NonEmpty(c *core.Ctx) string {
	for {
		if s := c07Str(c); s != "" {
			return s
		}
	}
}

type c07Cfg struct {
	spKey     string
	entityID  bool
	post      bool
	signReq   bool
	noCert    bool // SP without certificate: publishes no encryption key, assertions travel in clear
	method    string
	spSigAlg  string
	parsePOST bool
	interm    bool // the SP is configured with an intermediate certificate (sp.Intermediates)
}

func (k c07Cfg) String() string {
	return fmt.Sprintf("spKey=%s noCert=%v entityID=%v postBinding=%v signReq=%v idpMethod=%q viaParseResponse=%v intermediates=%v", k.spKey, k.noCert, k.entityID, k.post, k.signReq, shortAlg(k.method), k.parsePOST, k.interm)
}

func runC07(c *core.Ctx) {
	so.Quiet()
	fx.SetNow(fx.Epoch)
	fx.ResetTolerances()
	keys := []string{"sp_rsa2048", "sp_rsa1024", "sp_rsa3072", "sp_rsa4096", "sp_p256", "sp_p384", "sp_p521", "sp_rsa2048"}
	methods := []string{"", so.RSASHA1, so.RSASHA256, so.RSASHA384, so.RSASHA512}
	n := c.Pick(4800, 100000)
	for i := 0; i < n; i++ {
		if !c.Mine(i) {
			continue
		}
		r := c.Rng
		k := c07Cfg{spKey: keys[r.Intn(len(keys))], entityID: r.Intn(2) == 0, post: r.Intn(2) == 0, signReq: r.Intn(2) == 0, method: methods[r.Intn(5)], parsePOST: r.Intn(2) == 0}
		if r.Intn(3) == 0 {
			k.noCert, k.signReq = true, false
		}
		k.interm = !k.noCert && c.Rng.Intn(5) == 0
		c07Run(c, k)
	}
}

func c07Run(c *core.Ctx, k c07Cfg) {
	r := c.Rng
	rnd := fx.NewRecReader(r.Int63())
	saml.RandReader = rnd
	spKP := fx.K(k.spKey)
	// --- IdP
	// one IdP and one SP object per process, given a new configuration for every case
	fresh := so.NewIDPWorld()
	if c07LiveWorld == nil {
		c07LiveWorld = so.NewIDPWorld()
	}
	w := c07LiveWorld
	for id := range w.Registry {
		delete(w.Registry, id)
	}
	keepSPP, keepSP := w.IDP.ServiceProviderProvider, w.IDP.SessionProvider
	reconfigure(w.IDP, fresh.IDP)
	w.IDP.ServiceProviderProvider, w.IDP.SessionProvider = keepSPP, keepSP
	w.IDP.SignatureMethod = k.method
	w.IDP.LogoutURL = mustURL(so.IDPSLO)
	// --- SP configured from the IdP's published metadata (through text)
	ib, err := xml.Marshal(w.IDP.Metadata())
	if err != nil {
		c.Violation("C07/idp-metadata-marshal", err.Error(), nil)
		return
	}
	var idpMD saml.EntityDescriptor
	if err := xml.Unmarshal(ib, &idpMD); err != nil {
		c.Violation("C07/idp-metadata-reparse", err.Error(), string(ib))
		return
	}
	if c07LiveSP == nil {
		c07LiveSP = &saml.ServiceProvider{}
	}
	sp := c07LiveSP
	reconfigure(sp, &saml.ServiceProvider{Key: spKP.Key, Certificate: spKP.Cert, MetadataURL: mustURL(so.SPMeta), AcsURL: mustURL(so.SPACS), SloURL: mustURL(so.SPSLO), IDPMetadata: &idpMD})
	if k.noCert {
		sp.Certificate = nil
	}
	if k.interm {
		sp.Intermediates = []*x509.Certificate{fx.K("idp_s2").Cert} // any certificate will do as the "issuing CA" of the chain
	}
	if k.entityID {
		sp.EntityID = "urn:example:sp:" + []string{"a", "ü", "x&y", "a b", "q?r=s#t", "<e>", "O'Neil"}[r.Intn(7)] // entity IDs are URIs: markup characters yes, line breaks no
	}
	if k.signReq {
		if spKP.IsRSA() {
			sp.SignatureMethod = so.RSAMethods[r.Intn(4)]
		} else {
			sp.SignatureMethod = so.ECMethods[1+r.Intn(3)]
		}
	}
	// --- the SP registers with its own published metadata (through text)
	sb, err := xml.Marshal(sp.Metadata())
	if err != nil {
		c.Violation("C07/sp-metadata-marshal", err.Error(), nil)
		return
	}
	var spMD saml.EntityDescriptor
	if err := xml.Unmarshal(sb, &spMD); err != nil {
		c.Violation("C07/sp-metadata-reparse", err.Error(), string(sb))
		return
	}
	w.Registry[spMD.EntityID] = &spMD
	// --- session
	sess := &saml.Session{ID: "s1", CreateTime: fx.Now().Add(-time.Minute), ExpireTime: fx.Now().Add(time.Hour), Index: c07Str(c), NameID: c07Str(c),
		UserName: c07Str(c), UserEmail: c07Str(c), UserCommonName: c07Str(c), UserSurname: c07Str(c), UserGivenName: c07Str(c), UserScopedAffiliation: c07Str(c), SubjectID: c07Str(c)}
	if r.Intn(2) == 0 {
		sess.EduPersonPrincipalName = c07Str(c)
	}
	// every optional field is independently absent in a quarter of the sessions: which attributes appear must depend on
	// each field alone
	for _, f := range []*string{&sess.UserName, &sess.UserEmail, &sess.UserCommonName, &sess.UserSurname, &sess.UserGivenName, &sess.UserScopedAffiliation, &sess.SubjectID} {
		if r.Intn(4) == 0 {
			*f = ""
		}
	}
	for i := r.Intn(4); i > 0; i-- {
		sess.Groups = append(sess.Groups, c07Str(c))
	}
	for i := r.Intn(3); i > 0; i-- {
		a := saml.Attribute{Name: c07NonEmpty(c), FriendlyName: c07Str(c), NameFormat: []string{"urn:oasis:names:tc:SAML:2.0:attrname-format:basic", "urn:oasis:names:tc:SAML:2.0:attrname-format:uri", c07Str(c)}[r.Intn(3)]}
		for j := 1 + r.Intn(3); j > 0; j-- {
			a.Values = append(a.Values, saml.AttributeValue{Type: "xs:string", Value: c07Str(c)})
		}
		sess.CustomAttributes = append(sess.CustomAttributes, a)
	}
	if r.Intn(3) == 0 {
		// a name that occurs twice: a second attribute with the Name and NameFormat of an earlier custom attribute, or of one
		// of the attributes the IdP derives from the session's own fields; both must arrive, separately and in order
		dup := saml.Attribute{Name: "uid", NameFormat: "urn:oasis:names:tc:SAML:2.0:attrname-format:basic", FriendlyName: c07Str(c)}
		switch n := len(sess.CustomAttributes); {
		case n > 0 && r.Intn(3) != 0:
			o := sess.CustomAttributes[r.Intn(n)]
			dup.Name, dup.NameFormat = o.Name, o.NameFormat
		case r.Intn(2) == 0:
			dup.Name, dup.NameFormat = "urn:oid:0.9.2342.19200300.100.1.3", "urn:oasis:names:tc:SAML:2.0:attrname-format:uri"
		}
		for j := 1 + r.Intn(2); j > 0; j-- {
			dup.Values = append(dup.Values, saml.AttributeValue{Type: "xs:string", Value: c07Str(c)})
		}
		sess.CustomAttributes = append(sess.CustomAttributes, dup)
		c.Count("sessions_with_repeated_attribute_name")
	}
	if r.Intn(3) == 0 {
		sess.NameIDFormat = string(saml.PersistentNameIDFormat)
	}
	w.Session = sess
	desc := k.String() + " session=" + fmt.Sprintf("%q", []string{sess.NameID, sess.UserName, sess.UserEmail, sess.Index})
	c.Journal("C07 " + desc)

	// --- SP issues the request through its binding
	relay := c07Str(c)
	var hr *http.Request
	var reqID string
	if k.post {
		ar, err := sp.MakeAuthenticationRequest(sp.GetSSOBindingLocation(saml.HTTPPostBinding), saml.HTTPPostBinding, saml.HTTPPostBinding)
		if err != nil {
			c.Violation("C07/sp-request-error", err.Error()+" ("+desc+")", nil)
			return
		}
		reqID = ar.ID
		page, perr := htmlmon.Parse(ar.Post(relay))
		if perr != nil || len(page.Forms) != 1 {
			c.Violation("C07/sp-post-form", "cannot read SP POST form", nil)
			return
		}
		form := url.Values{}
		for _, in := range page.Forms[0].Inputs {
			if n := in.Attrs["name"]; n != "" {
				form.Set(n, in.Attrs["value"])
			}
		}
		hr = httptest.NewRequest("POST", page.Forms[0].Attrs["action"], strings.NewReader(form.Encode()))
		hr.Header.Set("Content-Type", "application/x-www-form-urlencoded")
	} else {
		ar, err := sp.MakeAuthenticationRequest(sp.GetSSOBindingLocation(saml.HTTPRedirectBinding), saml.HTTPRedirectBinding, saml.HTTPPostBinding)
		if err != nil {
			c.Violation("C07/sp-request-error", err.Error()+" ("+desc+")", nil)
			return
		}
		reqID = ar.ID
		u, err := ar.Redirect(relay, sp)
		if err != nil {
			c.Violation("C07/sp-redirect-error", err.Error(), nil)
			return
		}
		hr = httptest.NewRequest("GET", u.String(), nil)
	}
	hr.RemoteAddr = "203.0.113.9:1234"
	// --- IdP answers (ServeSSO's steps, keeping the request object so that the assertion the IdP built is visible)
	var body []byte
	var built *saml.Assertion
	var stage string
	var ierr error
	p, pv, frame, _ := core.Guard(func() {
		stage = "parse"
		req, err := saml.NewIdpAuthnRequest(w.IDP, hr)
		if err != nil {
			ierr = err
			return
		}
		stage = "validate"
		if err := req.Validate(); err != nil {
			ierr = err
			return
		}
		stage = "make-assertion"
		if err := (saml.DefaultAssertionMaker{}).MakeAssertion(req, sess); err != nil {
			ierr = err
			return
		}
		built = req.Assertion
		stage = "write-response"
		rec := httptest.NewRecorder()
		if err := req.WriteResponse(rec); err != nil {
			ierr = err
			return
		}
		body = rec.Body.Bytes()
	})
	c.Eval()
	replay := map[string]any{"case": desc, "session": sess, "sp_metadata": string(sb)}
	if p {
		c.Violation("C07/panic/"+frame+"/"+panicClass(pv), fmt.Sprintf("panic %v (%s)", pv, desc), replay)
		return
	}
	keyKind := "rsa"
	if !spKP.IsRSA() {
		keyKind = "ecdsa"
	}
	if ierr != nil {
		c.Nontrivial(desc)
		c.Violation("C07/idp-refuses/"+stage+"/sp-key-"+keyKind, fmt.Sprintf("the IdP cannot answer the SP's own request (%s): %v (%s)", stage, ierr, desc), replay)
		return
	}
	em, err := so.DecodeReply(body, nil)
	if err != nil || em == nil {
		c.Violation("C07/idp-reply-undecodable", fmt.Sprintf("%v", err), replay)
		return
	}
	replay["response"] = string(em.ResponseXML)
	// (the relay state's fate through the bindings and forms is judged by C12 / C14, not here)
	// --- SP consumes
	var got *saml.Assertion
	var perr error
	cur := mustURL(em.Action)
	p, pv, frame, _ = core.Guard(func() {
		if k.parsePOST {
			got, perr = sp.ParseResponse(so.PostRequest(cur, url.Values{"SAMLResponse": {em.B64}, "RelayState": {em.RelayState}}), []string{reqID})
		} else {
			got, perr = sp.ParseXMLResponse(em.ResponseXML, []string{reqID}, cur)
		}
	})
	c.Nontrivial(desc)
	if p {
		c.Violation("C07/panic/"+frame+"/"+panicClass(pv), fmt.Sprintf("panic %v (%s)", pv, desc), replay)
		return
	}
	encrypted := len(em.EncryptedAssertions) > 0
	cls := charClass(sess)
	if perr != nil {
		c.Violation(fmt.Sprintf("C07/sp-rejects/%s/encrypted=%v", cls, encrypted), fmt.Sprintf("the SP rejects the IdP's response: %s (%s)", errPrivate(perr), desc), replay)
		return
	}
	// --- identity equality
	if got.Subject == nil || got.Subject.NameID == nil || got.Subject.NameID.Value != sess.NameID {
		g := "<nil>"
		if got.Subject != nil && got.Subject.NameID != nil {
			g = got.Subject.NameID.Value
		}
		c.Violation(fmt.Sprintf("C07/nameid-altered/encrypted=%v/%s", encrypted, strClass(sess.NameID)), fmt.Sprintf("NameID %q came back as %q (%s)", sess.NameID, g, desc), replay)
		return
	}
	var gotAttrs, wantAttrs []saml.Attribute
	for _, st := range got.AttributeStatements {
		gotAttrs = append(gotAttrs, st.Attributes...)
	}
	for _, st := range built.AttributeStatements {
		wantAttrs = append(wantAttrs, st.Attributes...)
	}
	if d := attrDiff(wantAttrs, gotAttrs); d != "" {
		c.Violation(fmt.Sprintf("C07/attributes-altered/%s/encrypted=%v", cls, encrypted), fmt.Sprintf("attributes differ: %s (%s)", d, desc), replay)
		return
	}
	// values that originate from the session
	must := map[string]string{}
	if sess.UserName != "" {
		must["urn:oid:0.9.2342.19200300.100.1.1"] = sess.UserName
	}
	if sess.UserEmail != "" {
		must["urn:oid:0.9.2342.19200300.100.1.3"] = sess.UserEmail
	}
	if sess.UserSurname != "" {
		must["urn:oid:2.5.4.4"] = sess.UserSurname
	}
	if sess.UserGivenName != "" {
		must["urn:oid:2.5.4.42"] = sess.UserGivenName
	}
	if sess.UserCommonName != "" {
		must["urn:oid:2.5.4.3"] = sess.UserCommonName
	}
	if sess.SubjectID != "" {
		must["urn:oasis:names:tc:SAML:attribute:subject-id"] = sess.SubjectID
	}
	if sess.UserScopedAffiliation != "" {
		must["urn:oid:1.3.6.1.4.1.5923.1.1.1.9"] = sess.UserScopedAffiliation
	}
	if sess.EduPersonPrincipalName != "" { // the session's own principal name, whatever else the session has or lacks
		must["urn:oid:1.3.6.1.4.1.5923.1.1.1.6"] = sess.EduPersonPrincipalName
	}
	for name, want := range must {
		found := false
		for _, a := range gotAttrs {
			if a.Name == name && len(a.Values) == 1 && a.Values[0].Value == want {
				found = true
			}
		}
		if !found {
			c.Violation("C07/session-value-lost/"+strClass(want), fmt.Sprintf("attribute %s does not carry the session value %q (%s)", name, want, desc), replay)
			return
		}
	}
	// custom attributes arrive as they are, in order (an independent statement; wantAttrs above comes from the maker itself)
	gi := 0
	for _, ca := range sess.CustomAttributes {
		found := false
		for ; gi < len(gotAttrs) && !found; gi++ {
			a := gotAttrs[gi]
			if a.Name != ca.Name || a.FriendlyName != ca.FriendlyName || a.NameFormat != ca.NameFormat || len(a.Values) != len(ca.Values) {
				continue
			}
			found = true
			for i := range a.Values {
				if a.Values[i].Value != ca.Values[i].Value {
					found = false
				}
			}
		}
		if !found && !strings.ContainsRune(ca.Name+ca.FriendlyName+ca.NameFormat, '\r') {
			c.Violation("C07/custom-attribute-lost", fmt.Sprintf("custom attribute %q (%d values) does not arrive as configured, in order (%s)", ca.Name, len(ca.Values), desc), replay)
			return
		}
	}
	if len(sess.Groups) > 0 {
		var gv []string
		for _, a := range gotAttrs {
			if a.Name == "urn:oid:1.3.6.1.4.1.5923.1.1.1.1" {
				for _, v := range a.Values {
					gv = append(gv, v.Value)
				}
			}
		}
		if !reflect.DeepEqual(gv, sess.Groups) {
			c.Violation("C07/groups-altered", fmt.Sprintf("groups %q came back as %q", sess.Groups, gv), replay)
			return
		}
	}
	if len(got.AuthnStatements) != 1 || got.AuthnStatements[0].SessionIndex != sess.Index {
		c.Violation("C07/session-index-altered/"+cls, fmt.Sprintf("SessionIndex %q came back differently (%s)", sess.Index, desc), replay)
		return
	}
	c.Count("round_trips_ok")
	if encrypted {
		c.Count("round_trips_ok_encrypted")
	}
	c.Observe("configurations", fmt.Sprintf("key=%s encrypted=%v method=%q", k.spKey, encrypted, shortAlg(k.method)))
	c.SampleSome(map[string]any{"case": desc, "attributes": len(gotAttrs), "encrypted": encrypted})
}

func attrDiff(want, got []saml.Attribute) string {
	if len(want) != len(got) {
		return fmt.Sprintf("%d attributes sent, %d received", len(want), len(got))
	}
	for i := range want {
		w, g := want[i], got[i]
		if w.Name != g.Name || w.FriendlyName != g.FriendlyName || w.NameFormat != g.NameFormat {
			return fmt.Sprintf("attribute %d: (%q,%q,%q) became (%q,%q,%q)", i, w.Name, w.FriendlyName, w.NameFormat, g.Name, g.FriendlyName, g.NameFormat)
		}
		if len(w.Values) != len(g.Values) {
			return fmt.Sprintf("attribute %q: %d values became %d", w.Name, len(w.Values), len(g.Values))
		}
		for j := range w.Values {
			if w.Values[j].Value != g.Values[j].Value {
				return fmt.Sprintf("attribute %q value %d: %q became %q", w.Name, j, w.Values[j].Value, g.Values[j].Value)
			}
			if w.Values[j].Type != g.Values[j].Type {
				return fmt.Sprintf("attribute %q value %d: type %q became %q", w.Name, j, w.Values[j].Type, g.Values[j].Type)
			}
		}
	}
	return ""
}

// strClass names the character class of a string that is most likely responsible for an alteration.
func strClass(s string) string {
	switch {
	case strings.ContainsRune(s, '\r'):
		return "contains-CR"
	case !utf8.ValidString(s):
		return "invalid-utf8"
	case strings.ContainsAny(s, "\u0085 "):
		return "unicode-line-separator"
	case s != strings.TrimSpace(s):
		return "edge-whitespace"
	case strings.ContainsAny(s, "\t\n"):
		return "tab-or-lf"
	case strings.ContainsAny(s, "<>&\"'"):
		return "markup"
	case s == "":
		return "empty"
	}
	return "plain"
}

func charClass(s *saml.Session) string {
	// positions that the IdP renders as XML attributes (SessionIndex, custom attribute Name / FriendlyName / NameFormat)
	attrPos := []string{s.Index}
	textPos := []string{s.NameID, s.UserName, s.UserEmail, s.UserCommonName, s.UserSurname, s.UserGivenName, s.UserScopedAffiliation, s.SubjectID, s.EduPersonPrincipalName}
	textPos = append(textPos, s.Groups...)
	for _, a := range s.CustomAttributes {
		attrPos = append(attrPos, a.Name, a.FriendlyName, a.NameFormat)
		for _, v := range a.Values {
			textPos = append(textPos, v.Value)
		}
	}
	for _, x := range attrPos {
		if strings.ContainsRune(x, '\r') {
			return "CR-in-xml-attribute-position"
		}
	}
	for _, x := range textPos {
		if strings.ContainsRune(x, '\r') {
			return "CR-in-text-position"
		}
	}
	return "no-CR"
}

var (
	c07LiveWorld *so.IDPWorld
	c07LiveSP    *saml.ServiceProvider
)
